import MmtkModel.Model.WeakRounds
import Driver.Util
/-!
# C13: replay of the real event log of one pause against `Mmtk.WeakRounds`

`hx_gc events` prints the in-core event log (harness/HX_GC_EVENTS.md) as `ev <seq>:<tid>:<kind>:<a>:<b> …`. The events
of the `VMRefClosure` stage (index 11 with the harness feature set) are translated into actions of the sentinel
protocol model — a closure packet pushed into the stage (`BqPush` 13 / `WorkerLocalPush` 21) = `spawn`, `PacketStart`
26 / `PacketEnd` 27 of a stage-11 packet = `start` / `finish`, `BucketSchedSentinel(11, taken)` 19 = `lastParked`,
`PacketStart` of the `VMProcessWeakRefs` packet = `callBegin`, `VmProcessWeak(ret, round)` 72 = `callEnd ret` — and every
action must be `enabled` in the model state it meets: a call that starts while a packet of the stage is queued or
running, a sentinel scheduled on a non-drained bucket, a re-installed sentinel after a `false` answer, the next
bucket opening before a `false` answer are all rejected. `VmForwardWeak` 73 must come after the `VMRefForwarding`
bucket (16) opened with no `CalculateForwarding` (12) packet queued or running.
-/
namespace Driver.GCWeak.Events
open Driver Mmtk.WeakRounds

structure Ev where
  seq : Nat
  tid : Nat
  kind : Nat
  a : Nat
  b : Nat
  deriving Repr, Inhabited

def parseEv (tok : String) : Option Ev :=
  match (tok.splitOn ":").mapM (·.toNat?) with
  | some [s, t, k, a, b] => some { seq := s, tid := t, kind := k, a := a, b := b }
  | _ => none

def stVMRef : Nat := 11
def stCalcFwd : Nat := 12
def stVMRefFwd : Nat := 16

structure ES where
  m : St := {}
  open11 : Bool := false
  nextOpen : Bool := false
  preInstalled : Bool := false
  /-- pending pushes: ((pid, type), stage) -/
  pend : List ((Nat × Nat) × Nat) := []
  /-- tid ↦ (pid, type, stage) of the packet it executes -/
  run : List (Nat × (Nat × Nat × Nat)) := []
  q11pre : Nat := 0
  /-- a `BucketSetSentinel` for the stage was seen since the last `VmProcessWeak` -/
  sentSeen : Bool := false
  q12 : Nat := 0
  r12 : Nat := 0
  open16 : Bool := false
  fwd : Nat := 0
  calls : Nat := 0
  err : Option (String × String) := none

def fail (s : ES) (k d : String) : ES := if s.err.isSome then s else { s with err := some (k, d) }

/-- do one model action; it must be enabled -/
def act (s : ES) (a : Act) (seq : Nat) (what : String) : ES :=
  if enabled s.m a then { s with m := step s.m a }
  else fail s "gc:weak-not-drained" s!"event {seq}: {what} is not possible in the protocol state queue={s.m.queue} running={s.m.running} sentinel={s.m.sentinel} scheduled={s.m.sq} in-call={s.m.sr} done={s.m.done}"

def removeFirst (l : List ((Nat × Nat) × Nat)) (k : Nat × Nat) : Option Nat × List ((Nat × Nat) × Nat) :=
  match l with
  | [] => (none, [])
  | (k', st) :: rest => if k' == k then (some st, rest) else
    let (r, rest') := removeFirst rest k
    (r, (k', st) :: rest')

def one (weakTys : List Nat) (s : ES) (e : Ev) : ES :=
  if s.err.isSome then s else
  let ty := e.b >>> 8
  let stg := e.b &&& 255
  if e.kind == 13 || e.kind == 21 then
    let s := { s with pend := s.pend ++ [((e.a, ty), stg)] }
    if stg == stVMRef && !weakTys.contains ty then
      (if s.open11 then act s .spawn e.seq "a closure packet is added to the stage" else { s with q11pre := s.q11pre + 1 })
    else if stg == stCalcFwd then { s with q12 := s.q12 + 1 } else s
  else if e.kind == 26 then
    let (st?, pend) := removeFirst s.pend (e.a, ty)
    let stg := st?.getD 255
    let s := { s with pend := pend, run := (e.tid, (e.a, ty, stg)) :: s.run.filter (·.1 != e.tid) }
    if weakTys.contains ty then act s .callBegin e.seq "VMProcessWeakRefs starts"
    else if stg == stVMRef && s.open11 then act s .start e.seq "a closure packet of the stage starts"
    else if stg == stCalcFwd then { s with q12 := s.q12 - 1, r12 := s.r12 + 1 } else s
  else if e.kind == 27 then
    match s.run.lookup e.tid with
    | none => s
    | some (_, ty, stg) =>
      let s := { s with run := s.run.filter (·.1 != e.tid) }
      if weakTys.contains ty then
        (if s.m.rets.getLast? == some true && !s.sentSeen then
          fail s "gc:weak-sentinel" s!"event {e.seq}: process_weak_refs returned true but the sentinel was not re-installed"
        else s)
      else if stg == stVMRef && s.open11 then act s .finish e.seq "a closure packet of the stage ends"
      else if stg == stCalcFwd then { s with r12 := s.r12 - 1 } else s
  else if e.kind == 18 then
    if stg == stVMRef && weakTys.contains ty then
      (if !s.open11 then { s with preInstalled := true }
       else if s.m.sentinel && s.m.rets.getLast? == some true && !s.sentSeen then { s with sentSeen := true }
       else fail s "gc:weak-sentinel" s!"event {e.seq}: VMProcessWeakRefs installed as sentinel although process_weak_refs did not just return true")
    else s
  else if e.kind == 19 then
    if e.a == stVMRef && s.open11 then
      (if e.b == 1 then
        (if s.m.sentinel then act s .lastParked e.seq "the sentinel is scheduled"
         else fail s "gc:weak-sentinel" s!"event {e.seq}: a sentinel was scheduled but the model has none")
       else if s.m.done then s
       else if s.m.sentinel then fail s "gc:weak-sentinel" s!"event {e.seq}: schedule_sentinels found no sentinel although one was installed"
       else act s .lastParked e.seq "schedule_sentinels finds the stage finished")
    else s
  else if e.kind == 15 then
    if e.a == stVMRef then
      let s := { s with open11 := true, m := init s.q11pre }
      (if s.preInstalled then s else fail s "gc:weak-sentinel" s!"event {e.seq}: the VMRefClosure bucket opened without a VMProcessWeakRefs sentinel")
    else if e.a > stVMRef && s.open11 && !s.nextOpen then
      let s := { s with nextOpen := true, open16 := s.open16 || e.a == stVMRefFwd }
      (if s.m.done then s else fail s "gc:weak-next-bucket" s!"event {e.seq}: bucket {e.a} opened before process_weak_refs returned false (answers so far: {s.m.rets})")
    else { s with open16 := s.open16 || e.a == stVMRefFwd }
  else if e.kind == 72 then
    let s := if e.b != s.m.rets.length then fail s "gc:weak-rounds" s!"event {e.seq}: round index {e.b}, model {s.m.rets.length}" else s
    let s := act s (.callEnd (e.a == 1)) e.seq "process_weak_refs returns"
    { s with calls := s.calls + 1, sentSeen := false }
  else if e.kind == 73 then
    let s := { s with fwd := s.fwd + 1 }
    if !s.open16 then fail s "gc:forward-weak" s!"event {e.seq}: forward_weak_refs before the VMRefForwarding bucket opened"
    else if s.q12 != 0 || s.r12 != 0 then fail s "gc:forward-weak" s!"event {e.seq}: forward_weak_refs while CalculateForwarding packets are queued ({s.q12}) / running ({s.r12})"
    else s
  else s

def evLe (x y : Ev) : Bool := decide (x.seq ≤ y.seq)

/-- replay one drained log -/
def replay (weakTys : List Nat) (toks : List String) : Option ES :=
  match toks.mapM parseEv with
  | none => none
  | some evs => some ((evs.mergeSort evLe).foldl (one weakTys) {})

end Driver.GCWeak.Events
