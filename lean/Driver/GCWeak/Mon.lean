import MmtkModel.Model.WeakMon
import MmtkModel.Model.SATB
import MmtkModel.Model.IntPtr
import Driver.GCMon.Monitor
import Driver.GCWeak.Events
import Std.Data.HashSet
/-!
# `gcw`: the snapshot monitor `gcm` extended with the models of package gcweak

Same protocol as `gcm` (GCRUN.md): `gcw reset`, `gcw mode satb|emergency`, `gcw op <hx_gc op>`, `gcw res <hx_gc result>`; one answer
per line, `ok` or `viol <key> <detail>`. Every pair is first given to `Driver.GCMon.pair` (shadow heap, C01–C04
verdicts); when that is `ok` the extensions below speak. At every pause (a result whose `gcs=` changed; several
pauses in one op = a failing allocation, see `ext`) the reference / finalizable pipeline `Mmtk.WeakMon.gcStages` and
the ephemeron rounds `ephRounds` run on the shadow heap as it was before the op; they give the survivor set `alive`.

| key | property | clause |
|---|---|---|
| `gc:unlogged-mismatch` | C05 | `unlogged <id>` ≠ `Mmtk.Gen.apply`'s `unlogged` |
| `gc:referent-mismatch` | C06 | `referent <id>` / field 0 of a registered reference object in a snapshot ≠ the model's referent |
| `gc:enqueued-mismatch` | C06 | `enqueued` ≠ (as multisets) what `scanRefs` enqueued since the last call |
| `gc:getfin-mismatch` `gc:getallfin-mismatch` | C06 | `getfin` / `getallfin` ≠ `FinState.pop` / candidates ∪ ready |
| `gc:enum-dup` `gc:enum-missing` `gc:enum-extra` | C07 | `enum` lists an id twice / misses a valid object / (after a full-heap GC) lists a reclaimed one |
| `gc:ismo-missing` `gc:ismo-stale` | C06 C07 C08 | `ismo a`: a valid object at `a` is not recognised / an answer where no valid object is |
| `gc:findint-mismatch` | C08 | `findint p n` ≠ `Mmtk.IntPtr.findFromInternal` on the valid-object set (`spaces`, `ismapped` feed the SFT / chunk map) |
| `gc:findint-crash` | C08 | the process died inside a `findint` (result `crash:rc=N`) |
| `gc:satb-lost` `gc:satb-protocol` | C12 | after FinalMark (`satb initial` / `satb final` markers of the runner) an object of the InitialMark snapshot / allocated during marking is not a valid object |
| `gc:weak-not-drained` `gc:weak-sentinel` `gc:weak-rounds` `gc:weak-next-bucket` `gc:forward-weak` | C13 | `events`: the log is not a run of `Mmtk.WeakRounds` (Driver/GCWeak/Events.lean), wrong answers, forward_weak_refs misplaced |
| `gc:ephdump-mismatch` | C13 | `ephdump` ≠ the ephemeron table the model keeps |
-/
namespace Driver.GCWeak
open Driver Driver.GCMon Mmtk.Heap Mmtk.WeakMon

structure St where
  g : Driver.GCMon.St := {}
  pending : List String := []
  generational : Bool := false
  concurrent : Bool := false
  /-- C05: the executable remembered-set model, driven by `Mmtk.Gen.apply` -/
  gen : Mmtk.Gen.Heap := genEmpty
  /-- C06 -/
  w : WState := {}
  /-- survivors of the last pause (marked set incl. resurrected objects) -/
  alive : Array Bool := #[]
  /-- number of objects when the last pause happened (younger ids were allocated since) -/
  bornBefore : Nat := 0
  /-- the next `gc` is announced as an emergency collection (`gcw mode emergency`) -/
  emergency : Bool := false
  /-- C12: concurrent marking is in progress; `satbSet` = reach(shadow) at InitialMark, ids ≥ `satbFrom` were
  allocated during marking -/
  marking : Bool := false
  /-- `gcw mode satb`: pauses are InitialMark / FinalMark pauses of a concurrent cycle (C12), not full collections -/
  satb : Bool := false
  satbSet : Array Bool := #[]
  satbFrom : Nat := 0
  /-- ids that must be valid objects after FinalMark (filled at FinalMark, checked by `ismo` / `islive`) -/
  mustLive : Array Bool := #[]
  /-- reach(shadow) and number of objects at the last pause (satb mode) -/
  pauseReach : Array Bool := #[]
  pauseObjs : Nat := 0
  /-- C07: the last pause was a full-heap collection (the VO bits are exactly the survivors + later allocations);
  after a nursery collection dead mature objects may keep their bit -/
  voExact : Bool := true
  /-- ids of the last snapshot taken since the last pause (their `lastRef` is current) -/
  inSnap : Array Bool := #[]
  /-- C08: SFT index (address >> 41) → space name, from `spaces`; 4 MB chunk number → mapped, from `ismapped` -/
  spaceTab : List (Nat × String) := []
  mappedTab : List (Nat × Bool) := []
  /-- C13: VerifVM's ephemeron table (key id, value id), entries dropped so far, the type hash of the
  `VMProcessWeakRefs` packet (from `ptypes`), the answers the last pause must have given, `needs_forward_after_liveness` -/
  eph : List (Nat × Nat) := []
  ephDropped : List (Nat × Nat) := []
  weakTys : List Nat := []
  expectRets : Option (List Bool) := none
  fwdAfter : Bool := false

def sortNat (l : List Nat) : List Nat := l.mergeSort (fun a b => decide (a ≤ b))

def showIds (l : List Nat) : String := ",".intercalate (l.map toString)

def parseIds (s : String) : Option (List Nat) :=
  if s.isEmpty then some [] else (s.splitOn ",").mapM (·.toNat?)

def immortalOf (g : Driver.GCMon.St) : Id → Bool := fun i => neverDies g i

def rootIdsOf (h : Heap) : List Id := h.rootIds

/-- ids `< n` whose bit is set -/
def idsOf (a : Array Bool) : List Nat := (List.range a.size).filter fun i => a.getD i false

/-- C05: was the object allocated into the nursery (young, unlog bit clear: the plan's nursery / the Immix space of
StickyImmix / the logical nursery of the LOS) or born mature (unlog bit set: `unlog_allocated_object`, immortal
spaces)? -/
def bornYoung (space : String) : Bool :=
  let s := stripDigits space
  s == "nursery" || s == "immix" || s == "copyspace" || s == "los"

/-- One pause seen by the extensions: `h` = shadow heap at the pause, `nursery` = a non-exhaustive user GC of
a generational plan. Returns the new state (shadow referents cleared, tables, survivors). -/
def onPause (st : St) (h : Heap) (nursery : Bool) : St :=
  let olds := if nursery then (idsOf st.alive) ++ ((List.range h.objs.size).filter fun i => decide (st.bornBefore ≤ i) && immortalOf st.g i) else []
  let o := gcStages { heap := h, seeds := rootIdsOf h ++ olds, immortal := immortalOf st.g, emergency := st.emergency } st.w
  -- the collector cleared these referent fields
  let heap' := o.cleared.foldl (fun hp r => (applyOp hp (.write r 0 none)).getD hp) st.g.heap
  -- VMRefClosure: the binding's ephemeron table, on top of what the reference / finalizable processors kept
  let eo := ephRounds h (immortalOf st.g) o.marked st.eph
  let aliveNow := (Array.range h.objs.size).map (liveOf eo.marked (immortalOf st.g) h.objs.size)
  let surv : Nat → Bool := fun x => aliveNow.getD x false
  { st with g := { st.g with heap := heap' }, w := o.w, alive := aliveNow, bornBefore := h.objs.size, emergency := false,
            gen := promote st.gen surv, voExact := !nursery, inSnap := #[],
            eph := eo.table, ephDropped := st.ephDropped ++ eo.dropped, expectRets := some eo.rets }

/-- C07: the object with this id is a valid object now: allocated (not a tombstone) and never collected, allocated
since the last pause, or a survivor of the last pause -/
def expAlive (st : St) (i : Id) : Bool :=
  st.g.lastRef.getD i 0 != 0 && (neverDies st.g i || decide (st.bornBefore ≤ i) || st.alive.getD i false)

/-- the monitor knows where the object is now -/
def refKnown (st : St) (i : Id) : Bool :=
  decide (st.bornBefore ≤ i) || st.inSnap.getD i false || fixedObj st.g i

/-- valid objects whose current address the monitor does not know (kept alive without being reachable, in a
moving space): while there are some, "no valid object at this address" cannot be asserted -/
def hasFloaters (st : St) : Bool :=
  (List.range st.g.heap.objs.size).any fun i => expAlive st i && !refKnown st i

/-- the valid object whose reference is `a` -/
def validAt (st : St) (a : Nat) : Option Id :=
  if a == 0 then none else
  (List.range st.g.lastRef.size).find? fun i => st.g.lastRef.getD i 0 == a && expAlive st i && refKnown st i

def parseEnum (s : String) : Option (List (Nat × Nat)) :=
  if s.isEmpty then some [] else
  (s.splitOn ",").mapM fun e => match e.splitOn ":" with
    | [i, r] => match i.toNat?, parseHex? r with
      | some i, some r => some (i, r)
      | _, _ => none
    | _ => none

/-- C08: what `SFT_MAP.get_checked(addr)` is for this address (Map64: one SFT per 2^41-byte slot) -/
def spaceKind (st : St) (a : Nat) : Mmtk.IntPtr.Space :=
  match st.spaceTab.lookup (a >>> 41) with
  | none => .empty
  | some name =>
    let nm := stripDigits name
    if nm == "los" || nm == "pageprotect" then .los                            -- LargeObjectSpace
    else if nm == "immix" || nm == "nonmoving" || nm == "immix_mature" then .generic (some 16384)      -- MAX_IMMIX_OBJECT_SIZE = Block::BYTES / 2
    else if nm == "ms" then .generic (some 65536)                             -- native_ms MAX_OBJECT_SIZE = MI_LARGE_OBJ_SIZE_MAX
    else .generic none

/-- the monitor's view of memory as an `Mmtk.IntPtr.Env`: VO bits = references of the valid objects -/
def envOf (st : St) : Mmtk.IntPtr.Env :=
  let ids := (List.range st.g.lastRef.size).filter fun i => expAlive st i && refKnown st i
  let refs : Std.HashSet Nat := ids.foldl (fun s i => s.insert (st.g.lastRef.getD i 0)) {}
  let sizes : List (Nat × Nat) := ids.map fun i => (st.g.lastRef.getD i 0, (st.g.heap.objs[i]?.map (·.size)).getD 0)
  { vo := fun a => refs.contains a
    mapped := fun a => (st.mappedTab.lookup (a / 4194304)).getD false
    voMapped := fun _ => true
    gran := 4194304
    refOff := st.g.refoff
    size := fun a => (sizes.lookup a).getD 0 }

def parseSpaces (s : String) : List (Nat × String) :=
  (s.splitOn ",").filterMap fun e => match e.splitOn ":" with
    | name :: start :: _ => (parseHex? start).map fun a => (a >>> 41, name)
    | _ => none

def boolStr? (s : String) : Option Bool := if s == "true" then some true else if s == "false" then some false else none

/-- extension verdict for one (op, result) pair; `pre` = monitor state before the pair, `st.g` = after it -/
def ext (st : St) (pre : Driver.GCMon.St) (op res : List String) : St × String :=
  let paused := st.g.gcs != pre.gcs
  -- 1. a pause happened while this op ran: the collection saw the heap as it was before the op
  let st := if paused && !st.satb then
      -- several pauses inside one op = an allocation that kept failing: the first collection is an ordinary one
      -- (a nursery collection on a generational plan unless the user asked for an exhaustive one); the second is a
      -- full-heap one and — `GlobalState::set_collection_kind`: attempts > 1 after an exhaustive collection — an
      -- emergency collection unless the first was a nursery collection; all later ones are emergency collections
      let nursery := st.generational && (match op with | ["gc", _, "1"] => false | _ => true)
      (List.range (st.g.gcs - pre.gcs)).foldl (fun st i =>
        if i == 0 then onPause st pre.heap nursery
        else onPause { st with emergency := i ≥ 2 || !nursery } pre.heap false) st
    else if paused && op.head? != some "snap" then
      -- C12: remember what was reachable when the pause happened; a pause outside a marking cycle owes nothing
      { st with pauseReach := reach pre.heap, pauseObjs := pre.heap.objs.size,
                mustLive := if st.marking then st.mustLive else #[] }
    else st
  -- re-apply the op's own shadow effect on top of the cleared referents (alloc / write happen after the pause)
  match op with
  | "constraints" :: _ =>
    ({ st with generational := (kvNum res "generational").getD 0 == 1, concurrent := (kvNum res "concurrent").getD 0 == 1,
               fwdAfter := (kvNum res "fwdafterliveness").getD 0 == 1 }, "ok")
  | "alloc" :: _ :: id :: _ =>
    match num? id, kvGet res "space" with
    | some id, some space =>
      let op' := if bornYoung space then Mmtk.Gen.Op.allocYoung id else Mmtk.Gen.Op.allocOld id
      ({ st with gen := Mmtk.Gen.apply st.gen op' }, "ok")
    | _, _ => (st, "ok")
  | ["write", _, src, f, v] =>
    match num? src, num? f, idOrNull? v with
    | some src, some f, some v =>
      if res.head? == some "ok" then ({ st with gen := Mmtk.Gen.apply st.gen (.write src f v) }, "ok") else (st, "ok")
    | _, _, _ => (st, "ok")
  | ["copyrange", _, s, sf, d, df, n] =>
    match nums? [s, sf, d, df, n] with
    | some [s, sf, d, df, n] =>
      if res.head? == some "ok" then
        let sfields := (pre.heap.objs[s]?.map (·.fields)).getD []
        ({ st with gen := Mmtk.Gen.apply st.gen (.copyRange d df (df + n) (copyVals sfields sf df)) }, "ok")
      else (st, "ok")
    | _ => (st, "ok")
  | ["unlogged", i] =>
    match num? i, res.head?.bind boolStr? with
    | some i, some b =>
      if st.generational && b != st.gen.unlogged i then
        (st, viol "gc:unlogged-mismatch" s!"id={i} is_unlogged={b} model={st.gen.unlogged i} young={st.gen.young i} inModbuf={st.gen.modbuf.contains i}")
      else (st, "ok")
    | _, _ => (st, "ok")
  | ["addref", _, i, kind] =>
    match num? i with
    | some i =>
      if res.head? != some "ok" then (st, "ok") else
      let w := st.w
      let w := if kind == "soft" then { w with soft := addCandidate w.soft i }
        else if kind == "weak" then { w with weak := addCandidate w.weak i }
        else { w with phantom := addCandidate w.phantom i }
      ({ st with w := w }, "ok")
    | none => (st, "ok")
  | ["addfin", _, i] =>
    match num? i with
    | some i => if res.head? == some "ok" then ({ st with w := { st.w with fin := st.w.fin.add i } }, "ok") else (st, "ok")
    | none => (st, "ok")
  | "getfin" :: slotArgs =>
    let (f', r) := st.w.fin.pop
    let want := match r with | some (_, o) => toString o | none => "none"
    let st := { st with w := { st.w with fin := f' } }
    if res != [want] then (st, viol "gc:getfin-mismatch" s!"get_finalized_object answered {" ".intercalate res}, model {want} (ready={showIds (st.w.fin.ready.map (·.2))} candidates={showIds (st.w.fin.candidates.map (·.2))})")
    else
      match r, slotArgs with
      | some (_, o), [m, sl] =>
        match num? m, num? sl with
        | some m, some sl =>
          let h := (applyOp st.g.heap (.root (mutKey m sl) (some o))).getD st.g.heap
          ({ st with g := { st.g with heap := h } }, "ok")
        | _, _ => (st, "ok")
      | _, _ => (st, "ok")
  | ["getallfin"] =>
    let (f', all) := finTakeAll st.w.fin
    let want := sortNat (all.map (·.2))
    let st := { st with w := { st.w with fin := f' } }
    match res with
    | "fin" :: rest =>
      match parseIds (rest.headD "") with
      | some got => if sortNat got == want then (st, "ok") else (st, viol "gc:getallfin-mismatch" s!"got={showIds got} model={showIds want}")
      | none => (st, viol "prog:parse" "getallfin")
    | _ => (st, viol "prog:parse" "getallfin")
  | ["enqueued"] =>
    let want := sortNat st.w.enq
    let st := { st with w := { st.w with enq := [] } }
    match res with
    | "enq" :: rest =>
      match parseIds (rest.headD "") with
      | some got => if sortNat got == want then (st, "ok") else (st, viol "gc:enqueued-mismatch" s!"enqueue_references got={showIds (sortNat got)} model={showIds want}")
      | none => (st, viol "prog:parse" "enqueued")
    | _ => (st, viol "prog:parse" "enqueued")
  | ["referent", i] =>
    match num? i with
    | some i =>
      let registered := st.w.soft.contains i || st.w.weak.contains i || st.w.phantom.contains i
      let want := referentOf st.g.heap i
      -- an unregistered reference object holds a plain weak pointer: only a null / surviving referent is predictable
      let predictable := registered || (match want with
        | none => true
        | some o => st.alive.getD o false || decide (st.bornBefore ≤ o) || immortalOf st.g o)
      let wantS := match want with | some o => toString o | none => "-"
      if predictable && res != [wantS] then
        (st, viol "gc:referent-mismatch" s!"id={i} referent={" ".intercalate res} model={wantS} registered={registered}")
      else (st, "ok")
    | none => (st, "ok")
  | ["satb", kind] =>
    -- C12: pause kinds as the runner read them from the event log (synthetic pair, not an hx_gc op)
    if kind == "initial" then
      ({ st with marking := true, satbSet := st.pauseReach, satbFrom := st.pauseObjs, mustLive := #[] }, "ok")
    else if kind == "final" then
      if st.marking then
        -- `satb_complete` + `alloc_during_marking_survives`: the snapshot's reachable objects and everything
        -- allocated since InitialMark are marked, hence not reclaimed by this cycle
        let ml := (Array.range st.pauseObjs).map fun i => st.satbSet.getD i false || decide (st.satbFrom ≤ i)
        ({ st with marking := false, mustLive := ml }, "ok")
      else (st, viol "gc:satb-protocol" "FinalMark without a preceding InitialMark")
    else ({ st with marking := false, mustLive := #[] }, "ok")
  | ["ismo", a] =>
    if st.satb then
      match num? a with
      | some a =>
        match st.g.lastRef.findIdx? (· == a) with
        | some i =>
          if a != 0 && st.mustLive.getD i false && res != [toString i] then
            (st, viol "gc:satb-lost" s!"id={i} at {a} was reachable at InitialMark or allocated during marking, after FinalMark is_mmtk_object answers {" ".intercalate res}")
          else (st, "ok")
        | none => (st, "ok")
      | none => (st, "ok")
    else
    -- C07 / C08 (`isMmtkObject_iff`): the answer is the id of the valid object whose reference is `a`, else `none`
    match num? a with
    | some a =>
      if !st.g.vobit || res.head? == some "unsupported" then (st, "ok") else
      match validAt st a with
      | some i =>
        if res != [toString i] then
          (st, viol "gc:ismo-missing" s!"id={i} at {a} is a valid object (reachable, allocated since the pause, kept alive by a finalizer / soft reference, or never collected) but is_mmtk_object answers {" ".intercalate res}")
        else (st, "ok")
      | none =>
        if st.voExact && !hasFloaters st && res != ["none"] && !(res.head?.getD "").startsWith "panic" then
          (st, viol "gc:ismo-stale" s!"no valid object has the reference {a} after the full-heap collection, but is_mmtk_object answers {" ".intercalate res}")
        else (st, "ok")
    | none => (st, "ok")
  | ["ephemeron", k, v] =>
    match num? k, num? v with
    | some k, some v => if res.head? == some "ok" then ({ st with eph := st.eph ++ [(k, v)] }, "ok") else (st, "ok")
    | _, _ => (st, "ok")
  | ["ephdump"] =>
    let sh (l : List (Nat × Nat)) := ",".intercalate (l.map fun e => s!"{e.1}>{e.2}")
    let want := ["eph", s!"live={sh st.eph}", s!"dropped={sh st.ephDropped}"]
    if res != want then (st, viol "gc:ephdump-mismatch" s!"weak table: {" ".intercalate res}, model {" ".intercalate want}")
    else (st, "ok")
  | ["ptypes"] =>
    -- one instance of `VMProcessWeakRefs<T>` per trace type (generational plans: nursery and full-heap)
    let tys := res.filterMap fun t => match t.splitOn "=" with
      | [h, name] => if (name.splitOn "::VMProcessWeakRefs<").length > 1 then parseHex? h else none
      | _ => none
    ({ st with weakTys := tys }, "ok")
  | ["events"] =>
    match res with
    | "ev" :: toks =>
      match Events.replay st.weakTys toks with
      | none => (st, viol "prog:parse" "events")
      | some es =>
        let exp := st.expectRets
        let st := { st with expectRets := none }
        match es.err with
        | some (k, d) => (st, viol k d)
        | none =>
          if !es.open11 then (st, "ok")      -- no collection reached the VMRefClosure stage in this log
          else if st.weakTys.isEmpty then (st, viol "prog:parse" "events before ptypes")
          else if !es.m.done then (st, viol "gc:weak-next-bucket" s!"the log ends before the VMRefClosure stage finished (answers {es.m.rets})")
          else if exp.isSome && exp != some es.m.rets then
            (st, viol "gc:weak-rounds" s!"process_weak_refs answered {es.m.rets}, the ephemeron table needs {exp.getD []}")
          else if es.fwd != (if st.fwdAfter then 1 else 0) then
            (st, viol "gc:forward-weak" s!"forward_weak_refs was called {es.fwd} times, needs_forward_after_liveness={st.fwdAfter}")
          else (st, "ok")
    | _ => (st, "ok")
  | ["spaces"] =>
    match res with
    | ["spaces", body] => ({ st with spaceTab := parseSpaces body }, "ok")
    | _ => (st, "ok")
  | ["ismapped", a] =>
    match num? a, res.head?.bind boolStr? with
    | some a, some b => ({ st with mappedTab := (a / 4194304, b) :: st.mappedTab.filter (·.1 != a / 4194304) }, "ok")
    | _, _ => (st, "ok")
  | ["findint", p, n] =>
    -- C08 (`findFromInternal_spec`, `findLos_spec`): the model evaluated on the monitor's valid-object set
    match num? p, num? n with
    | some p, some n =>
      if !st.g.vobit || res.head? == some "unsupported" || n == 0 || hasFloaters st then (st, "ok") else
      let want := match Mmtk.IntPtr.findFromInternal (spaceKind st p) (envOf st) p n with
        | some a => (match validAt st a with | some i => toString i | none => "?")
        | none => "none"
      if res != [want] then
        (st, viol "gc:findint-mismatch" s!"find_object_from_internal_pointer({p}, {n}) answers {" ".intercalate res}, model {want} (space {reprStr (spaceKind st p)})")
      else (st, "ok")
    | _, _ => (st, "ok")
  | ["enum"] =>
    match res with
    | "enum" :: rest =>
      match parseEnum (rest.headD "") with
      | none => (st, viol "prog:parse" "enum")
      | some es =>
        let ids := es.map (·.1)
        if !strictIncr ids then (st, viol "gc:enum-dup" s!"id={(firstDup ids).getD 0} is enumerated twice")
        else
          let n := st.g.heap.objs.size
          let seen := markIds n ids
          match (List.range n).find? (fun i => expAlive st i && !seen.getD i false) with
          | some i => (st, viol "gc:enum-missing" s!"id={i} is a valid object but enumerate_objects does not visit it")
          | none =>
            match (if st.voExact then ids.find? (fun i => !expAlive st i) else none) with
            | some i => (st, viol "gc:enum-extra" s!"id={i} was reclaimed by the full-heap collection (or never existed) but enumerate_objects still visits it")
            | none => (st, "ok")
    | _ => (st, "ok")
  | _ => (st, "ok")

/-- C06 on a snapshot: field 0 of every registered reference object -/
def snapReferents (st : St) (res : List String) : Option String :=
  match parseSnap res with
  | none => none
  | some s =>
    (s.objs.findSome? fun o =>
      if st.w.soft.contains o.id || st.w.weak.contains o.id || st.w.phantom.contains o.id then
        let want := referentOf st.g.heap o.id
        let got := o.fields.headD .bad
        if valOk want got then none
        else some (viol "gc:referent-mismatch" s!"snapshot: id={o.id} field0={reprStr got} model={reprStr want}")
      else none)

def pairW (st : St) (op res : List String) : St × String :=
  -- C08: a lookup is a query that answers for every address and every limit (`findLos_none_of_no_vo`, `findLos_reads_mapped_only`);
  -- a process that dies inside it (the runner's `crash:rc=N`) broke the property, it is not a machinery error
  if op.head? == some "findint" && (res.headD "").startsWith "crash:" then
    (st, viol "gc:findint-crash" s!"the process died in find_object_from_internal_pointer({" ".intercalate (op.drop 1)}): {res.headD ""}")
  else
  let pre := st.g
  let (g', o) := Driver.GCMon.pair st.g op res
  let st := { st with g := g' }
  let (st, e) := ext st pre op res
  if o != "ok" then (st, o)
  else if e != "ok" then (st, e)
  else if op.head? == some "snap" then
    let st := match parseSnap res with
      | some sn => { st with inSnap := markIds st.g.heap.objs.size (sn.objs.map (·.id)) }
      | none => st
    match snapReferents st res with
    | some v => (st, v)
    | none => (st, "ok")
  else (st, "ok")

def step (st : St) (args : List String) : St × String :=
  match args with
  | ["reset"] => ({}, "ok")
  | ["mode", "emergency"] => ({ st with emergency := true }, "ok")
  | ["mode", "satb"] => ({ st with satb := true }, "ok")
  | "op" :: toks => if toks.isEmpty then (st, viol "prog:parse" "empty op") else ({ st with pending := toks }, "ok")
  | "res" :: toks =>
    if st.pending.isEmpty then (st, viol "prog:no-op" "result without an op")
    else
      let (st', o) := pairW st st.pending toks
      ({ st' with pending := [] }, o)
  | _ => (st, "bad-op")

end Driver.GCWeak
