import Driver.Util
import MmtkModel.Model.Requesters
/-!
# `reqm`: event-log conformance monitor for the requester protocol (`Model/Requesters.lean`, C11)

Replays the requester-side events of an `hx_gc` log against `Mmtk.Req.step` with the CODE configuration
(`seeded := false`, `handshake := true`).  A requester = a mutator THREAD (event-log tid: driver 0, `gc2`/`gcn`
helper of mutator m: 10 + m).

* `VmMisc(4, m)` — the thread enters `handle_user_collection_request` as mutator m (`again` if it has been
  there before); `GcRequest` on a thread inside such a call = `request`; on any other thread = `pollRequest`
  (an allocation poll; those threads' own blocking is not tracked here);
* `VmBlockEnter` / `VmBlockLeave` on a thread inside a call = `blockEnter` / `blockLeave`;
* `VmMisc(5, 2m + ret)` — the call returned `ret`: the requester must have reached `returned ret` (a call that made
  no request at all must return `false`); a requester that made a request and comes back without having
  blocked is not a run of the code model: `gc:requester-not-blocked`;
* `VmStopEnd` = `stopWorld` (every requester parked), `GcClearRequest` = `clearFlag`, `VmResume` = `resumeWorld`.
-/
namespace Driver.Sched.ReqMon
open Mmtk.Req

structure RM where
  c : Cfg := { n := 100 }
  s : State := init
  inCall : List Nat := []            -- tids inside a user-GC call
  failed : Option String := none
  nEv : Nat := 0
  nCalls : Nat := 0
  nMerged : Nat := 0                 -- requests that found the flag set
  nBlocked : Nat := 0                -- calls that returned through block_for_gc
  nNoReq : Nat := 0                  -- calls that made no request and returned false
  nPoll : Nat := 0
  nPauses : Nat := 0
  maxInFlight : Nat := 0             -- most requesters simultaneously between request and return

def fail (m : RM) (key what : String) : RM :=
  match m.failed with
  | some _ => m
  | none => { m with failed := some (key ++ " " ++ what) }

/-- re-tabulate `pc` (keeps look-ups shallow) -/
def normalize (c : Cfg) (s : State) : State :=
  let pcs := (Array.range c.n).map s.pc
  { s with pc := fun x => if h : x < pcs.size then pcs[x] else .idle }

def act (m : RM) (a : Act) (key what : String) : RM :=
  if m.failed.isSome then m else
  match step m.c m.s a with
  | some s' => { m with s := normalize m.c s' }
  | none => fail m key what

def inFlight (m : RM) : Nat :=
  ((List.range m.c.n).filter fun r => match m.s.pc r with | .requested .. | .blocked .. => true | _ => false).length

def pcStr : Pc → String
  | .idle => "idle"
  | .requested d st sent => s!"requested(gcDone={d},gcStarted={st},sent={sent})"
  | .blocked d st start => s!"blocked(gcDone={d},gcStarted={st},start={start})"
  | .returned d st ret rd => s!"returned(gcDone={d},gcStarted={st},ret={ret},gcDoneAtReturn={rd})"

def onEvent (m : RM) (tid kind a b : Nat) : RM :=
  if m.failed.isSome then m else
  let m := { m with nEv := m.nEv + 1 }
  let mine := m.inCall.contains tid
  match kind with
  | 84 =>
    if a == 4 then
      if tid ≥ m.c.n then fail m "req:shape" s!"user GC call on thread {tid}" else
      if mine then fail m "req:shape" s!"thread {tid}: nested user GC call" else
      let m := match m.s.pc tid with
        | .returned .. => act m (.again tid) "req:not-enabled" s!"again {tid}"
        | _ => m
      if m.s.pc tid != .idle then fail m "req:shape" s!"thread {tid} enters a user GC call in state {pcStr (m.s.pc tid)}" else
      { m with inCall := tid :: m.inCall, nCalls := m.nCalls + 1 }
    else if a == 5 then
      if !mine then fail m "req:shape" s!"thread {tid}: user GC call returned but never began" else
      let ret := b % 2 == 1
      let m := { m with inCall := m.inCall.erase tid }
      match m.s.pc tid with
      | .idle =>
        -- no request was made (plan does not collect / request ignored): must say so
        if ret then fail m "req:shape" s!"mutator {b / 2}: handle_user_collection_request returned true without making a request"
        else { m with nNoReq := m.nNoReq + 1 }
      | .returned _ _ r _ =>
        if r == ret then { m with nBlocked := m.nBlocked + 1 }
        else fail m "req:shape" s!"mutator {b / 2}: the call returned {ret}, the model says {r}"
      | .requested d st sent =>
        -- only the seeded variant can get here: `skipBlock` is not an action of the code
        let m1 := act m (.skipBlock tid) "gc:requester-not-blocked"
          s!"mutator {b / 2} (thread {tid}) made a GC request (sent={sent}, {st} pauses begun, {d} completed) and its call returned {ret} without block_for_gc: not a run of the code model ({m.s.gcDone} pauses completed now)"
        m1
      | .blocked .. => fail m "gc:requester-not-blocked" s!"mutator {b / 2} (thread {tid}): the call returned while the model has it inside block_for_gc"
    else m
  | 1 =>
    if mine then
      let merged := m.s.flag
      let m := act m (.request tid) "req:not-enabled" s!"request by thread {tid} in state {pcStr (m.s.pc tid)} stopped={m.s.stopped}"
      let m := if merged then { m with nMerged := m.nMerged + 1 } else m
      { m with maxInFlight := max m.maxInFlight (inFlight m) }
    else act { m with nPoll := m.nPoll + 1 } .pollRequest "req:not-enabled" "pollRequest"
  | 69 =>
    if mine then act m (.blockEnter tid) "req:not-enabled" s!"blockEnter by thread {tid} in state {pcStr (m.s.pc tid)} stopped={m.s.stopped}" else m
  | 70 =>
    if mine then act m (.blockLeave tid) "gc:unblocked-before-resume"
      s!"thread {tid} left block_for_gc in state {pcStr (m.s.pc tid)} with gcDone={m.s.gcDone} stopped={m.s.stopped}" else m
  | 65 =>
    let bad := (List.range m.c.n).filter fun r => !(m.s.pc r).atSafepoint
    act { m with nPauses := m.nPauses + 1 } .stopWorld "gc:stop-with-running-requester"
      s!"stop_all_mutators returned (stopped={m.s.stopped}) while threads {bad} are between request() and block_for_gc"
  | 2 => act m .clearFlag "req:not-enabled" "clear_request while the world is not stopped"
  | 68 => act m .resumeWorld "req:not-enabled" "resume_mutators while the world is not stopped"
  | _ => m

def processTok (m : RM) (tok : String) : RM :=
  match (tok.splitOn ":").map String.toNat? with
  | [some _, some tid, some kind, some a, some b] => onEvent m tid kind a b
  | _ => fail m "req:parse" tok

def summary (m : RM) : String :=
  s!"events={m.nEv} calls={m.nCalls} merged={m.nMerged} blockedreturns={m.nBlocked} norequest={m.nNoReq} polls={m.nPoll} " ++
  s!"pauses={m.nPauses} gcdone={m.s.gcDone} maxinflight={m.maxInFlight}"

/-- `reqm <op> …` -/
def step (m : RM) (args : List String) : RM × String :=
  match args with
  | ["new"] => ({}, "ok")
  | "ev" :: toks =>
    let m' := toks.foldl processTok m
    match m'.failed with
    | some f => (m', "viol " ++ f ++ s!" @event {m'.nEv}")
    | none => (m', s!"ok {m'.nEv}")
  | ["end"] =>
    match m.failed with
    | some f => (m, "viol " ++ f)
    | none => (m, "ok " ++ summary m)
  | _ => (m, "bad-op")

end Driver.Sched.ReqMon
