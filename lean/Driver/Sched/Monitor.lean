import Driver.Util
import MmtkModel.Model.Sched
import MmtkModel.Generated.Stages
/-!
# `schedm`: event-log conformance monitor for the scheduler model

Replays the `events` output of `hx_gc` (`cfg events 1`): every event must be (part of) an enabled
action of `Mmtk.Sched.step` from the state reached so far.

* Everything done under the `WorkerMonitor` mutex is one model action, applied at the first event of
  the group (`MonPark`, `MonWake`, `MonMakeRequest`); the remaining events of the group (`LastParkedEnter`,
  `BucketSchedSentinel`, `BucketOpen`, …, `MonLastParked`, `MonNotify`, `MonWait`/`MonUnpark`, `MonExit`)
  must be exactly what the model predicts (`State.trace` + the result).
* Unlogged actions are inferred: `observeEmpty` is applied eagerly for every polling worker whenever
  it is enabled; `pollMiss` at `MonPark`; `spurious` at a `MonWake` of a worker no notify was attributed to.
* Logging skew: producer events are logged before, consumer events after the operation, so a packet may
  be invisible to a real poll although the log already / still shows it.  The front end
  (`checks/sched_common.py`) brackets those windows with the pseudo events `Solid`/`Unsolid`; `observeEmpty`
  ignores packets that are not solid.  Every other guard is checked exactly.
* The front end also attributes each `notify_one` to the worker whose `MonWake` it explains (operand
  `b` of `MonNotify`/`MonRequested`) and resolves which packets a `steal_batch_and_pop` moved
  (pseudo event `BatchMove`); both choices are *checked* here (guards of `notifyOne`, `batchMove`).
* Events of OTHER threads that are logged while a group is in progress (mutators are resumed in the
  middle of the last parker's group, and run during every group of ConcurrentImmix's concurrent phase)
  are applied after the whole group — the order justified in the header of `Model/Sched.lean`.  In
  particular the `notify_all` of a WakeAll group has already happened when such an event is replayed: a
  mutator's `notify_one` logged between `VmResume` and the group's `MonNotify(1)` must be attributed to
  nobody (every waiter is `woken`); the front end attributes accordingly, `notifyOne` checks it.

At the end of every GC (`goalCompleted gc`) the model state must be quiescent.
-/
namespace Driver.Sched
open Mmtk.Sched

/-- what the monitor expects next on a worker's thread (rest of a mutex-protected group) -/
inductive Exp
  | lastParkedEnter (cur : Nat)
  | sub (e : SubEv)
  | lastParked (r : Nat)
  | notifyAll
  | wait
  | unpark
  | exit (g : Nat)
  | allExited (g : Nat)
  | goalCompletedExit (g : Nat)
deriving Repr

structure GcStat where
  scans : List Nat := []          -- mutators scanned in the current GC
  weakCalls : Nat := 0
  lastWeak : Nat := 0
  fwdCalls : Nat := 0

structure M where
  c : Cfg := Mmtk.Generated.Stages.cfg 1
  s : State := init (Mmtk.Generated.Stages.cfg 1)
  exp : List (Nat × List Exp) := []           -- per worker: rest of the current group
  soft : List Nat := []                        -- ids of packets inside a logging-skew window
  softOpen : List Nat := []                    -- buckets whose `open` store may not have happened yet (logged before)
  lastPush : List (Nat × Nat) := []            -- per tid: stage of the last BqPush / kind of last producer op
  credit : List (Nat × Nat × Nat) := []        -- per worker: (stage, packets a batch may still move)
  pendReq : Option (Nat × Nat) := none         -- MonMakeRequest seen (tid, goal), waiting for MonRequested
  needsFwd : Bool := false
  failed : Option String := none
  gc : GcStat := {}
  -- statistics
  nEv : Nat := 0
  nPark : Nat := 0
  nLast : Nat := 0
  nOpen : Nat := 0
  nSteal : Nat := 0
  nBatch : Nat := 0
  nBatchOver : Nat := 0
  nSpur : Nat := 0
  nMiss : Nat := 0
  nGc : Nat := 0
  nExit : Nat := 0
  nSent : Nat := 0
  maxQ : Nat := 0

def goalOfNat : Nat → Option Goal
  | 0 => some .gc
  | 1 => some .shutdown
  | 2 => some .stopForFork
  | _ => none

def natOfGoal : Goal → Nat
  | .gc => 0
  | .shutdown => 1
  | .stopForFork => 2

def natOfCur : Option Goal → Nat
  | none => 255
  | some g => natOfGoal g

/-- packet key: address and type hash (the stage byte of `tag` is dropped: `PacketStart` logs 0xff) -/
def keyOf (pid tag : Nat) : Nat := pid * 4294967296 + (tag / 256) % 4294967296
def stageOf (tag : Nat) : Nat := tag % 256

def findKey (l : List Pkt) (key : Nat) : Option Pkt := l.find? (fun p => p.tag == key)

/-- re-tabulate the function-valued fields (keeps look-ups O(1) deep) -/
def normalize (c : Cfg) (s : State) : State :=
  let pcs := (Array.range c.n).map s.pc
  let bufs := (Array.range c.n).map s.buf
  let des := (Array.range c.n).map s.desig
  let bks := (Array.range c.L).map s.bkt
  let i := init c
  { s with pc := fun x => if h : x < pcs.size then pcs[x] else i.pc x,
           buf := fun x => if h : x < bufs.size then bufs[x] else i.buf x,
           desig := fun x => if h : x < des.size then des[x] else i.desig x,
           bkt := fun x => if h : x < bks.size then bks[x] else i.bkt x }

def fail (m : M) (key what : String) : M :=
  match m.failed with
  | some _ => m
  | none => { m with failed := some (key ++ " " ++ what) }

def getExp (m : M) (w : Nat) : List Exp := (m.exp.find? (·.1 == w)).map (·.2) |>.getD []
def setExp (m : M) (w : Nat) (l : List Exp) : M := { m with exp := (w, l) :: m.exp.filter (·.1 != w) }

/-- apply a model action; failure = not enabled -/
def act (m : M) (a : Act) (what : String) : M :=
  if m.failed.isSome then m else
  match step m.c m.s a with
  | some s' =>
    let soft := match a with
      | .pollBucket _ _ p | .popLocal _ p | .popDesig _ p | .steal _ _ p => m.soft.erase p.id
      | _ => m.soft
    { m with s := s', soft := soft }
  | none => fail m "sched:not-enabled" what

def softAll (m : M) (l : List Pkt) : Bool := l.all fun p => m.soft.contains p.id

/-- `looksEmpty` up to logging skew -/
def mayLookEmpty (m : M) (w : Nat) : Cont → Bool
  | .bucket b => !((m.s.bkt b).enabled && (m.s.bkt b).isOpen) || m.softOpen.contains b || softAll m (m.s.bkt b).q
  | .buf x => softAll m (m.s.buf x)
  | .desig => softAll m (m.s.desig w)

/-- eager `observeEmpty` for every polling worker -/
def observeAll (m : M) : M :=
  if m.failed.isSome then m else
  let conts := allConts m.c
  let s' := (List.range m.c.n).foldl (fun (s : State) w =>
    match s.pc w with
    | .polling seen =>
      let add := conts.filter fun k => !seen.contains k && mayLookEmpty { m with s := s } w k
      if add.isEmpty then s else setPc s w (.polling (add ++ seen))
    | _ => s) m.s
  { m with s := s' }

def pcName : PC → String
  | .polling _ => "polling"
  | .exec _ => "exec"
  | .parking => "parking"
  | .waiting => "waiting"
  | .woken => "woken"
  | .exited => "exited"
  | .surrendered => "surrendered"

/-- diagnostic for a refused notify: the guards of `bucketNotifyOne` / `mutNotifyOne` / `notifyOne` -/
def notifyCtx (m : M) (bk : Nat) (x : Option Nat) : String :=
  let pcs := (List.range m.c.n).map fun w => pcName (m.s.pc w)
  s!"target {repr x} (model: bucket open={(m.s.bkt bk).isOpen} enabled={(m.s.bkt bk).enabled}, workers {pcs}, " ++
  s!"parked={m.s.parked}, current={natOfCur m.s.current})"

def isWorkerTid (m : M) (tid : Nat) : Option Nat :=
  if 100 ≤ tid ∧ tid < 100 + m.c.n then some (tid - 100) else none

def expToString : Exp → String
  | .lastParkedEnter c => s!"LastParkedEnter({c})"
  | .sub e => s!"{repr e}"
  | .lastParked r => s!"MonLastParked({r})"
  | .notifyAll => "MonNotify(1)"
  | .wait => "MonWait"
  | .unpark => "MonUnpark"
  | .exit g => s!"MonExit({g})"
  | .allExited g => s!"MonAllExited({g})"
  | .goalCompletedExit g => s!"GoalCompleted({g})"

def quiescent (m : M) : Option String :=
  let c := m.c; let s := m.s
  if (List.range c.L).any (fun b => (c.info b).isStw && ((s.bkt b).isOpen || !(s.bkt b).q.isEmpty)) then
    some "a stop-the-world bucket is open or non-empty at the end of the GC"
  else if (List.range c.n).any (fun w => !(s.buf w).isEmpty || !(s.desig w).isEmpty) then
    some "a local buffer or designated queue is non-empty at the end of the GC"
  else if (List.range c.n).any (fun w => (s.pc w).isExec) then some "a packet is running at the end of the GC"
  else if s.started != s.ended then some "started ≠ ended at the end of the GC"
  else if s.stopped then some "mutators not resumed"
  else none

/-- consume the expected event `got` on worker `w`'s thread -/
def expectOn (m : M) (w : Nat) (matches_ : Exp → Bool) (got : String) : M :=
  match getExp m w with
  | e :: rest => if matches_ e then setExp m w rest else fail m "sched:shape" s!"worker {w}: got {got}, model expects {expToString e}"
  | [] => fail m "sched:shape" s!"worker {w}: unexpected {got} (no mutex-protected group in progress)"

def lprNat : LPR → Nat
  | .parkSelf => 0
  | .wakeSelf => 1
  | .wakeAll => 2

/-- `MonPark(w, all)`: infer `pollMiss`, apply `park`, set up the expected rest of the group -/
def onMonPark (m : M) (w all : Nat) : M :=
  let m := match m.s.pc w with
    | .polling seen =>
      let missing := (allConts m.c).filter (fun k => !seen.contains k)
      if missing.isEmpty then act { m with nMiss := m.nMiss + 1 } (.pollMiss w) s!"pollMiss {w}"
      else fail m "sched:park-with-work" s!"worker {w} parks although it cannot have seen {repr missing} empty"
    | _ => fail m "sched:shape" s!"MonPark({w}) but the worker is not polling"
  if m.failed.isSome then m else
  let cur := m.s.current
  let isLast := m.s.parked + 1 == m.c.n
  if isLast != (all == 1) then
    fail m "sched:parked-count" s!"MonPark({w}) all_parked={all} but the model has parked={m.s.parked} of {m.c.n}" else
  let m := act { m with nPark := m.nPark + 1 } (.park w 0) s!"park {w}"
  if m.failed.isSome then m else
  if !isLast then setExp m w [.wait] else
  -- the result is visible in the new program counter / parked count
  let tr := m.s.trace
  let gcDone := tr.any (fun e => e == .goalCompleted .gc)
  let m := if gcDone then
      match quiescent m with
      | some why => fail m "sched:not-quiescent" why
      | none => { m with nGc := m.nGc + 1 }
    else m
  let res : Nat :=
    match m.s.pc w with
    | .waiting => 0
    | _ =>
      -- wakeAll iff some goal started that is an exit goal, or more work was found, or concurrent work
      if tr.any (fun e => match e with | .goalStarted .gc => true | _ => false) then 1 else 2
  let tail : List Exp :=
    if res == 0 then [.wait]
    else (if res == 2 then [.notifyAll] else []) ++ [.unpark] ++
      (match m.s.pc w with | .exited => [.exit (natOfCur m.s.current)] | _ => [])
  let opens := (tr.filter (fun e => match e with | .bucketOpen _ => true | _ => false)).length
  let sents := (tr.filter (fun e => match e with | .schedSentinel _ true => true | _ => false)).length
  setExp { m with nLast := m.nLast + 1, nOpen := m.nOpen + opens, nSent := m.nSent + sents } w
    ([.lastParkedEnter (natOfCur cur)] ++ tr.map .sub ++ [.lastParked res] ++ tail)

def subMatches (kind a b : Nat) (e : Exp) : Bool :=
  match e with
  | .sub (.goalStarted g) => kind == 38 && a == natOfGoal g
  | .sub (.schedSentinel bk took) => kind == 19 && a == bk && (b == 1) == took
  | .sub (.schedSentinels r) => kind == 41 && (a == 1) == r
  | .sub (.bucketOpen bk) => kind == 15 && a == bk
  | .sub (.updateBuckets r u) => kind == 42 && (a == 1) == r && (b == 1) == u
  | .sub .gcFinishedBegin => kind == 30
  | .sub (.bucketClose bk) => kind == 16 && a == bk
  | .sub (.setEnabled bk v) => kind == 17 && a == bk && (b == 1) == v
  | .sub .resume => kind == 68
  | .sub (.goalCompleted g) => kind == 39 && a == natOfGoal g
  | .sub (.push p) => kind == 13 && stageOf b == p.stage
  | .lastParkedEnter c => kind == 37 && a == c
  | .lastParked r => kind == 6 && b == r
  | .notifyAll => kind == 12 && a == 1
  | .wait => kind == 7
  | .unpark => kind == 9
  | .exit g => kind == 10 && b == g
  | .allExited g => kind == 11 && a == g
  | .goalCompletedExit g => kind == 39 && a == g

/-- re-tag a packet of bucket `b` (the model created it inside `park` before its key was known) -/
def retag (m : M) (bk : Nat) (oldTagOk : Pkt → Bool) (key : Nat) : M :=
  let k := m.s.bkt bk
  match k.q.find? oldTagOk with
  | some p => { m with s := setBkt m.s bk { k with q := k.q.map fun x => if x.id == p.id then { x with tag := key } else x } }
  | none => m

def setLastPush (m : M) (tid v : Nat) : M := { m with lastPush := (tid, v) :: m.lastPush.filter (·.1 != tid) }
def getLastPush (m : M) (tid : Nat) : Nat := (m.lastPush.find? (·.1 == tid)).map (·.2) |>.getD 255

def tgt (b : Nat) : Option Nat := if b == 0 then none else some (b - 1)

def allPkts (m : M) : List Pkt :=
  (List.range m.c.L).flatMap (fun b => (m.s.bkt b).q ++ (m.s.bkt b).sentinel.toList) ++
  (List.range m.c.n).flatMap (fun w => m.s.buf w ++ m.s.desig w)

/-- one event -/
def onEvent (m : M) (tid kind a b : Nat) : M :=
  if m.failed.isSome then m else
  let m := { m with nEv := m.nEv + 1 }
  -- `make_request` that newly set a request must call `notify_one` next (same thread, under the mutex)
  if getLastPush m tid == 1000 && kind != 12 && kind < 200 then
    fail m "sched:shape" s!"make_request set a new request but did not notify (next event of thread {tid} is kind {kind})" else
  let wk := isWorkerTid m tid
  -- events inside a mutex-protected group of this worker
  let inGroup := match wk with | some w => !(getExp m w).isEmpty | none => false
  match wk, inGroup with
  | some w, true =>
    if kind == 31 || kind == 32 || kind == 40 || (50 ≤ kind && kind < 64) || kind ≥ 69 then m   -- markers
    else
      let m1 := expectOn m w (subMatches kind a b) s!"kind {kind}({a},{b})"
      if m1.failed.isSome then m1 else
      if kind == 13 then
        -- the sentinel / ScheduleCollection packet the model pushed: give it its key
        let key := keyOf a b
        let m2 := retag m1 (stageOf b) (fun p => p.tag == 0 || p.tag == key) key
        m2
      else m1
  | _, _ =>
  match kind with
  | 1 => -- GcRequest(elided)
    if a == 1 then (if m.s.requestFlag then m else fail m "sched:request-flag" "GcRequest elided although the model's request_flag is clear")
    else act m .requestFlag "requestFlag"
  | 2 => match wk with
    | some w => act m (.clearRequest w) s!"clearRequest {w}"
    | none => fail m "sched:shape" "GcClearRequest outside a worker"
  | 3 => { m with pendReq := some (tid, a) }
  | 4 =>
    match m.pendReq, goalOfNat a with
    | some (t, g0), some g =>
      if t != tid || g0 != a then fail m "sched:shape" "MonRequested does not match MonMakeRequest" else
      let newly := b % 256
      let x := tgt (b / 256)
      let was := requested m.s g
      if was == (newly == 1) then fail m "sched:request" s!"MonRequested newly={newly} but the model has requested={was}" else
      let m := act { m with pendReq := none } (.makeRequest g x) s!"makeRequest {a} target {repr x}"
      if newly == 1 then setLastPush m tid 1000 else m
    | _, _ => fail m "sched:shape" "MonRequested without MonMakeRequest"
  | 5 => match wk with
    | some w => onMonPark m w b
    | none => fail m "sched:shape" "MonPark outside a worker"
  | 8 => match wk with
    | some w =>
      let m := if m.s.pc w == .waiting then act { m with nSpur := m.nSpur + 1 } (.spurious w) s!"spurious {w}" else m
      let m := act m (.wake w) s!"wake {w}"
      setExp m w ([.unpark] ++ (match m.s.pc w with | .exited => [.exit (natOfCur m.s.current)] | _ => []))
    | none => fail m "sched:shape" "MonWake outside a worker"
  | 12 => -- MonNotify outside a group
    let lp := getLastPush m tid
    let m := setLastPush m tid 255
    if lp == 1000 then (if a == 0 then m else fail m "sched:shape" "make_request must notify one") -- part of makeRequest
    else match wk with
      | some w =>
        if lp == 1001 then (if a == 1 then act m (.wakeAll w) s!"wakeAll {w}" else fail m "sched:shape" "notify_mutators_paused must notify all")
        else if lp < 255 then
          (if a == 1 then act m (.bucketNotifyAll w lp) s!"bucketNotifyAll {w} {lp}"
           else act m (.bucketNotifyOne w lp (tgt b)) s!"bucketNotifyOne {w} bucket {lp} {notifyCtx m lp (tgt b)}")
        else fail m "sched:shape" s!"MonNotify({a}) by worker {w} without a preceding push/open"
      | none =>
        if lp < 255 && a == 0 then act m (.mutNotifyOne lp (tgt b)) s!"mutNotifyOne bucket {lp} {notifyCtx m lp (tgt b)}"
        else fail m "sched:shape" s!"MonNotify({a}) by thread {tid} without a preceding push"
  | 13 => -- BqPush
    let key := keyOf a b
    let st := stageOf b
    let m := setLastPush m tid st
    let before := m.s.nextId
    let m := match wk with
      | some w => act m (.push w st key) s!"push by worker {w} to bucket {st}"
      | none => act m (.mutPush st key) s!"mutator push to bucket {st} (open∧enabled = {(m.s.bkt st).isOpen && (m.s.bkt st).enabled})"
    { m with soft := before :: m.soft, maxQ := max m.maxQ ((m.s.bkt st).q.length) }
  | 14 => setLastPush m tid b
  | 15 => match wk with
    | some w => setLastPush (act { m with nOpen := m.nOpen + 1, softOpen := a :: m.softOpen } (.openFirst w a) s!"openFirst {w} bucket {a}") tid 1001
    | none => fail m "sched:shape" "BucketOpen outside a worker"
  | 16 => fail m "sched:shape" s!"BucketClose({a}) outside on_gc_finished"
  | 17 => match wk with
    | some w => act { m with softOpen := if b == 1 then a :: m.softOpen else m.softOpen } (.setEnabled w a (b == 1)) s!"setEnabled {w} {a} {b}"
    | none => act m (.initSetEnabled a (b == 1)) s!"initSetEnabled {a} {b}"
  | 18 => match wk with
    | some w => let before := m.s.nextId
                { act m (.setSentinel w (stageOf b) (keyOf a b)) s!"setSentinel {w} bucket {stageOf b}" with soft := before :: m.soft }
    | none => fail m "sched:shape" "BucketSetSentinel outside a worker"
  | 20 => match wk with
    | some w =>
      let st := stageOf b
      match findKey (m.s.bkt st).q (keyOf a b) with
      | some p => act m (.pollBucket w st p) s!"pollBucket {w} bucket {st}"
      | none => fail m "sched:unknown-packet" s!"BucketPollOk by {w}: packet {a} is not in bucket {st} of the model"
    | none => fail m "sched:shape" "BucketPollOk outside a worker"
  | 44 => match wk with
    | some w =>
      -- credits accumulate: a thief may reveal a packet of an older batch after a newer batch poll
      let old := (m.credit.find? (fun e => e.1 == w && e.2.1 == a)).map (·.2.2) |>.getD 0
      { m with credit := (w, a, old + b) :: m.credit.filter (fun e => !(e.1 == w && e.2.1 == a)) }
    | none => m
  | 200 => -- BatchMove (pseudo): a = pid, b = tag with the stage of the bucket; tid = the polling worker.
    -- The logged batch size is a lower bound and the poller's own `BucketPollOk` may be logged after a
    -- thief's `WorkerSteal` of a batch-moved packet, so the credit is only accounted, not enforced.
    match wk with
    | some w =>
      let st := stageOf b
      let k := (m.credit.find? (fun e => e.1 == w && e.2.1 == st)).map (·.2.2) |>.getD 0
      let m := if k == 0 then { m with nBatchOver := m.nBatchOver + 1 }
               else { m with credit := (w, st, k - 1) :: m.credit.filter (fun e => !(e.1 == w && e.2.1 == st)) }
      match findKey (m.s.bkt st).q (keyOf a b) with
      | some p => act { m with nBatch := m.nBatch + 1 } (.batchMove w st p) s!"batchMove {w} bucket {st}"
      | none => fail m "sched:unknown-packet" s!"batch move by {w}: packet {a} is not in bucket {st}"
    | none => m
  | 21 => match wk with
    | some w => let before := m.s.nextId
                { act m (.pushLocal w (stageOf b) (keyOf a b)) s!"pushLocal {w} bucket {stageOf b}" with soft := before :: m.soft }
    | none => fail m "sched:shape" "WorkerLocalPush outside a worker"
  | 22 => match wk with
    | some w =>
      match findKey (m.s.buf w) (keyOf a b) with
      | some p => act m (.popLocal w p) s!"popLocal {w}"
      | none => fail m "sched:unknown-packet" s!"WorkerLocalPop by {w}: packet {a} is not in its local buffer"
    | none => fail m "sched:shape" "WorkerLocalPop outside a worker"
  | 23 => match wk with
    | some w => let before := m.s.nextId
                { act m (.pushDesig w (b / 1099511627776) (keyOf a (b % 1099511627776))) s!"pushDesig {w}" with soft := before :: m.soft }
    | none => fail m "sched:shape" "DesignatedPush outside a worker"
  | 24 => match wk with
    | some w =>
      match findKey (m.s.desig w) (keyOf a b) with
      | some p => act m (.popDesig w p) s!"popDesig {w}"
      | none => fail m "sched:unknown-packet" s!"DesignatedPop by {w}: not in its designated queue"
    | none => fail m "sched:shape" "DesignatedPop outside a worker"
  | 25 => match wk with
    | some w =>
      let v := b / 1099511627776
      match findKey (m.s.buf v) (keyOf a (b % 1099511627776)) with
      | some p => act { m with nSteal := m.nSteal + 1 } (.steal w v p) s!"steal {w} from {v}"
      | none => fail m "sched:unknown-packet" s!"WorkerSteal by {w}: packet {a} is not in the buffer of {v}"
    | none => fail m "sched:shape" "WorkerSteal outside a worker"
  | 26 => match wk with
    | some w => match m.s.pc w with
      | .exec p => if p.tag == keyOf a b then m else fail m "sched:shape" s!"PacketStart({a}) by {w} but the model runs another packet"
      | _ => fail m "sched:start-without-poll" s!"PacketStart({a}) by {w} without a preceding poll success"
    | none => fail m "sched:shape" "PacketStart outside a worker"
  | 27 => match wk with
    | some w => match m.s.pc w with
      | .exec p => if p.tag == keyOf a b then act m (.execEnd w) s!"execEnd {w}" else fail m "sched:shape" s!"PacketEnd({a}) by {w}: another packet runs"
      | _ => fail m "sched:shape" s!"PacketEnd({a}) by {w} but no packet runs"
    | none => fail m "sched:shape" "PacketEnd outside a worker"
  | 28 => match wk with
    | some w => (match m.s.pc w with | .polling _ => m | _ => fail m "sched:shape" s!"WorkerRun({w}) but the worker is not at its loop head")
    | none => m
  | 29 => match wk with
    | some w => if m.s.pc w == .exited then m else fail m "sched:shape" s!"WorkerLeave({w}) but the worker was not told to exit"
    | none => m
  | 33 => m
  | 34 => match wk with
    | some w =>
      let cur := natOfCur m.s.current
      let m := act m (.surrender w) s!"surrender {w}"
      let allS := m.s.current.isNone && (match m.s.creation with | .surrendered k => k == m.c.n | _ => false)
      if allS != (b == 1) then fail m "sched:surrender" s!"SurrenderDone({w}) all={b} disagrees with the model" else
      if allS then setExp { m with nExit := m.nExit + 1 } w [.allExited cur, .goalCompletedExit cur] else m
    | none => fail m "sched:shape" "SurrenderDone outside a worker"
  | 35 => if a == m.c.n then act m .respawn "respawn" else fail m "sched:shape" "Respawn with a different worker count"
  | 43 => act m .prepareSurrender "prepareSurrender"
  | 64 => match wk with
    | some w => act { m with gc := {} } (.stopAll w) s!"stopAll {w}"
    | none => fail m "sched:shape" "stop_all_mutators outside a worker"
  | 66 => -- VmScanMutator(m): inside a running Prepare-stage packet, mutators stopped, once per mutator
    match wk with
    | some w =>
      -- one root-scanning pass per stage: Prepare for every plan, SecondRoots for the plans that forward
      -- after liveness (MarkCompact); the pass is identified by the stage of the running packet
      let st := match m.s.pc w with | .exec p => if (m.c.info p.stage).isStw then p.stage else 255 | _ => 255
      if st == 255 then fail m "gc:scan-outside-stw-packet" s!"scan_roots_in_mutator_thread({a}) not inside a stop-the-world packet"
      else if !m.s.stopped then fail m "gc:scan-before-stop" s!"mutator {a} scanned while mutators are not stopped"
      else if m.gc.scans.contains (st * 1000 + a) then fail m "gc:scan-twice" s!"mutator {a} scanned twice in stage {st} of one GC"
      else { m with gc := { m.gc with scans := (st * 1000 + a) :: m.gc.scans } }
    | none => fail m "sched:shape" "scan outside a worker"
  | 68 => fail m "gc:resume-outside-gc-end" "resume_mutators outside on_gc_finished"
  | 72 => -- VmProcessWeak(returned, round): closure stages before VMRefClosure drained
    match wk with
    | some w =>
      let vb := Mmtk.Generated.Stages.idxVMRefClosure
      let okRun := match m.s.pc w with | .exec p => p.stage == vb | _ => false
      let drained := (curStages m.c vb).all fun k => !(m.s.bkt k).enabled || ((m.s.bkt k).isOpen && (m.s.bkt k).q.isEmpty)
      let others := (List.range m.c.n).all fun x => x == w || !(match m.s.pc x with | .exec p => (m.c.info p.stage).isStw && p.stage < vb | _ => false)
      if !okRun then fail m "gc:weak-outside-sentinel" "process_weak_refs not inside a VMRefClosure packet"
      else if !drained || !others then fail m "gc:weak-before-closure" "process_weak_refs while an earlier stage is not drained"
      else m
    | none => fail m "sched:shape" "process_weak_refs outside a worker"
  | 204 => { m with softOpen := m.softOpen.erase a }   -- OpenSolid (pseudo): the opener has moved on, the store is done
  | 202 => -- Solid (pseudo): the packet with this key has left its producer-side skew window
    let k := keyOf a b
    match (allPkts m).find? (fun p => p.tag == k && m.soft.contains p.id) with
    | some p => { m with soft := m.soft.erase p.id }
    | none => m
  | 203 => -- Unsolid (pseudo): the packet with this key may already have been taken
    let k := keyOf a b
    match (allPkts m).find? (fun p => p.tag == k && !m.soft.contains p.id) with
    | some p => { m with soft := p.id :: m.soft }
    | none => m
  | _ =>
    if [6, 7, 9, 10, 11, 19, 30, 37, 38, 39, 41, 42].contains kind then
      fail m "sched:shape" s!"event kind {kind}({a},{b}) on thread {tid} outside a mutex-protected group"
    else m

def processTok (m : M) (tok : String) : M :=
  match (tok.splitOn ":").map String.toNat? with
  | [some _, some tid, some kind, some a, some b] => normalizeM (observeAll (onEvent m tid kind a b))
  | _ => fail m "sched:parse" tok
  where normalizeM (m : M) : M := { m with s := normalize m.c m.s }

def summary (m : M) : String :=
  s!"events={m.nEv} gcs={m.nGc} exits={m.nExit} parks={m.nPark} lastparked={m.nLast} opens={m.nOpen} " ++
  s!"sentinels={m.nSent} steals={m.nSteal} batch={m.nBatch} batchover={m.nBatchOver} spurious={m.nSpur} misses={m.nMiss} " ++
  s!"packets={m.s.added} started={m.s.started} ended={m.s.ended} resumes={m.s.resumes} stops={m.s.stops} maxq={m.maxQ}"

/-- `schedm <op> …` -/
def step (m : M) (args : List String) : M × String :=
  match args with
  | ["new", n, mutOpen] =>
    match n.toNat? with
    | some n =>
      let c := Mmtk.Generated.Stages.cfg n (mutOpen == "1")
      ({ c := c, s := normalize c (init c) }, "ok")
    | none => (m, "err bad-args")
  | "ev" :: toks =>
    let m' := toks.foldl processTok m
    match m'.failed with
    | some f => (m', "viol " ++ f ++ s!" @event {m'.nEv}")
    | none => (m', s!"ok {m'.nEv}")
  | ["end"] =>
    match m.failed with
    | some f => (m, "viol " ++ f)
    | none =>
      -- the log is drained while workers may still be inside a mutex-protected group: a group cut
      -- off by the end of the log is not a disagreement
      let pend := m.exp.filter (fun e => !e.2.isEmpty)
      (m, "ok " ++ summary m ++ s!" truncated={pend.length}")
  | _ => (m, "bad-op")

end Driver.Sched
