import Driver.Util
import Driver.Sched.Monitor
import Driver.Sched.Goals
import Driver.Sched.ReqMonitor
/-! package `Sched` (see CONVENTIONS.md): register components in `step`.
`schedm` = the event-log conformance monitor of the scheduler model (`Driver/Sched/Monitor.lean`);
`reqm` = the one of the requester protocol (`Driver/Sched/ReqMonitor.lean`, `Model/Requesters.lean`). -/
namespace Driver.Sched
open Driver

structure St where
  debug : Bool := true
  mon : M := {}
  goals : Goals.St := {}
  req : ReqMon.RM := {}

/-- `none` = not a component of this package. -/
def stepPkg (st : St) (toks : List String) : Option (St × String) :=
  match toks with
  | "schedm" :: args =>
    let (m, o) := step st.mon args
    some ({ st with mon := m }, o)
  | "reqm" :: args =>
    let (m, o) := ReqMon.step st.req args
    some ({ st with req := m }, o)
  | "goals" :: args =>
    let (g, o) := Goals.step st.goals args
    some ({ st with goals := g }, o)
  | _ => none

/-- `cfg` lines are broadcast to every package. -/
def cfg (st : St) (toks : List String) : St :=
  match toks with
  | ["debug", v] => { st with debug := v == "1" }
  | _ => st

end Driver.Sched
