import Driver.Util
import MmtkModel.Model.Sched
import MmtkModel.Generated.Stages
/-!
# `goals`: the goal part of the scheduler model against the real `WorkerGoals`

`set g` = `setRequested`/`requested` (as `makeRequest` uses them), `poll` = the goal `respond` picks
(priority Gc > Shutdown > StopForFork; `respond` is only defined while no goal is current, like the
assertion in `respond_to_requests`; `WorkerGoals::poll_next_goal` itself does not look at `current`, so
the driver clears it for the call), `complete` = `current := none`.
-/
namespace Driver.Sched.Goals
open Mmtk.Sched

structure St where
  s : State := init (Mmtk.Generated.Stages.cfg 1)

def goalOf : Nat → Goal
  | 0 => .gc
  | 1 => .shutdown
  | _ => .stopForFork

def natOf : Goal → Nat
  | .gc => 0
  | .shutdown => 1
  | .stopForFork => 2

def showG : Option Goal → String
  | none => "none"
  | some g => toString (natOf g)

def step (st : St) (args : List String) : St × String :=
  match args with
  | ["new"] => ({}, "ok")
  | ["set", g] =>
    match g.toNat? with
    | some g =>
      let newly := !requested st.s (goalOf g)
      ({ s := setRequested st.s (goalOf g) true }, Driver.showBool newly)
    | none => (st, "bad-args")
  | ["poll"] =>
    match respond (Mmtk.Generated.Stages.cfg 1) { st.s with current := none } 0 with
    | some (s', .parkSelf) => ({ s := { s' with current := st.s.current } }, "none")
    | some (s', _) => ({ s := s' }, showG s'.current)
    | none => (st, "panic:assert")
  | ["current"] => (st, showG st.s.current)
  | ["complete"] => ({ s := { st.s with current := none } }, "ok")
  | ["isreq", g] =>
    match g.toNat? with
    | some g => (st, Driver.showBool (requested st.s (goalOf g)))
    | none => (st, "bad-args")
  | _ => (st, "bad-op")

end Driver.Sched.Goals
