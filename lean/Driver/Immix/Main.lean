import Driver.Util
import Driver.Immix.Lines
import Driver.Immix.Monitor
import Driver.Immix.Pages
/-! package `Immix`: C34 (`immix` unit ops, `immixm` trace monitor), C28 (`pagem` trace monitor). -/
namespace Driver.Immix
open Driver

structure St where
  mon : Monitor.St := {}
  pages : Pages.St := {}

/-- `none` = not a component of this package. -/
def step (st : St) (toks : List String) : Option (St × String) :=
  match toks with
  | "immix" :: args => some (st, Lines.run args)
  | "immixm" :: args =>
    let (m, o) := Monitor.step st.mon args
    some ({ st with mon := m }, o)
  | "pages" :: args =>
    let (p, o) := Pages.unitStep st.pages args
    some ({ st with pages := p }, o)
  | "pagem" :: args =>
    let (p, o) := Pages.step st.pages args
    some ({ st with pages := p }, o)
  | _ => none

/-- `cfg` lines are broadcast to every package. -/
def cfg (st : St) (_toks : List String) : St := st

end Driver.Immix
