import MmtkModel.Model.ImmixLines
import Driver.Immix.Lines
/-!
`immixm …`: the C34 trace monitor. It is fed dumps of the real heap taken by `hx_gc`
(`immix` before and after a GC, `snap` after it) and evaluates the model on them:

* every line spanned by a reachable object of an ImmixSpace carries the current state;
* block state bytes round-trip and are the fixpoint of the model's `sweepBlock`;
* the post-GC line table and block state of every block equal the model's
  `sweepBlock cur' (markLines live (prev marks))` (`major` / `nursery-sweep`; without the sweep for
  `nursery-nosweep`);
* `holes <block> <line>` is the model's `holeSearch` (diffed textually against the real
  `get_next_available_lines`), and no hole of a reusable block intersects a live object's lines.
-/
namespace Driver.Immix.Monitor
open Driver Mmtk.Immix Mmtk.Immix.Consts Driver.Immix.Lines

structure BlockDump where
  start : Nat
  stateByte : Nat
  marks : List Nat

structure SpaceDump where
  name : String
  cur : Nat
  unavail : Nat
  blocks : List BlockDump := []

structure St where
  pre : List SpaceDump := []
  post : List SpaceDump := []
  inPost : Bool := false
  objs : List (Nat × Nat) := []

def blockBytes : Nat := 2 ^ blockLogBytes

def addSpace (st : St) (sp : SpaceDump) : St :=
  if st.inPost then { st with post := sp :: st.post } else { st with pre := sp :: st.pre }

def addBlock (st : St) (b : BlockDump) : Option St :=
  let push : List SpaceDump → Option (List SpaceDump)
    | [] => none
    | sp :: rest => some ({ sp with blocks := b :: sp.blocks } :: rest)
  if st.inPost then (push st.post).map fun l => { st with post := l }
  else (push st.pre).map fun l => { st with pre := l }

/-- block-local live line flags of the block starting at `start`: lines spanned by the objects that
start inside the block; `none` if an object leaves the block. -/
def liveLines (objs : List (Nat × Nat)) (start : Nat) : Option (List Bool) :=
  let firstLine := start >>> lineLogBytes
  objs.foldl (fun acc (o : Nat × Nat) =>
    match acc with
    | none => none
    | some fl =>
      if start ≤ o.1 && o.1 < start + blockBytes then
        let (s, e) := objLines o.1 o.2
        if e > firstLine + LINES then none
        else some ((List.range LINES).zipWith (fun i f => f || (s ≤ firstLine + i && firstLine + i < e)) fl)
      else some fl) (some (List.replicate LINES false))

def findBlock (sps : List SpaceDump) (start : Nat) : Option (SpaceDump × BlockDump) :=
  sps.findSome? fun sp => (sp.blocks.find? fun b => b.start == start).map fun b => (sp, b)

/-- All `(start line, hole)` answers of the hole search on one table. -/
def allHoles (marks : List Nat) (unavail cur : Nat) : List (Option (Nat × Nat)) :=
  (List.range LINES).map fun l => holeSearch marks unavail cur l

def holeHitsLive (live : List Bool) (h : Option (Nat × Nat)) : Bool :=
  match h with
  | none => false
  | some (s, e) => (List.range LINES).any fun i => s ≤ i && i < e && live.getD i false

inductive Mode | major | nurserySweep | nurseryNoSweep | safe
  deriving DecidableEq

def parseMode : String → Option Mode
  | "major" => some .major
  | "nursery-sweep" => some .nurserySweep
  | "nursery-nosweep" => some .nurseryNoSweep
  | "safe" => some .safe
  | _ => none

def hexs (n : Nat) : String := "0x" ++ String.ofList (Nat.toDigits 16 n)

/-- Check one space of the post-GC dump; returns the first violation. -/
def checkSpace (st : St) (mode : Mode) (sp : SpaceDump) : Option String := do
  let pre := st.pre.find? fun p => p.name == sp.name
  -- mark state range; outside a GC the unavailable state is the current one
  if !(1 ≤ sp.cur && sp.cur ≤ maxMarkState && sp.unavail == sp.cur) then
    some s!"state-range space={sp.name} cur={sp.cur} unavail={sp.unavail}"
  else
  let stateErr : Option String :=
    match mode, pre with
    | .major, some p => if sp.cur != nextMarkState p.cur then some s!"next-state space={sp.name} pre={p.cur} post={sp.cur} model={nextMarkState p.cur}" else none
    | .nurserySweep, some p | .nurseryNoSweep, some p =>
      if sp.cur != p.cur then some s!"nursery-state space={sp.name} pre={p.cur} post={sp.cur}" else none
    | _, _ => none
  if let some e := stateErr then some e else
  let blockErr := sp.blocks.findSome? fun b =>
    let stt := BlockState.ofByte b.stateByte
    if stt.toByte != b.stateByte then some s!"bstate-roundtrip block={hexs b.start} byte={b.stateByte}"
    else if b.marks.length != LINES then some s!"line-count block={hexs b.start}"
    else
    match liveLines st.objs b.start with
    | none => some s!"object-leaves-block block={hexs b.start}"
    | some live =>
      -- (i) live lines carry the current state
      match (List.range LINES).find? fun i => live.getD i false && b.marks.getD i 0 != sp.cur with
      | some i => some s!"live-line-unmarked space={sp.name} block={hexs b.start} line={i} mark={b.marks.getD i 0} cur={sp.cur}"
      | none =>
      -- (ii) the stored state is what the model's sweep stores for this table (sweeping modes)
      let fix : Option String :=
        if mode == .nurseryNoSweep then none else
        let r := sweepBlock sp.cur { state := .unmarked, defragByte := 0, marks := b.marks }
        if r.1.marks != b.marks then some s!"sweep-not-fixpoint-lines space={sp.name} block={hexs b.start}"
        else if r.1.state.toByte != b.stateByte then some s!"sweep-state space={sp.name} block={hexs b.start} byte={b.stateByte} model={r.1.state.toByte}"
        else none
      if let some e := fix then some e else
      -- (iii) transition from the pre-GC table
      let trans : Option String :=
        match mode, pre with
        | .safe, _ | _, none => none
        | _, some p =>
          let prevMarks := match p.blocks.find? fun pb => pb.start == b.start with
            | some pb => pb.marks
            | none => List.replicate LINES 0
          let marked := (List.range LINES).zipWith (fun i m => if live.getD i false then sp.cur else m) prevMarks
          let expect := if mode == .nurseryNoSweep then marked
            else (sweepBlock sp.cur { state := .unmarked, defragByte := 0, marks := marked }).1.marks
          if expect != b.marks then
            let i := ((List.range LINES).find? fun i => expect.getD i 0 != b.marks.getD i 0).getD 0
            some s!"transition-lines space={sp.name} block={hexs b.start} line={i} impl={b.marks.getD i 0} model={expect.getD i 0} prev={prevMarks.getD i 0} cur={sp.cur}"
          else none
      if let some e := trans then some e else
      -- (iv) holes of a reusable block never intersect a live object
      if stt.isReusable then
        match (allHoles b.marks sp.unavail sp.cur).find? (holeHitsLive live) with
        | some h => some s!"hole-hits-live space={sp.name} block={hexs b.start} hole={showHole h}"
        | none => none
      else none
  if let some e := blockErr then some e else
  -- (v) a block that disappeared had no live line in the model either
  match mode, pre with
  | .major, some p | .nurserySweep, some p =>
    p.blocks.findSome? fun pb =>
      if sp.blocks.any fun b => b.start == pb.start then none else
      match liveLines st.objs pb.start with
      | some live =>
        if live.any id then some s!"released-block-has-live-object space={sp.name} block={hexs pb.start}"
        else
          -- stale marks equal to the new state would have kept the block
          let r := sweepBlock sp.cur { state := .unmarked, defragByte := 0, marks := pb.marks }
          if r.2 != .swept then some s!"released-block-model-keeps space={sp.name} block={hexs pb.start}" else none
      | none => none
  | _, _ => none

def step (st : St) (args : List String) : St × String :=
  match args with
  | ["reset"] => ({}, "ok")
  | ["dump", "pre"] => ({ st with pre := [], post := [], objs := [], inPost := false }, "ok")
  | ["dump", "post"] => ({ st with post := [], objs := [], inPost := true }, "ok")
  | ["space", name, cur, un] =>
    match num? cur, num? un with
    | some c, some u => (addSpace st { name := name, cur := c, unavail := u }, "ok")
    | _, _ => (st, "bad-op")
  | ["block", start, sb, hex] =>
    match num? start, num? sb, parseHexBytes hex with
    | some s, some b, some m =>
      match addBlock st { start := s, stateByte := b, marks := m } with
      | some st' => (st', "ok")
      | none => (st, "err no-space")
    | _, _, _ => (st, "bad-op")
  | ["obj", start, size] =>
    match num? start, num? size with
    | some s, some z => ({ st with objs := (s, z) :: st.objs }, "ok")
    | _, _ => (st, "bad-op")
  | "check" :: modes =>
    let parsed := modes.filterMap fun m =>
      match m.splitOn "=" with
      | [n, md] => (parseMode md).map fun x => (n, x)
      | _ => none
    if parsed.length != modes.length then (st, "bad-op") else
    let res := st.post.findSome? fun sp =>
      match parsed.find? fun p => p.1 == sp.name with
      | some (_, md) => checkSpace st md sp
      | none => checkSpace st .safe sp
    match res with
    | some e => (st, "viol " ++ e)
    | none =>
      let nb := (st.post.map fun sp => sp.blocks.length).foldl (· + ·) 0
      let nr := (st.post.map fun sp => (sp.blocks.filter fun b => (BlockState.ofByte b.stateByte).isReusable).length).foldl (· + ·) 0
      (st, s!"ok spaces={st.post.length} blocks={nb} reusable={nr} objs={st.objs.length}")
  | ["holes", block, line] =>
    match num? block, num? line with
    | some b, some l =>
      if b % blockBytes != 0 then (st, "err unaligned")
      else if l ≥ LINES then (st, "err line-out-of-range")
      else
      match findBlock st.post b with
      | some (sp, bd) => (st, showHole (holeSearch bd.marks sp.unavail sp.cur l))
      | none => (st, "err not-immix-block")
    | _, _ => (st, "bad-op")
  | _ => (st, "bad-op")

end Driver.Immix.Monitor
