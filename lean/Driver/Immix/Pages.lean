import Driver.Util
/-! `pagem …`: the C28 trace monitor (filled in by C28). -/
namespace Driver.Immix.Pages
open Driver

structure St where
  dummy : Nat := 0

def step (st : St) (_args : List String) : St × String := (st, "bad-op")

end Driver.Immix.Pages
