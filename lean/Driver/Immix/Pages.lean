import MmtkModel.Model.Pages
import Driver.Util
/-!
`pagem …`: the C28 trace monitor. It replays the page-resource events of the in-core event log
(`Pr*` kinds of HX_GC_EVENTS.md, decoded by the check) through the transcribed accounting functions
and keeps the set of live grants per space:

* every grant is page aligned, inside the space's extent and disjoint from every live grant;
* no accounting operation underflows;
* at every `stats` the model's counters equal the real `reserved_pages()` / `committed_pages()` and
  both equal the pages currently granted;
* the `reserved` value logged by `PrReset` / `PrResetCursor` equals the model's.
-/
namespace Driver.Immix.Pages
open Driver Mmtk.Pages

structure SpaceSt where
  name : String
  start : Nat
  extent : Nat
  acct : Acct := {}
  grants : List (Nat × Nat) := []     -- (address, pages)

/-- the stand-alone contiguous `MonotonePageResource` of the unit component `pages` -/
structure Mono where
  start : Nat
  sentinel : Nat
  cursor : Nat
  acct : Acct := {}

structure St where
  spaces : List SpaceSt := []
  mono : Option Mono := none

def hexs (n : Nat) : String := "0x" ++ String.ofList (Nat.toDigits 16 n)

def grantedPages (sp : SpaceSt) : Nat := (sp.grants.map (·.2)).foldl (· + ·) 0

def updSpace (st : St) (name : String) (f : SpaceSt → SpaceSt × String) : St × String :=
  match st.spaces.find? (·.name == name) with
  | none => (st, "err unknown-space " ++ name)
  | some sp =>
    let (sp', out) := f sp
    ({ st with spaces := st.spaces.map fun s => if s.name == name then sp' else s }, out)

/-- one decoded event on one space -/
def event (sp : SpaceSt) (kind n b : Nat) : SpaceSt × String :=
  match kind with
  | 50 => -- PrGetNewPages: n = pages, b = start
    if !addrAligned b then (sp, s!"viol grant-unaligned space={sp.name} start={hexs b}")
    else if n == 0 then (sp, s!"viol grant-empty space={sp.name} start={hexs b}")
    else if !addrInSpace sp.start sp.extent b n then (sp, s!"viol grant-outside-space space={sp.name} start={hexs b} pages={n}")
    else match sp.grants.find? fun g => !addrDisjoint g.1 g.2 b n with
      | some g => (sp, s!"viol grant-overlaps space={sp.name} start={hexs b} pages={n} live={hexs g.1}+{g.2}")
      | none => ({ sp with grants := (b, n) :: sp.grants }, "ok")
  | 51 => (sp, "ok")
  | 52 => -- PrReleasePages: b = first address
    match sp.grants.find? fun g => g.1 == b with
    | none => (sp, s!"viol release-of-ungranted space={sp.name} start={hexs b}")
    | some g =>
      match sp.acct.release g.2 with
      | none => (sp, s!"viol accounting-underflow space={sp.name} op=release pages={g.2} reserved={sp.acct.reserved} committed={sp.acct.committed}")
      | some a => ({ sp with acct := a, grants := sp.grants.filter fun x => x.1 != b }, "ok")
  | 53 => -- PrReleaseBlock: n = pages, b = block start
    match sp.grants.find? fun g => g.1 == b with
    | none => (sp, s!"viol release-of-ungranted space={sp.name} start={hexs b}")
    | some g =>
      if g.2 != n then (sp, s!"viol release-size space={sp.name} start={hexs b} granted={g.2} released={n}")
      else match sp.acct.release n with
      | none => (sp, s!"viol accounting-underflow space={sp.name} op=release_block pages={n} reserved={sp.acct.reserved} committed={sp.acct.committed}")
      | some a => ({ sp with acct := a, grants := sp.grants.filter fun x => x.1 != b }, "ok")
  | 54 => -- PrReset: n = reserved_pages() before
    if n != sp.acct.reserved % 2 ^ 32 then (sp, s!"viol reset-reserved space={sp.name} impl={n} model={sp.acct.reserved}")
    else ({ sp with acct := sp.acct.reset, grants := [] }, "ok")
  | 55 => ({ sp with acct := sp.acct.reserve n }, "ok")
  | 56 => -- PrClearRequest: n = pages_reserved
    match sp.acct.clearReserved n with
    | none => (sp, s!"viol accounting-underflow space={sp.name} op=clear_request pages={n} reserved={sp.acct.reserved}")
    | some a => ({ sp with acct := a }, "ok")
  | 57 => -- PrCommit: n = pages_reserved, b = actual pages
    match commitPages sp.acct n b with
    | none => (sp, s!"viol accounting-underflow space={sp.name} op=commit_pages reserved_pages={n} actual={b}")
    | some a => ({ sp with acct := a }, "ok")
  | 58 => -- PrResetCursor (MarkCompact): n = reserved before, b = new top
    if n != sp.acct.reserved % 2 ^ 32 then (sp, s!"viol reset-reserved space={sp.name} impl={n} model={sp.acct.reserved}")
    else
      let pages := resetCursorPages sp.start b
      ({ sp with acct := sp.acct.reset.reserveAndCommit pages, grants := if pages == 0 then [] else [(sp.start, pages)] }, "ok")
  | _ => (sp, "bad-op")

def step (st : St) (args : List String) : St × String :=
  match args with
  | ["reset"] => ({}, "ok")
  | ["space", name, start, extent] =>
    match num? start, num? extent with
    | some s, some e => ({ st with spaces := st.spaces ++ [{ name := name, start := s, extent := e }] }, "ok")
    | _, _ => (st, "bad-op")
  | ["ev", kind, name, n, b] =>
    match num? kind, num? n, num? b with
    | some k, some n, some b => updSpace st name fun sp => event sp k n b
    | _, _, _ => (st, "bad-op")
  | ["stats", name, res, com] =>
    match num? res, num? com with
    | some r, some c =>
      updSpace st name fun sp =>
        if sp.acct.reserved != r || sp.acct.committed != c then
          (sp, s!"viol counters space={sp.name} impl={r}/{c} model={sp.acct.reserved}/{sp.acct.committed}")
        else if grantedPages sp != c then
          (sp, s!"viol committed-ne-granted space={sp.name} committed={c} granted={grantedPages sp}")
        else (sp, s!"ok {r} {c} grants={sp.grants.length}")
    | _, _ => (st, "bad-op")
  | _ => (st, "bad-op")

def tail (m : Mono) : String := s!"res={m.acct.reserved} com={m.acct.committed} cur={hexs m.cursor}"

/-- `pages …`: same output as harness/src/comp/immix/pages.rs (debug profile). -/
def unitStep (st : St) (args : List String) : St × String :=
  match args with
  | ["new", start, bytes] =>
    match num? start, num? bytes with
    | some s, some b =>
      if s % 2 ^ 22 != 0 || b == 0 || b % 4096 != 0 || s == 0 then (st, "bad-op") else
      let m : Mono := { start := s, sentinel := s + b, cursor := s }
      ({ st with mono := some m }, "ok " ++ tail m)
    | _, _ => (st, "bad-op")
  | op :: rest =>
    match st.mono, nums? rest with
    | none, _ => (st, "err no-pr")
    | some m, some ns =>
      match op, ns with
      | "reserve", [n] =>
        let m' := { m with acct := m.acct.reserve n }
        ({ st with mono := some m' }, s!"{n} {tail m'}")
      | "alloc", [r, q] =>
        -- MonotonePageResource::alloc_pages (contiguous), pages → bytes
        let bytes := q <<< logBytesInPage
        let tmp := m.cursor + bytes
        if tmp > m.sentinel then (st, "fail " ++ tail m) else
        match commitPages m.acct r q with
        | none => (st, "panic:overflow")
        | some a =>
          let m' := { m with cursor := tmp, acct := a }
          ({ st with mono := some m' }, s!"{hexs m.cursor} {q} false {tail m'}")
      | "clear", [n] =>
        match m.acct.clearReserved n with
        | none => (st, "panic:assert")
        | some a =>
          let m' := { m with acct := a }
          ({ st with mono := some m' }, "ok " ++ tail m')
      | "reset", [] =>
        let m' := { m with acct := m.acct.reset, cursor := m.start }
        ({ st with mono := some m' }, "ok " ++ tail m')
      | "resetcursor", [top] =>
        let cursor := (top + (bytesInPage - 1)) / bytesInPage * bytesInPage
        let m' := { m with acct := m.acct.reset.reserveAndCommit (resetCursorPages m.start top), cursor := cursor }
        ({ st with mono := some m' }, "ok " ++ tail m')
      | _, _ => (st, "bad-op")
    | _, none => (st, "bad-op")
  | _ => (st, "bad-op")

end Driver.Immix.Pages
