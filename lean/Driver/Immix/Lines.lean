import MmtkModel.Model.ImmixLines
import Driver.Util
/-! `immix …`: the unit ops of C34 (same output as harness/src/comp/immix/lines.rs). -/
namespace Driver.Immix.Lines
open Driver Mmtk.Immix Mmtk.Immix.Consts

def parseHexBytes (s : String) : Option (List Nat) :=
  let rec go : List Char → Option (List Nat)
    | [] => some []
    | [_] => none
    | a :: b :: rest =>
      match hexDigit? a, hexDigit? b, go rest with
      | some x, some y, some r => some ((x * 16 + y) :: r)
      | _, _, _ => none
  go s.toList

def hexNibble (n : Nat) : Char := if n < 10 then Char.ofNat (48 + n) else Char.ofNat (87 + n)

def hexBytes (l : List Nat) : String :=
  String.ofList (l.flatMap fun b => [hexNibble (b / 16 % 16), hexNibble (b % 16)])

def kindName : BlockState → String
  | .unallocated => "unallocated"
  | .unmarked => "unmarked"
  | .marked => "marked"
  | .reusable _ => "reusable"

def stateN : BlockState → Nat
  | .reusable n => n
  | _ => 0

def resultName : SweepResult → String
  | .swept => "swept"
  | .reused => "reused"
  | .noReuse => "noreuse"

def showHole : Option (Nat × Nat) → String
  | none => "none"
  | some (s, e) => s!"{s}-{e}"

def run (args : List String) : String :=
  match args with
  | ["consts"] =>
    s!"line_log={lineLogBytes} block_log={blockLogBytes} lines={blockLines} pages={blockPages} reset={resetMarkState} max={maxMarkState} unallocated={markUnallocated} unmarked={markUnmarked} marked={markMarked} block_only={showBool blockOnly} max_object={maxObjectSize}"
  | ["bstate", b] =>
    match num? b with
    | some b =>
      if b > 255 then "bad-op" else
      let st := BlockState.ofByte b
      s!"{kindName st} {stateN st} {st.toByte} {showBool st.isReusable}"
    | none => "bad-op"
  | ["tobyte", k, n] =>
    match num? k, num? n with
    | some k, some n =>
      if k > 3 || n > 255 then "bad-op" else
      let st : BlockState := match k with
        | 0 => .unallocated | 1 => .unmarked | 2 => .marked | _ => .reusable n
      let byte := st.toByte
      let st2 := BlockState.ofByte byte
      s!"{byte} {kindName st2} {stateN st2}"
    | _, _ => "bad-op"
  | ["holes", cur, un, start, hex] =>
    match num? cur, num? un, num? start, parseHexBytes hex with
    | some cur, some un, some start, some marks =>
      if cur > 255 || un > 255 || marks.length != LINES || start ≥ LINES then "bad-op"
      else showHole (holeSearch marks un cur start)
    | _, _, _, _ => "bad-op"
  | ["sweep", cur, hex] =>
    match num? cur, parseHexBytes hex with
    | some cur, some marks =>
      if cur > 255 || marks.length != LINES then "bad-op" else
      let b : Block := { state := .unmarked, defragByte := 0, marks := marks }
      let r := sweepBlock cur b
      s!"{resultName r.2} {r.1.state.toByte} {hexBytes r.1.marks} {r.1.defragByte}"
    | _, _ => "bad-op"
  | ["marklines", cur, off, size, hex] =>
    match num? cur, num? off, num? size, parseHexBytes hex with
    | some cur, some off, some size, some marks =>
      if cur > 255 || marks.length != LINES || off % 8 != 0 || size % 8 != 0 || size < 32
          || off + size > 2 ^ blockLogBytes then "bad-op" else
      let (s, e) := objLines off size
      s!"{newlyMarkedFrom cur s e 0 marks} {hexBytes (markLines cur s e marks)}"
    | _, _, _, _ => "bad-op"
  | _ => "bad-op"

end Driver.Immix.Lines
