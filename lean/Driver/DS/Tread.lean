import MmtkModel.Model.Treadmill
import Driver.Util
/-! `tread` component (C36): prints exactly what `harness/src/comp/ds/tread.rs` prints. -/
namespace Driver.DS.Tread
open Mmtk.Treadmill Driver

/-- Driver state: the treadmill, and whether its mutex is poisoned (a `debug_assert!` fired while
the lock was held: every later `lock().unwrap()` / `get_mut().unwrap()` panics). -/
structure St where
  tm : Option TM := none
  poisoned : Bool := false

def showSet (l : List Nat) : String :=
  "[" ++ joinWith "," ((l.mergeSort (· ≤ ·)).map toString) ++ "]"

def showSets (t : TM) : String :=
  s!"F={showSet t.fromSpace} T={showSet t.toSpace} C={showSet t.collectNursery} A={showSet t.allocNursery}"

def step (debug : Bool) (st : St) (args : List String) : St × String :=
  match args with
  | ["new"] => ({ tm := some TM.new, poisoned := false }, "ok | " ++ showSets TM.new)
  | op :: rest =>
    match st.tm with
    | none => (st, "bad-op no-treadmill")
    | some t =>
      let known := ["add", "flip", "copy", "collect_nursery", "collect_mature", "empties"]
      if !known.contains op then (st, s!"bad-op {op}") else
      if st.poisoned then (st, "panic:other") else
      match op, nums? rest with
      | "add", some [o, n] =>
        let t' := addToTreadmill t o (n != 0)
        ({ st with tm := some t' }, "ok | " ++ showSets t')
      | "flip", some [f] =>
        let t' := flip t (f != 0)
        ({ st with tm := some t' }, "ok | " ++ showSets t')
      | "copy", some [o, n] =>
        match copy debug t o (n != 0) with
        | some t' => ({ st with tm := some t' }, "ok | " ++ showSets t')
        | none => ({ st with poisoned := true }, "panic:other")
      | "collect_nursery", some [] =>
        let (r, t') := collectNursery t
        ({ st with tm := some t' }, showSet r ++ " | " ++ showSets t')
      | "collect_mature", some [] =>
        let (r, t') := collectMature t
        ({ st with tm := some t' }, showSet r ++ " | " ++ showSets t')
      | "empties", some [] =>
        (st, s!"{showBool t.fromSpace.isEmpty} {showBool t.toSpace.isEmpty} {showBool t.collectNursery.isEmpty} {showBool t.allocNursery.isEmpty} | " ++ showSets t)
      | _, _ => (st, "bad-op")
  | [] => (st, "bad-op")

end Driver.DS.Tread
