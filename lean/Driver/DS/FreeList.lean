import MmtkModel.Model.FreeList
import Driver.Util
/-! `fl` component (C26, C27): prints exactly what `harness/src/comp/ds/fl.rs` prints. -/
namespace Driver.DS.FreeList
open Mmtk.FreeList Driver

inductive L
  | ia (t : Tab)
  | rm (l : RM)

structure St where
  l : Option L := none

/-- signed token (`-n` allowed) -/
def int? (s : String) : Option Int :=
  if s.startsWith "-" then (s.drop 1).toString.toNat?.map (fun n => -(n : Int)) else (num? s).map (fun n => (n : Int))

def ints? (l : List String) : Option (List Int) := l.mapM int?

def showErr : Err → String
  | .oob => "panic:oob"
  | .assert => "panic:assert"
  | .other => "panic:other"
  | .diverge => "diverge"

def tabOf : L → Tab
  | .ia t => t
  | .rm l => l.tab

def withTab (x : L) (t : Tab) : L :=
  match x with
  | .ia _ => .ia t
  | .rm l => .rm { l with tab := t }

def trimZeros (l : List Nat) : List Nat := (l.reverse.dropWhile (· == 0)).reverse

def dump (t : Tab) : String :=
  s!"len={t.cells.size} [{joinWith "," ((trimZeros t.cells.toList).map fun n => toString (dec n))}]"

/-- result of an op: new list (none = dropped after a panic) and the output line -/
def fin (x : L) (r : M (Tab × String)) : Option L × String :=
  match r with
  | .ok (t, s) => (some (withTab x t), s)
  | .error e => (none, showErr e)

def opStep (debug : Bool) (x : L) (op : String) (a : List Int) : Option L × String :=
  let t := tabOf x
  match op, a with
  | "alloc", [k, n] =>
    match x with
    | .rm l =>
      (match l.alloc debug (-(1 + k)) n with
       | .ok (l, r) => (some (.rm l), toString r)
       | .error e => (none, showErr e))
    | .ia _ => fin x (do let (t, r) ← alloc debug t (-(1 + k)) n; pure (t, toString r))
  | "afu", [k, n, u] => fin x (do let (t, r) ← allocFromUnit debug t (-(1 + k)) n u; pure (t, toString r))
  | "free", [k, u, rcs] => fin x (do let (t, r) ← free debug t (-(1 + k)) u (rcs != 0); pure (t, toString r))
  | "size", [u] => fin x (do let r ← getSize t u; pure (t, toString r))
  | "setunc", [u] => fin x (do let t ← setUncoalescable t u; pure (t, "ok"))
  | "clrunc", [u] => fin x (do let t ← clearUncoalescable t u; pure (t, "ok"))
  | "info", [k, u] => fin x (do
      let h := -(1 + k)
      let f ← getFree t u
      let s ← getSize t u
      let c ← isCoalescable t u
      let m ← isMulti t u
      let l ← getLeft t u
      let r ← getRight t u
      let n ← getNext t h u
      let p ← getPrev t h u
      pure (t, s!"free={showBool f} size={s} coal={showBool c} multi={showBool m} left={l} right={r} next={n} prev={p}"))
  | "dump", [] => (some x, dump t)
  | "resize", [k, units, grain] =>
    match x with
    | .ia t => fin x (do let t ← IntArray.resize debug t (-(1 + k)) units grain; pure (t, "ok"))
    | .rm _ => (some x, "bad-op")
  | "grow", [n] =>
    match x with
    | .rm l =>
      (match l.growFreelist debug (-1) n with
       | .ok (l, b) => (some (.rm l), showBool b)
       | .error e => (none, showErr e))
    | .ia _ => (some x, "bad-op")
  | "fields", [] =>
    match x with
    | .rm l =>
      (some x, s!"hw={l.highWater - l.base} limit={l.limit - l.base} max={l.maxUnits} grain={l.grain} cur={l.currentUnits} ppb={l.pagesPerBlock} len={l.tab.cells.size} cap={l.currentCapacity} upb={l.unitsPerBlock} uifb={l.unitsInFirstBlock}")
    | .ia _ => (some x, "bad-op")
  | _, _ => (some x, s!"bad-op {op}")

/-- `Map64::create_parent_freelist(start, units, grain)`: the parameters handed to
`RawMemoryFreeList::new` (`NON_MAP_FRACTION = 1 - 8/4096`; the `f64` product is exact for
`units < 2^53/4088`, and its truncation equals `units * 4088 / 4096`). -/
def map64 (units grain : Int) : String :=
  let u : Int := units * 4088 / 4096
  let sip := sizeInPages u 1
  let extent := sip * 4096
  let ppb := defaultBlockSize u 1
  let disp := (extent + 4194303) / 4194304 * 4194304
  s!"base=0 limit={extent} max={u} grain={grain} heads=1 ppb={ppb} disp={disp} sip={sip} dbs={ppb}"

def step (debug : Bool) (st : St) (args : List String) : St × String :=
  match args with
  | ["map64", _, units, grain] =>
    match int? units, int? grain with
    | some u, some g => (st, map64 u g)
    | _, _ => (st, "bad-op")
  | "new" :: "ia" :: rest =>
    match ints? rest with
    | some [units, grain, heads] =>
      (match IntArray.new debug units grain heads with
       | .ok t => ({ l := some (.ia t) }, "ok")
       | .error e => ({ l := none }, showErr e))
    | _ => ({ l := none }, "bad-op")
  | "new" :: "rm" :: rest =>
    match ints? rest with
    | some [units, grain, heads, ppb0, limitPages0] =>
      -- `-1` = the code's own derivation (what Map64::create_parent_freelist passes):
      -- limit = size_in_pages(units, heads) pages, block = default_block_size(units, heads)
      let limitPages := if limitPages0 < 0 then sizeInPages units heads else limitPages0
      let ppb := if ppb0 < 0 then defaultBlockSize units heads else ppb0
      -- addresses relative to an arbitrary page-aligned base far from 0 and 2^64
      let base : Nat := 1099511627776
      ({ l := some (.rm (RM.new base (base + limitPages.toNat * 4096) ppb units grain heads)) }, "ok")
    | _ => ({ l := none }, "bad-op")
  | "new" :: _ => ({ l := none }, "bad-op")
  | op :: rest =>
    match st.l with
    | none => (st, "bad-op no-list")
    | some x =>
      match ints? rest with
      | none => (st, "bad-op")
      | some a =>
        let (l', out) := opStep debug x op a
        ({ l := l' }, out)
  | [] => (st, "bad-op")

end Driver.DS.FreeList
