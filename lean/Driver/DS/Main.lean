import Driver.Util
import Driver.DS.Tread
import Driver.DS.FreeList
/-! package `DS` (see CONVENTIONS.md): register components in `step`.
`cfg` lines this package cares about may be matched here too (they must answer "ok");
every package sees every `cfg` line. -/
namespace Driver.DS
open Driver

structure St where
  debug : Bool := true
  tread : Tread.St := {}
  fl : FreeList.St := {}

/-- `none` = not a component of this package. -/
def step (st : St) (toks : List String) : Option (St × String) :=
  match toks with
  | "tread" :: args =>
    let (t, o) := Tread.step st.debug st.tread args
    some ({ st with tread := t }, o)
  | "fl" :: args =>
    let (t, o) := FreeList.step st.debug st.fl args
    some ({ st with fl := t }, o)
  | _ => none

/-- `cfg` lines are broadcast to every package. -/
def cfg (st : St) (toks : List String) : St :=
  match toks with
  | ["debug", v] => { st with debug := v == "1" }
  | _ => st

end Driver.DS
