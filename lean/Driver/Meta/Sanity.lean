import MmtkModel.Model.Layout
import Driver.Util
namespace Driver.Meta.Sanity
open Mmtk.Layout Driver

def mkSpec (name : Nat) (g : Bool) : List Nat → Option Spec
  | [o, lb, lr] => some { name := name, isGlobal := g, offset := o, logBits := lb, logRegion := lr }
  | _ => none

/-- parse `n (off lb lr)*n` from the front of a list. -/
def takeSpecs (g : Bool) (base : Nat) : Nat → Nat → List Nat → Option (List Spec × List Nat)
  | 0, _, rest => some ([], rest)
  | n + 1, i, o :: lb :: lr :: rest =>
    match takeSpecs g base n (i + 1) rest with
    | some (ss, r) => some ({ name := base + i, isGlobal := g, offset := o, logBits := lb, logRegion := lr } :: ss, r)
    | none => none
  | _, _, _ => none

/-- parse `np (nl (off lb lr)*nl)*np`: the local specs of `np` policies, names numbered through. -/
def takePolicies : Nat → Nat → List Nat → Option (List (List Spec) × List Nat)
  | 0, _, rest => some ([], rest)
  | n + 1, i, nl :: rest =>
    match takeSpecs false (8 + i) nl 0 rest with
    | some (l, r) =>
      match takePolicies n (i + nl) r with
      | some (ps, r') => some (l :: ps, r')
      | none => none
    | none => none
  | _, _, _ => none

/-- `verify_metadata_context` once per policy on one checker: the k-th call checks the global specs (first call) and
ALL local specs registered so far (`get_all_specs(false)`; the names are distinct, nothing is deduplicated). -/
def multiVerdict (g : List Spec) : List Spec → List (List Spec) → String
  | _, [] => "ok"
  | acc, l :: ps =>
    let all := acc ++ l
    if (g ++ all).all (fun s => decide s.legal) then
      match verifyContext noOverlap g all with
      | .ok => multiVerdict g all ps
      | .panicOther => "panic:other"
      | .panicAssert => "panic:assert"
    else "panic:overflow"

def run (args : List String) : String :=
  match args with
  | "pair" :: rest =>
    match nums? rest with
    | some [o1, b1, r1, o2, b2, r2] =>
      let a : Spec := { name := 0, isGlobal := true, offset := o1, logBits := b1, logRegion := r1 }
      let b : Spec := { name := 1, isGlobal := true, offset := o2, logBits := b2, logRegion := r2 }
      if decide a.legal && decide b.legal then showBool (noOverlap a b) else "panic:overflow"
    | _ => "bad-op"
  | "range" :: rest =>
    match nums? rest with
    | some [b, r] =>
      let a : Spec := { name := 0, isGlobal := true, offset := 0, logBits := b, logRegion := r }
      if decide a.legal then toString (rangeSize a) else "panic:overflow"
    | _ => "bad-op"
  | "ctx" :: rest =>
    match nums? rest with
    | some (ng :: rest) =>
      match takeSpecs true 0 ng 0 rest with
      | some (g, nl :: rest') =>
        match takeSpecs false 8 nl 0 rest' with
        | some (l, []) =>
          if (g ++ l).all (fun s => decide s.legal) then
            match verifyContext noOverlap g l with
            | .ok => "ok"
            | .panicOther => "panic:other"
            | .panicAssert => "panic:assert"
          else "panic:overflow"
        | _ => "bad-op"
      | _ => "bad-op"
    | _ => "bad-op"
  | "multi" :: rest =>
    match nums? rest with
    | some (ng :: rest) =>
      match takeSpecs true 0 ng 0 rest with
      | some (g, np :: rest') =>
        if np > 8 then "bad-op" else
        match takePolicies np 0 rest' with
        | some (ps, []) => if (ps.map List.length).sum > 8 then "bad-op" else multiVerdict g [] ps
        | _ => "bad-op"
      | _ => "bad-op"
    | _ => "bad-op"
  | _ => "bad-op"

end Driver.Meta.Sanity
