import Driver.Util
import Driver.Meta.Sanity
import Driver.Meta.Hdr
import Driver.Meta.Side
/-! package `Meta` (see CONVENTIONS.md): register components in `step`.
`cfg` lines this package cares about may be matched here too (they must answer "ok");
every package sees every `cfg` line. -/
namespace Driver.Meta
open Driver

structure St where
  debug : Bool := true
  hdrWin : Hdr.Win := Array.replicate 64 0
  side : Side.St := {}

/-- `none` = not a component of this package. -/
def step (st : St) (toks : List String) : Option (St × String) :=
  match toks with
  | "sanity" :: args => some (st, Sanity.run args)
  | "hdr" :: args => let (w, o) := Hdr.step st.debug st.hdrWin args; some ({ st with hdrWin := w }, o)
  | "side" :: args => let (w, o) := Side.step st.debug st.side args; some ({ st with side := w }, o)
  | _ => none

/-- `cfg` lines are broadcast to every package. -/
def cfg (st : St) (toks : List String) : St :=
  match toks with
  | ["debug", v] => { st with debug := v == "1" }
  | _ => st

end Driver.Meta
