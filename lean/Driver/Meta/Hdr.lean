import MmtkModel.Model.HeaderMeta
import Driver.Util
namespace Driver.Meta.Hdr
open Mmtk.Mem Mmtk.HeaderMeta Driver

/-- The window: 64 bytes, the header is at index 32. Memory outside the window reads 0. -/
abbrev Win := Array Nat

def winBase : Nat := 4096        -- arbitrary absolute address of window[0] in the model
def header : Nat := winBase + 32

def toMem (w : Win) : Mem := fun a => if winBase ≤ a ∧ a < winBase + 64 then w.getD (a - winBase) 0 else 0
def ofMem (m : Mem) : Win := (Array.range 64).map fun i => m (winBase + i)

def hex2 (n : Nat) : String :=
  let d := fun k : Nat => (if k < 10 then Char.ofNat (48 + k) else Char.ofNat (87 + k))
  String.ofList [d (n / 16 % 16), d (n % 16)]

def showWin (w : Win) : String := String.join (w.toList.map hex2)

def parseWin (s : String) : Option Win :=
  let cs := s.toList
  if cs.length ≠ 128 then none else
  let rec go : List Char → List Nat → Option (List Nat)
    | a :: b :: rest, acc =>
      match hexDigit? a, hexDigit? b with
      | some x, some y => go rest ((x * 16 + y) :: acc)
      | _, _ => none
    | [], acc => some acc.reverse
    | _, _ => none
  (go cs []).map List.toArray

def int? (s : String) : Option Int :=
  if s.startsWith "-" then (s.drop 1).toString.toNat?.map (fun n => -(n : Int)) else s.toNat?.map (fun n => (n : Int))

def maskArg (s : String) : Option (Option Nat) :=
  if s == "-" then some none else (num? s).map some

def showCas (r : CasRes) : Option (Mem × String) :=
  r.map fun (m, ok, v) => (m, (if ok then "ok:" else "err:") ++ toString v)

def showRes (r : Res) (store : Bool := false) : Option (Mem × String) :=
  r.map fun (m, v) => (m, if store then "-" else toString v)

/-- Values that do not fit `T` make the harness's `from_u64(..).unwrap()` panic. -/
def fits (w : Nat) (vs : List Nat) : Bool := vs.all (· < 256 ^ w)

def upd (kind : String) (k : Option Nat) (w : Nat) : Option (Nat → Option Nat) :=
  match kind, k with
  | "none", _ => some fun _ => none
  | "const", some c => some fun _ => some c
  | "add", some c => some fun x => some ((x + c) % 256 ^ w)
  | _, _ => none

def exec (debug : Bool) (s : Spec) (w : Nat) (m : Mem) (op : String) (a : List String) : Option (Mem × String) :=
  let h := header
  if s.numBits = 0 then none else
  if s.numBits < 8 then
    if debug && !(decide s.bitsOk) then none else
    match op, a with
    | "load", [k] | "load_atomic", [k] =>
      match maskArg k with
      | some none => showRes (loadBits s m h)
      | some (some _) => if debug then none else
          match maskArg k, loadBits s m h with
          | some (some kk), some (m', v) => some (m', toString (v &&& kk))
          | _, _ => none
      | none => none
    | "store", [v, k] | "store_atomic", [v, k] =>
      match num? v, maskArg k with
      | some v, some mk =>
        if !fits w [v] then none
        else if debug && mk.isSome then none
        else showRes (storeBits debug s m h v) true
      | _, _ => none
    | "cmpxchg", [o, n, _k] =>
      match num? o, num? n with
      | some o, some n => if !fits w [o, n] then none else showCas (cmpxchgBits debug s m h o n)
      | _, _ => none
    | "fetch_add", [v] => (num? v).bind fun v => if !fits w [v] then none else showRes (fetchAddBits debug s m h v)
    | "fetch_sub", [v] => (num? v).bind fun v => if !fits w [v] then none else showRes (fetchSubBits debug s m h v)
    | "fetch_and", [v] => (num? v).bind fun v => if !fits w [v] then none else showRes (fetchAndBits s m h v)
    | "fetch_or", [v] => (num? v).bind fun v => if !fits w [v] then none else showRes (fetchOrBits s m h v)
    | "fetch_update", kind :: rest =>
      let k := rest.head?.bind num?
      if !(fits w k.toList) then none else
      (upd kind k w).bind fun f => showCas (fetchUpdateBits debug s m h f)
    | _, _ => none
  else
    if debug && !(decide (s.wordOk w)) then none else
    match op, a with
    | "load", [k] | "load_atomic", [k] =>
      (maskArg k).bind fun mk => if !fits w mk.toList then none else showRes (loadWord s w m h mk)
    | "store", [v, k] | "store_atomic", [v, k] =>
      match num? v, maskArg k with
      | some v, some mk => if !fits w (v :: mk.toList) then none else showRes (storeWord s w m h v mk) true
      | _, _ => none
    | "cmpxchg", [o, n, k] =>
      match num? o, num? n, maskArg k with
      | some o, some n, some mk => if !fits w (o :: n :: mk.toList) then none else showCas (cmpxchgWord s w m h o n mk)
      | _, _, _ => none
    | "fetch_add", [v] => (num? v).bind fun v => if !fits w [v] then none else showRes (fetchAddWord s w m h v)
    | "fetch_sub", [v] => (num? v).bind fun v => if !fits w [v] then none else showRes (fetchSubWord s w m h v)
    | "fetch_and", [v] => (num? v).bind fun v => if !fits w [v] then none else showRes (fetchAndWord s w m h v)
    | "fetch_or", [v] => (num? v).bind fun v => if !fits w [v] then none else showRes (fetchOrWord s w m h v)
    | "fetch_update", kind :: rest =>
      let k := rest.head?.bind num?
      if !(fits w k.toList) then none else
      (upd kind k w).bind fun f => showCas (fetchUpdateWord s w m h f)
    | _, _ => none

/-- state = the window; returns new window and the output line. -/
def step (debug : Bool) (win : Win) (args : List String) : Win × String :=
  match args with
  | ["new", hx] =>
    match parseWin hx with
    | some w => (w, "ok")
    | none => (win, "bad-op")
  | op :: bo :: nb :: tb :: rest =>
    match int? bo, nb.toNat?, tb.toNat? with
    | some bo, some nb, some tb =>
      let s : Spec := { bitOffset := bo, numBits := nb }
      match exec debug s tb (toMem win) op rest with
      | some (m, out) => let w' := ofMem m; (w', out ++ " " ++ showWin w')
      | none => (win, "panic " ++ showWin win)
    | _, _, _ => (win, "bad-op")
  | _ => (win, "bad-op")

end Driver.Meta.Hdr
