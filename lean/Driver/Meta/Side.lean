import MmtkModel.Model.SideMetaSearch
import Driver.Util
/-!
# `side` component: the side-metadata accessors on a private window (C20–C22)

Mirrors `harness/src/comp/meta/side.rs` line for line (see that file for the protocol).
All data addresses on the wire are byte offsets from `dataBase`.
-/
namespace Driver.Meta.Side
open Mmtk.Mem Mmtk.SideMeta Driver

/-- `vvm::SIDE_METADATA_BASE` -/
def sideBase : Nat := 0x300000000000
/-- start of the private data area (64 chunks), below the heap start `0x200_0000_0000` -/
def dataBase : Nat := 0x1f000000000
def chunk : Nat := 0x400000
/-- the private metadata area: 4 chunks at `sideBase + 2 TiB`; chunks 1 and 2 are mapped. -/
def metaArea : Nat := sideBase + 0x20000000000
def metaLo : Nat := metaArea + chunk
def metaHi : Nat := metaArea + 3 * chunk
def guard : Nat := 16

structure Win where
  lo : Nat := 0
  hi : Nat := 0
  bytes : Array Nat := #[]

structure St where
  s1 : Spec := { start := 0, logBits := 0, logRegion := 3 }
  s2 : Option Spec := none
  d0 : Nat := 0
  n : Nat := 0
  dmap : Nat := 0
  w1 : Win := {}
  w2 : Win := {}
  ready : Bool := false

def Win.get (w : Win) (a : Nat) : Option Nat :=
  if w.lo ≤ a ∧ a < w.hi then some (w.bytes.getD (a - w.lo) 0) else none

def toMem (st : St) : Mem := fun a =>
  match st.w1.get a with
  | some b => b
  | none => match st.w2.get a with
    | some b => b
    | none => 0

def Win.ofMem (w : Win) (m : Mem) : Win :=
  { w with bytes := (Array.range (w.hi - w.lo)).map fun i => m (w.lo + i) }

def hex2 (n : Nat) : String :=
  let d := fun k : Nat => (if k < 10 then Char.ofNat (48 + k) else Char.ofNat (87 + k))
  String.ofList [d (n / 16 % 16), d (n % 16)]

def Win.hex (w : Win) : String := String.join (w.bytes.toList.map hex2)

def parseHexBytes (s : String) : Option (Array Nat) :=
  let rec go : List Char → List Nat → Option (List Nat)
    | a :: b :: rest, acc =>
      match hexDigit? a, hexDigit? b with
      | some x, some y => go rest ((x * 16 + y) :: acc)
      | _, _ => none
    | [], acc => some acc.reverse
    | _, _ => none
  (go s.toList []).map List.toArray

def hexNat (n : Nat) : String :=
  "0x" ++ String.ofList (Nat.toDigits 16 n)

/-- the window of a spec over the data range `[D0, D0 + n·R)`, with guards clipped to the mapped
metadata area; `none` if the window itself leaves the mapped area. -/
def window (s : Spec) (dStart dEnd : Nat) : Option Win :=
  let wlo := metaAddr s dStart
  let whi := metaAddr s dEnd + (if lshift s dEnd > 0 then 1 else 0)
  if wlo < metaLo ∨ whi > metaHi ∨ whi < wlo ∨ whi - wlo > 4096 then none else
  let glo := if wlo - guard < metaLo then metaLo else wlo - guard
  let ghi := if whi + guard > metaHi then metaHi else whi + guard
  some { lo := glo, hi := ghi, bytes := Array.replicate (ghi - glo) 0 }

/-- bytes of the harness's access type `T` -/
def tb (s : Spec) : Nat := if s.logBits ≤ 3 then 1 else tbytes s

def fits (s : Spec) (vs : List Nat) : Bool := vs.all (· < 256 ^ tb s)

def upd (s : Spec) (kind : String) (k : Option Nat) : Option (Nat → Option Nat) :=
  match kind, k with
  | "none", _ => some fun _ => none
  | "const", some c => some fun _ => some c
  | "add", some c => some fun x => some ((x + c) % 256 ^ tb s)
  | _, _ => none

def showRet : Ret → String
  | .val v => toString v
  | .unit => "-"
  | .res ok v => (if ok then "ok:" else "err:") ++ toString v

/-- parse an accessor line into an `Op` (absolute address). `none` = malformed / value does not fit `T`
(the harness panics while parsing). -/
def parseOp (s : Spec) (op : String) (args : List String) : Option Op :=
  match op, args with
  | "load", [a] => (num? a).map fun a => .load (dataBase + a)
  | "load_atomic", [a] => (num? a).map fun a => .loadAtomic (dataBase + a)
  | "set_zero", [a] => (num? a).map fun a => .setZero (dataBase + a)
  | "set_zero_atomic", [a] => (num? a).map fun a => .setZeroAtomic (dataBase + a)
  | "fetch_update", a :: kind :: rest =>
    match num? a with
    | none => none
    | some a =>
      let k := rest.head?.bind num?
      if !fits s k.toList then none else
      (upd s kind k).map fun f => .fetchUpdate (dataBase + a) f
  | "cmpxchg", [a, o, n] =>
    match num? a, num? o, num? n with
    | some a, some o, some n => if fits s [o, n] then some (.cmpxchg (dataBase + a) o n) else none
    | _, _, _ => none
  | _, [a, v] =>
    match num? a, num? v with
    | some a, some v =>
      if !fits s [v] then none else
      match op with
      | "store" => some (.store (dataBase + a) v)
      | "store_atomic" => some (.storeAtomic (dataBase + a) v)
      | "fetch_add" => some (.fetchAdd (dataBase + a) v)
      | "fetch_sub" => some (.fetchSub (dataBase + a) v)
      | "fetch_and" => some (.fetchAnd (dataBase + a) v)
      | "fetch_or" => some (.fetchOr (dataBase + a) v)
      | _ => none
    | _, _ => none
  | _, _ => none

def isAccessor (op : String) : Bool :=
  ["load", "load_atomic", "store", "store_atomic", "set_zero", "set_zero_atomic", "cmpxchg",
   "fetch_add", "fetch_sub", "fetch_and", "fetch_or", "fetch_update"].contains op

def commit (st : St) (m : Mem) : St := { st with w1 := st.w1.ofMem m, w2 := st.w2.ofMem m }

def doNew (args : List String) : St × String :=
  match args with
  | [lb, lr, off, d0, n, dmap, off2] =>
    match lb.toNat?, lr.toNat?, num? off, num? d0, num? n, num? dmap with
    | some lb, some lr, some off, some d0, some n, some dmap =>
      let s1 : Spec := { start := sideBase + off, logBits := lb, logRegion := lr }
      let dS := dataBase + d0
      let dE := dS + n * 2 ^ lr
      if lb > 6 ∨ lr < 3 ∨ lr > 22 ∨ d0 % 2 ^ lr ≠ 0 ∨ dE > dataBase + 64 * chunk ∨ off % 8 ≠ 0 then ({}, "bad-window") else
      match window s1 dS dE with
      | none => ({}, "bad-window")
      | some w1 =>
        let s2o : Option (Option Spec) :=
          if off2 == "-" then some none else (num? off2).map fun o => some { s1 with start := sideBase + o }
        match s2o with
        | none => ({}, "bad-op")
        | some s2 =>
          let w2o : Option Win := match s2 with
            | none => some {}
            | some sp => if sp.start % 8 ≠ 0 then none else window sp dS dE
          match w2o with
          | none => ({}, "bad-window")
          | some w2 =>
            if s2.isSome ∧ (w2.lo < w1.hi ∧ w1.lo < w2.hi) then ({}, "bad-window") else
            ({ s1 := s1, s2 := s2, d0 := d0, n := n, dmap := dmap % 2 ^ 64, w1 := w1, w2 := w2, ready := true },
             s!"ok {hexNat w1.lo} {hexNat w1.hi} {hexNat (dmap % 2 ^ 64)} 0x6")
    | _, _, _, _, _, _ => ({}, "bad-op")
  | _ => ({}, "bad-op")

def step (debug : Bool) (st : St) (args : List String) : St × String :=
  match args with
  | "new" :: rest => doNew rest
  | op :: rest =>
    if !st.ready then (st, "bad-op") else
    if op == "fill" ∨ op == "fill2" then
      match rest with
      | [hx] =>
        match parseHexBytes hx with
        | some b =>
          if op == "fill" then
            if b.size = st.w1.hi - st.w1.lo then ({ st with w1 := { st.w1 with bytes := b } }, "ok") else (st, "bad-op")
          else
            if st.s2.isSome ∧ b.size = st.w2.hi - st.w2.lo then ({ st with w2 := { st.w2 with bytes := b } }, "ok") else (st, "bad-op")
        | none => (st, "bad-op")
      | _ => (st, "bad-op")
    else if op == "dump" then
      (st, if st.s2.isSome then st.w1.hex ++ " " ++ st.w2.hex else st.w1.hex)
    else if op == "raw" then
      match rest.head?.bind num? with
      | some a =>
        if debug && st.s1.logBits ≥ 3 then (st, "panic " ++ st.w1.hex) else
        let st' := commit st (setRawByte st.s1 (toMem st) (dataBase + a))
        (st', "- " ++ st'.w1.hex)
      | none => (st, "bad-op")
    else if op == "addr" then
      match rest.head?.bind num? with
      | some a => (st, s!"{hexNat (metaAddr st.s1 (dataBase + a))} {lshift st.s1 (dataBase + a)}")
      | none => (st, "bad-op")
    else if op == "bbr" then
      match nums? rest with
      | some [sa, sb, ea, eb, fwd, stop] =>
        let l := breakBitRange sa sb ea eb (fwd == 1)
        let (ret, vis) := if stop = 0 ∨ stop > l.length then (false, l) else (true, l.take stop)
        let sh : BBR → String
          | .bytes x y => s!" B:{x}-{y}"
          | .bits x y z => s!" b:{x}:{y}-{z}"
        (st, showBool ret ++ String.join (vis.map sh))
      | _ => (st, "bad-op")
    else if op == "bzero" ∨ op == "bset" ∨ op == "bcopy" then
      match nums? rest with
      | some [a, sz] =>
        let m := toMem st
        let r : Option Mem :=
          if op == "bzero" then some (bzero st.s1 m (dataBase + a) sz)
          else if op == "bset" then some (bset st.s1 m (dataBase + a) sz)
          else match st.s2 with
            | none => none
            | some s2 => bcopy debug st.s1 s2 m (dataBase + a) sz
        match r with
        | some m' => let st' := commit st m'; (st', "- " ++ st'.w1.hex)
        | none => (st, "panic " ++ st.w1.hex)
      | _ => (st, "bad-op")
    else if op.startsWith "find_" ∨ op.startsWith "scan" then
      match nums? rest with
      | some [x, y] =>
        let env : MapEnv := {
          mapped := fun a =>
            if dataBase ≤ a ∧ a < dataBase + 64 * chunk then st.dmap.testBit ((a - dataBase) / chunk)
            else decide (metaLo ≤ a ∧ a < metaHi),
          gran := chunk }
        let m := toMem st
        let s := st.s1
        let a := dataBase + x
        let showO : Option Nat → String
          | some v => toString ((v + 2 ^ 64 - dataBase) % 2 ^ 64)
          | none => "none"
        let showF : Option (Option Nat) → String
          | some r => showO r
          | none => "panic:assert"
        let showL : Option (List Nat) → String
          | some l => s!"{l.length}:" ++ ",".intercalate (l.map fun v => toString ((v + 2 ^ 64 - dataBase) % 2 ^ 64))
          | none => "panic:assert"
        let out :=
          if op == "find_prev" then showF (findPrev debug env s m a y)
          else if op == "find_prev_fast" then showO (findPrevFast env s m a y)
          else if op == "find_prev_simple" then showO (findPrevSimple env s m a y)
          else if op == "find_next" then showF (findNext debug env s m a y)
          else if op == "find_next_fast" then showO (findNextFast env s m a y)
          else if op == "find_next_simple" then showO (findNextSimple env s m a y)
          else if op == "scan" then showL (scan debug env s m a (dataBase + y))
          else if op == "scan_fast" then showL (some (scanFast s m a (dataBase + y)))
          else if op == "scan_simple" then showL (scanSimple debug env s m a (dataBase + y))
          else "bad-op"
        (st, out)
      | _ => (st, "bad-op")
    else if isAccessor op then
      match parseOp st.s1 op rest with
      | none => (st, "panic " ++ st.w1.hex)
      | some o =>
        match stepImpl debug st.s1 (toMem st) o with
        | none => (st, "panic " ++ st.w1.hex)
        | some (m', r) =>
          match o with
          | .load _ | .loadAtomic _ => (st, showRet r)
          | _ => let st' := commit st m'; (st', showRet r ++ " " ++ st'.w1.hex)
    else (st, "bad-op")
  | [] => (st, "bad-op")

end Driver.Meta.Side
