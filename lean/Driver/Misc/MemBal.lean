import MmtkModel.Model.MemBalancer
import Driver.Util
/-! C38 `membal` component. The integer state machine is `Mmtk.MemBalancer`; the `f64` pipeline of
`compute_new_heap_limit` is reproduced here with Lean `Float` (IEEE binary64: `*`, `/`, `+`, `-`,
`sqrt`, `UInt64.toFloat` = `usize as f64`, `Float.toUInt64` = saturating `f64 as usize`) **only for
the differential**; the theorems quantify over its result. Floats cross the protocol as bit patterns. -/
namespace Driver.Misc.MemBal
open Mmtk.MemBalancer Driver

/-- `MemBalancerStats`' eight `f64` fields. -/
structure Stats where
  prev : Array (Option Float) := #[none, none, none, none]
  now : Array Float := #[0.0, 0.0, 0.0, 0.0]

inductive T where
  | mem (t : Trig) (s : Stats)
  | fixed (t : Fixed)

abbrev DState := Option T

def fbits (x : Float) : String :=
  let n := x.toBits.toNat
  "0x" ++ String.ofList (Nat.toDigits 16 n)

def obsMem (t : Trig) (s : Option Stats) : String :=
  let base := s!"cur={currentHeapSize t} max={maxHeapSize t} grow={showBool (canGrow t)} min={t.minPages} fmax={t.maxPages} fcur={t.current} pend={t.pending}"
  match s with
  | none => base
  | some s =>
    let p := s.prev.toList.map (fun o => match o with | none => "none" | some x => fbits x)
    let n := s.now.toList.map fbits
    base ++ " stats=" ++ joinWith "," p ++ "," ++ joinWith "," n

def obsFixed (t : Fixed) : String :=
  s!"cur={Fixed.currentHeapSize t} max={Fixed.maxHeapSize t} grow={showBool (Fixed.canGrow t)}"

-- constants by bit pattern (0.95, 0.5, 0.2, 1.0, 4096.0)
def cAllocSmooth : Float := Float.ofBits 0x3FEE666666666666
def cCollSmooth : Float := Float.ofBits 0x3FE0000000000000
def cTuning : Float := Float.ofBits 0x3FC999999999999A
def cOne : Float := Float.ofBits 0x3FF0000000000000
def c4096 : Float := Float.ofBits 0x40B0000000000000

/-- `prev.map(|p| p * factor + cur * (1.0 - factor)).unwrap_or(cur)` -/
def smooth (prev : Option Float) (cur factor : Float) : Float :=
  match prev with
  | some p => p * factor + cur * (cOne - factor)
  | none => cur

/-- `live as f64` for `live < 2^64`. -/
def u2f (n : Nat) : Float := (UInt64.ofNat n).toFloat

/-- the `f64` part of `compute_new_heap_limit`: returns `e as usize` and the rotated statistics. -/
def pipeline (s : Stats) (live : Nat) : Nat × Stats :=
  let allocMem := smooth s.prev[0]! s.now[0]! cAllocSmooth
  let allocTime := smooth s.prev[1]! s.now[1]! cAllocSmooth
  let gcMem := smooth s.prev[2]! s.now[2]! cCollSmooth
  let gcTime := smooth s.prev[3]! s.now[3]! cCollSmooth
  let s' : Stats := { prev := #[some s.now[0]!, some s.now[1]!, some s.now[2]!, some s.now[3]!],
                      now := #[0.0, 0.0, 0.0, 0.0] }
  let e : Float :=
    if allocMem != 0.0 && gcMem != 0.0 && allocTime != 0.0 && gcTime != 0.0 then
      let e := u2f live
      let e := e * (allocMem / allocTime)
      let e := e / cTuning
      let e := e / (gcMem / gcTime)
      e.sqrt
    else
      (u2f live * c4096).sqrt
  (e.toUInt64.toNat, s')

/-- which panic `computeNewHeapLimit = none` stands for: the checked sum comes first. -/
def panicKind (debug : Bool) (t : Trig) (live e extra : Nat) : String :=
  match optimalHeap debug live e extra t.pending with
  | none => "panic:overflow"
  | some _ => "panic:other"      -- `Ord::clamp`: "min > max. min = …" (no "assert" in the message)

def parseF (tok : String) : Option Float := (num? tok).map (fun n => Float.ofBits (UInt64.ofNat n))

def parseStats (toks : List String) : Option Stats :=
  match toks with
  | [a, b, c, d, e, f, g, h] =>
    let opt (t : String) : Option (Option Float) := if t == "none" then some none else (parseF t).map some
    match opt a, opt b, opt c, opt d, parseF e, parseF f, parseF g, parseF h with
    | some a, some b, some c, some d, some e, some f, some g, some h =>
      some { prev := #[a, b, c, d], now := #[e, f, g, h] }
    | _, _, _, _, _, _, _, _ => none
  | _ => none

def runEv (debug : Bool) (t : Trig) (s : Stats) (ev : Ev) : DState × String :=
  match step debug t ev with
  | some t' => (some (.mem t' s), obsMem t' none)
  | none => (none, "panic:other")

/-- one op; `none` state = no trigger (after a panic the history is over). -/
def run (debug : Bool) (st : DState) (args : List String) : DState × String :=
  match args, st with
  | ["new", a, b], _ =>
    match num? a, num? b with
    | some a, some b => let t := new a b; (some (.mem t {}), obsMem t (some {}))
    | _, _ => (st, "bad-op")
  | ["newfixed", a], _ =>
    match num? a with
    | some a => (some (.fixed ⟨a⟩), obsFixed ⟨a⟩)
    | none => (st, "bad-op")
  | _, none => (none, "no-trigger")
  | "stats" :: toks, some (.mem t _) =>
    match parseStats toks with
    | some s => (some (.mem t s), obsMem t (some s))
    | none => (st, "bad-op")
  | ["pending", p], some (.mem t s) =>
    match num? p with
    | some p => runEv debug t s (.pending p)
    | none => (st, "bad-op")
  | ["pending", p], some (.fixed f) =>
    match num? p with
    | some p => let f' := Fixed.step f (.pending p); (some (.fixed f'), obsFixed f')
    | none => (st, "bad-op")
  | ["compute", l, x], some (.mem t s) =>
    match num? l, num? x with
    | some live, some extra =>
      let (e, s') := pipeline s live
      match computeNewHeapLimit debug t live e extra with
      | some t' => (some (.mem t' s'), obsMem t' (some s'))
      | none => (none, panicKind debug t live e extra)
    | _, _ => (st, "bad-op")
  -- Real handlers on a non-generational plan with 0 reserved pages (`live = extra = 0`).
  -- on_gc_start: `allocation_time += …` (wall clock; normalised to 0 by the harness),
  --   `allocation_pages = reserved.saturating_sub(gc_end_live_pages) as f64 = 0`.
  | ["ev_start"], some (.mem t s) =>
    let s1 : Stats := { s with now := (s.now.set! 0 0.0).set! 1 0.0 }
    match step debug t .gcStart with
    | some t' => (some (.mem t' s1), obsMem t' (some s1))
    | none => (none, "panic:other")
  -- on_gc_release: `gc_release_live_pages = reserved` only.
  | ["ev_release"], some (.mem t s) =>
    match step debug t .gcRelease with
    | some t' => (some (.mem t' s), obsMem t' (some s))
    | none => (none, "panic:other")
  -- on_gc_end: `collection_time += …` (wall clock), `collection_pages = reserved as f64 = 0`, then
  --   `compute_new_heap_limit(0, 0, stats)`: `e = sqrt(0 · …)` is `±0` or NaN whatever the statistics
  --   are, so `e as usize = 0`; statistics rotate; `collection_time_prev` normalised to 0 by the harness.
  | ["ev_end"], some (.mem t s) =>
    let s1 : Stats := { s with now := s.now.set! 2 0.0 }
    let (_, s2) := pipeline s1 0
    let s3 : Stats := { s2 with prev := s2.prev.set! 3 (some 0.0) }
    match step debug t (.gcEnd (some (0, 0, 0))) with
    | some t' => (some (.mem t' s3), obsMem t' (some s3))
    | none => (none, panicKind debug t 0 0 0)
  | ["ev_start"], some (.fixed f) => (some (.fixed (Fixed.step f .gcStart)), obsFixed (Fixed.step f .gcStart))
  | ["ev_release"], some (.fixed f) => (some (.fixed (Fixed.step f .gcRelease)), obsFixed (Fixed.step f .gcRelease))
  | ["ev_end"], some (.fixed f) => (some (.fixed (Fixed.step f (.gcEnd none))), obsFixed (Fixed.step f (.gcEnd none)))
  | ["obs"], some (.mem t _) => (st, obsMem t none)
  | ["obs"], some (.fixed f) => (st, obsFixed f)
  | _, _ => (st, "bad-op")

end Driver.Misc.MemBal
