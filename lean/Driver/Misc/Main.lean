import Driver.Util
import Driver.Misc.Bins
import Driver.Misc.MemBal
import Driver.Misc.Xducer
import Driver.Misc.Opts
/-! package `Misc` (see CONVENTIONS.md): register components in `step`.
`cfg` lines this package cares about may be matched here too (they must answer "ok");
every package sees every `cfg` line. -/
namespace Driver.Misc
open Driver

structure St where
  debug : Bool := true
  membal : MemBal.DState := none
  opts : Opts.DState := {}

/-- `none` = not a component of this package. -/
def step (st : St) (toks : List String) : Option (St × String) :=
  match toks with
  | "bins" :: args => some (st, Bins.run st.debug args)
  | "opts" :: args =>
    let (o, out) := Opts.run st.opts args
    some ({ st with opts := o }, out)
  | "xducer" :: args => some (st, Xducer.run args)
  | "membal" :: args =>
    let (m, o) := MemBal.run st.debug st.membal args
    some ({ st with membal := m }, o)
  | _ => none

/-- `cfg` lines are broadcast to every package. -/
def cfg (st : St) (toks : List String) : St :=
  match toks with
  | ["debug", v] => { st with debug := v == "1" }
  | "opts_env" :: _ => { st with opts := Opts.cfg st.opts toks }
  | _ => st

end Driver.Misc
