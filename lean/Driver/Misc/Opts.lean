import MmtkModel.Model.Opts
import Driver.Util
/-! C39 `opts` component: prints exactly what `harness/src/comp/misc/opts.rs` prints. -/
namespace Driver.Misc.Opts
open Mmtk.Opts Driver

structure DState where
  env : Env := {}
  opts : Options := defaults (table {})

def hexVal (c : Char) : Nat := (hexDigit? c).getD 0

/-- `x<hex of UTF-8>` → string -/
def unhex (tok : String) : Option (List Char) :=
  match tok.toList with
  | 'x' :: h =>
    let rec go : List Char → ByteArray → ByteArray
      | a :: b :: rest, acc => go rest (acc.push (UInt8.ofNat (hexVal a * 16 + hexVal b)))
      | _, acc => acc
    (String.fromUTF8? (go h ByteArray.empty)).map String.toList
  | _ => none

def fbits (x : Float) : String := "0x" ++ String.ofList (Nat.toDigits 16 x.toBits.toNat)

/-- `f64::from_str` on the decimal fragment: the correctly rounded value -/
def decToFloat (d : Dec) : Float :=
  let f := Float.ofScientific d.mant true d.frac
  if d.neg then -f else f

def showList (l : List Nat) : String := joinWith ";" (l.map toString)

def showNursery : Nursery → String
  | .bounded a b => s!"Bounded({a};{b})"
  | .proportional a b => s!"Prop({fbits (decToFloat a)};{fbits (decToFloat b)})"
  | .fixed n => s!"Fixed({n})"

def showTrigger : Trigger → String
  | .fixed n => s!"Fixed({n})"
  | .dynamic a b => s!"Dynamic({a};{b})"
  | .delegated => "Delegated"

def showAffinity : Affinity → String
  | .osDefault => "OsDefault"
  | .roundRobin l => s!"RoundRobin[{showList l}]"
  | .allInSet l => s!"AllInSet[{showList l}]"

def showVal (name : String) : Val → String
  | .usize n => toString n
  | .bool b => showBool b
  | .enum i => (if name == "plan" then planNames else zeroingNames).getD i "?"
  | .nursery n => showNursery n
  | .affinity a => showAffinity a
  | .trigger t => showTrigger t
  | .perf l => s!"Perf[{l.length}]"

def dump (o : Options) : String := joinWith " " (o.map (fun kv => s!"{kv.1}={showVal kv.1 kv.2}"))

def run (st : DState) (args : List String) : DState × String :=
  let tbl := table st.env
  match args with
  | ["env"] =>
    let e := st.env
    (st, s!"ncpus={e.numCpus} threads={e.defaultThreads} heap={e.defaultHeap} perf={showBool e.perfCounter} wps={showBool (e.perfCounter && e.workPacketStats)} linux={showBool e.linux}")
  | ["reset"] => let o := defaults tbl; ({ st with opts := o }, dump o)
  | ["set", k, v] =>
    match unhex k, unhex v with
    | some k, some v =>
      let (r, o) := setFromString tbl st.opts k v
      ({ st with opts := o }, s!"{showBool r} {dump o}")
    | _, _ => (st, "bad-op")
  | ["bulk", s] =>
    match unhex s with
    | some s =>
      match setBulkFromString tbl st.opts s with
      | .ret b o => ({ st with opts := o }, s!"{showBool b} {dump o}")
      | .panic o => ({ st with opts := o }, s!"panic {dump o}")
    | none => (st, "bad-op")
  | ["trigger", s] => (st, match (unhex s).bind triggerFromStr with | some t => showTrigger t | none => "err")
  | ["nursery", s] => (st, match (unhex s).bind nurseryFromStr with | some t => showNursery t | none => "err")
  | ["cpulist", s] => (st, match (unhex s).bind parseCpulist with | some t => showAffinity t | none => "err")
  | _ => (st, "bad-op")

/-- `cfg opts_env <ncpus> <threads> <heap> <perf> <wps> <linux>` -/
def cfg (st : DState) (toks : List String) : DState :=
  match toks with
  | ["opts_env", a, b, c, d, e, f] =>
    match num? a, num? b, num? c with
    | some a, some b, some c =>
      let env : Env := { numCpus := a, defaultThreads := b, defaultHeap := c, perfCounter := d == "true",
                         workPacketStats := e == "true", linux := f == "true" }
      { env, opts := defaults (table env) }
    | _, _, _ => st
  | _ => st

end Driver.Misc.Opts
