import MmtkModel.Model.Compressor
import Driver.Util
/-! C37 `xducer` component: prints exactly what `harness/src/comp/misc/xducer.rs` prints.
The region start is an arbitrary 1 MiB-aligned address (outputs are relative to it). -/
namespace Driver.Misc.Xducer
open Mmtk.Compressor Driver

def regionBytes : Nat := 1048576
def regionStart : Nat := 16 * 1048576

def showList (xs : List Nat) : String :=
  if xs.isEmpty then "-" else joinWith "," (xs.map toString)

/-- pairs `(s_i, n_i)` from a flat list -/
def pairs : List Nat → List (Nat × Nat)
  | s :: n :: rest => (s, n) :: pairs rest
  | _ => []

/-- forwarding addresses (relative to the region start) of the object starts of ONE region whose
offset vector was calculated up to `cursorBlocks`; the model's offset vector is per region (a
calculation only produces entries of blocks below its cursor, `calcBlocks_getD`). -/
def fwdOf (cursorBlocks : Nat) (objsW : List (Nat × Nat)) : List String :=
  let words := regionBytes / 8
  let R := regionStart
  let bits : Array Bool := objsW.foldl (fun (a : Array Bool) o => (a.set! o.1 true).set! (o.1 + o.2 - 1) true)
    (Array.replicate words false)
  let bit : Nat → Bool := fun a => if a < R then false else bits.getD ((a - R) / 8) false
  let ov := calculateOffsetVector bit R (R + cursorBlocks * 512)
  let rel := fun (a : Nat) => if a < R then "stale" else toString (a - R)
  objsW.map (fun o => rel (forward ov bit R (R + 8 * o.1)))

/-- `xducer run2 <nA> <sA nA>… <cbB> <nB> <sB nB>…`: full region A, adjacent region B. -/
def run2 (rest : List String) : String :=
  match nums? rest with
  | none => "bad-op"
  | some n =>
    match n with
    | [] => "bad-op"
    | na :: t =>
      if t.length < 2 * na + 2 then "bad-op" else
      let a := pairs (t.take (2 * na))
      let t2 := t.drop (2 * na)
      let cb := t2[0]!
      let nb := t2[1]!
      let t3 := t2.drop 2
      if t3.length != 2 * nb || cb * 512 > regionBytes then "bad-op" else
      let b := pairs t3
      let words := regionBytes / 8
      if (a ++ b).any (fun o => o.2 == 0 || o.1 + o.2 > words) then "bad-op" else
      let strs := fun (l : List String) => if l.isEmpty then "-" else joinWith "," l
      s!"fwdA={strs (fwdOf 2048 a)} fwdB={strs (fwdOf cb b)}"

def run (args : List String) : String :=
  match args with
  | "run2" :: rest => run2 rest
  | "run" :: rest =>
    if rest.length < 2 then "bad-op" else
    match nums? rest with
    | none => "bad-op"
    | some n =>
      let cursorBlocks := n[0]!
      let nobj := n[1]!
      if n.length < 2 + 2 * nobj || cursorBlocks * 512 > regionBytes then "bad-op" else
      let objsW := pairs ((n.drop 2).take (2 * nobj))
      let probes := n.drop (2 + 2 * nobj)
      let words := regionBytes / 8
      if objsW.any (fun o => o.2 == 0 || o.1 + o.2 > words) || probes.any (· ≥ words) then "bad-op" else
      let R := regionStart
      -- the bitmap as memory holds it: a set of marked word addresses (an array of booleans)
      let objs := objsW.map (fun o => (R + 8 * o.1, 8 * o.2))
      let bits : Array Bool := objsW.foldl (fun (a : Array Bool) o => (a.set! o.1 true).set! (o.1 + o.2 - 1) true)
        (Array.replicate words false)
      let bit : Nat → Bool := fun a => if a < R then false else bits.getD ((a - R) / 8) false
      let _ := objs
      let cursor := R + cursorBlocks * 512
      let ov := calculateOffsetVector bit R cursor
      let rel := fun (a : Nat) => if a < R then "stale" else toString (a - R)
      let strs := fun (l : List String) => if l.isEmpty then "-" else joinWith "," l
      let f := objsW.map (fun o => rel (forward ov bit R (R + 8 * o.1)))
      let p := probes.map (fun w => rel (forward ov bit R (R + 8 * w)))
      s!"ov={showList (ov.map (· - R))} fwd={strs f} probe={strs p}"
  | _ => "bad-op"

end Driver.Misc.Xducer
