import MmtkModel.Model.MsBins
import Driver.Util
/-! C35 `bins` component: prints exactly what `harness/src/comp/misc/bins.rs` prints. -/
namespace Driver.Misc.Bins
open Mmtk.MsBins Mmtk.Gen.Bins Driver

/-- run-length encoding `tok*count,…` -/
def rle (toks : List String) : String :=
  let rec go : List String → Option (String × Nat) → List String → List String
    | [], none, acc => acc.reverse
    | [], some (t, n), acc => (s!"{t}*{n}" :: acc).reverse
    | x :: xs, none, acc => go xs (some (x, 1)) acc
    | x :: xs, some (t, n), acc => if x == t then go xs (some (t, n + 1)) acc else go xs (some (x, 1)) (s!"{t}*{n}" :: acc)
  joinWith "," (go toks none [])

def showInt (i : Int) : String := if i < 0 then s!"-{(-i).toNat}" else toString i.toNat

/-- arithmetic runs `first:stride:count,…` (greedy, as in the harness) -/
partial def runs (xs : Array Nat) : String :=
  let rec go (i : Nat) (acc : List String) : List String :=
    if i ≥ xs.size then acc.reverse
    else if i + 1 == xs.size then (s!"{xs[i]!}:0:1" :: acc).reverse
    else
      let d : Int := (xs[i+1]! : Int) - (xs[i]! : Int)
      let rec ext (j : Nat) : Nat :=
        if j + 1 < xs.size && ((xs[j+1]! : Int) - (xs[j]! : Int) == d) then ext (j + 1) else j
      let j := ext (i + 1)
      go (j + 1) (s!"{xs[i]!}:{showInt d}:{j - i + 1}" :: acc)
  let r := go 0 []
  if r.isEmpty then "-" else joinWith "," r

/-- panic kind of `mi_bin` when the model says `none` (debug only): the alignment helper's assertion
comes first, then the size-class assertion. -/
def binStr (debug : Bool) (size align : Nat) : String :=
  match miBin debug size align with
  | some b => toString b
  | none =>
    match Mmtk.Arith.maxAlignedSize vm debug size align vm.minAlign with
    | none =>
      if debug && !(size == (size &&& Mmtk.Arith.wnot (vm.minAlign - 1))) then "panic:assert" else "panic:overflow"
    | some _ => "panic:assert"

def fromSizeStr (debug : Bool) (size : Nat) : String :=
  match miBinFromSize debug size with
  | some b => toString b
  | none => "panic:assert"

/-- `FreeListAllocator::alloc` on a fresh allocator: `mi_bin`, `available_blocks[bin]` (index out of
bounds past the table), fresh block → `init_block(block, available_blocks[bin].size)`, `block_alloc`
pops the head, `align_allocation(cell, align, offset = 0)`. Offsets relative to the block start
(blocks are `Block::BYTES`-aligned, which is a multiple of every legal alignment). -/
def block (debug : Bool) (size align : Nat) : String :=
  -- `memory_manager::alloc` → `assert_allocation_args` (debug): `size >= MIN_OBJECT_SIZE` (one word),
  -- `MIN_ALIGNMENT <= align <= MAX_ALIGNMENT`
  if debug && !(size ≥ intptrSize && align ≥ minAlign && align ≤ maxAlign) then "panic:assert" else
  -- `debug_assert!(size <= MAX_BIN_SIZE, "Alloc request for {} bytes is too big.")` (custom message)
  if debug && !(size ≤ maxBinSize) then "panic:other" else
  match miBin debug size align with
  | none => "panic:assert"
  | some b =>
    if b ≥ binSizes.length then "panic:oob" else
    let cs := binSize b
    -- a block never starts at address 0 (`Block` holds a `NonZeroUsize`); any aligned start will do
    let start := blockBytes
    let (stores, head) := initBlock start cs
    let cells := (walk stores (stores.length + 1) head).map (· - start)
    match cells with
    | [] => "null"
    | cell :: free =>
      match Mmtk.Arith.alignAllocation vm debug cell align 0 vm.minAlign with
      | none => "panic:assert"
      | some res =>
        if debug && !(res + size ≤ cell + cs) then "panic:assert" else
        s!"cs={cs} res={res} nfree={free.length} free={runs free.toArray} zero=true startmod=0"

def run (debug : Bool) (args : List String) : String :=
  match args with
  | [] => "bad-op"
  | op :: rest =>
    match nums? rest with
    | none => "bad-op"
    | some n =>
      match op, n with
      | "consts", [] =>
        s!"{maxBin} {binFull} {maxBinSize} {largeObjSizeMax} {blockBytes} {intptrSize} {minAlign} {maxAlign}"
      | "table", [] => joinWith " " (binSizes.map toString)
      | "from_size", [s] => fromSizeStr debug s
      | "bin", [s, a] => binStr debug s a
      | "scanfs", [lo, hi] => rle ((List.range (hi + 1 - lo)).map (fun i => fromSizeStr debug (lo + i)))
      | "scan", [a, lo, hi] => rle ((List.range (hi + 1 - lo)).map (fun i => binStr debug (lo + i) a))
      | "block", [s, a] => block debug s a
      | _, _ => "bad-op"

end Driver.Misc.Bins
