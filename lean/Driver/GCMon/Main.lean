import Driver.Util
import Driver.GCMon.Monitor
/-! package `gcmon` (whole-collector monitors; see GCRUN.md): register components in `step`.
`St` carries the state of every component of the package; packages built on top of the snapshot
monitor (C05–C08, C12, C13) add their fields here and their cases to `step`. -/
namespace Driver.GCMon.Pkg
open Driver

structure St where
  gcm : Driver.GCMon.St := {}

/-- `none` = not a component of this package. -/
def step (st : St) (toks : List String) : Option (St × String) :=
  match toks with
  | "gcm" :: args =>
    let (s, o) := Driver.GCMon.step st.gcm args
    some ({ st with gcm := s }, o)
  | _ => none

/-- `cfg` lines are broadcast to every package. -/
def cfg (st : St) (_toks : List String) : St := st

end Driver.GCMon.Pkg
