import MmtkModel.Model.Heap
import MmtkModel.Model.Snap
import Driver.Util
/-!
# `gcm`: the snapshot monitor for whole-collector traces (C01, C02, C03, C04, C09)

Fed the transcript of one `hx_gc` process: `gcm op <hx_gc op line>` then `gcm res <hx_gc result line>`
(API and verdict keys: GCRUN.md). Answers one line per input line: `ok` or `viol <key> <detail>` for the
FIRST property clause broken at that point. All graph / interval / snapshot logic lives in
`MmtkModel.Model.Heap` and `MmtkModel.Model.Snap` (the functions the theorems of Props/C01…C09 are
about); this file parses lines and threads the state.
-/
namespace Driver.GCMon
open Driver Mmtk.Heap

structure St where
  heap : Heap := {}
  pending : List String := []
  plan : String := ""
  heapBytes : Nat := 0
  refoff : Nat := 8
  moves : Bool := true
  collects : Bool := true
  vobit : Bool := true
  /-- semantics name → space name (trailing digits stripped), from the last `allocmap` -/
  allocmap : List (String × String) := []
  gcs : Nat := 0
  /-- last observed reference per id (0 = never seen) -/
  lastRef : Array Nat := #[]
  /-- space the object was allocated in, per id -/
  spaces : Array String := #[]
  /-- allocations since the last pause -/
  fresh : List Iv := []
  /-- objects of the last snapshot (valid while no pause happened since) -/
  snapIvs : List Iv := []
  /-- C09 mode: a `stats` that follows `gc _ 1` with no mutator op in between is a floor sample -/
  c09 : Bool := false
  warm : Nat := 3
  slack : Nat := 0
  lastGcExh : Bool := false
  fl : Floor := {}

def dropStr (s : String) (n : Nat) : String := String.ofList (s.toList.drop n)

def kvGet (toks : List String) (k : String) : Option String :=
  let p := k ++ "="
  (toks.find? (·.startsWith p)).map (dropStr · p.length)

def kvNum (toks : List String) (k : String) : Option Nat := (kvGet toks k).bind num?

def stripDigits (s : String) : String :=
  String.ofList (s.toList.reverse.dropWhile Char.isDigit).reverse

def semOf? : String → Option Sem
  | "Default" => some .default | "Immortal" => some .immortal | "Los" => some .los
  | "Code" => some .code | "ReadOnly" => some .readOnly | "LargeCode" => some .largeCode
  | "NonMoving" => some .nonMoving | _ => none

def idOrNull? (s : String) : Option (Option Id) :=
  if s == "null" || s == "-" then some none else (num? s).map some

def sval (s : String) : SVal :=
  if s == "-" then .null
  else match s.toNat? with
    | some n => .id n
    | none => .bad

def parseRoots (s : String) : Option (List (Nat × SVal)) :=
  match s.splitOn "|" with
  | [mr, vr] =>
    let one (e : String) : Option (Nat × SVal) :=
      match e.splitOn ":" with
      | [k, v] =>
        match k.splitOn "." with
        | ["vm", n] => n.toNat?.map fun n => (vmKey n, sval v)
        | [m, sl] => match m.toNat?, sl.toNat? with
          | some m, some sl => some (mutKey m sl, sval v)
          | _, _ => none
        | _ => none
      | _ => none
    let l (x : String) := if x.isEmpty then some [] else (x.splitOn ",").mapM one
    match l mr, l vr with
    | some a, some b => some (a ++ b)
    | _, _ => none
  | _ => none

def parseObj (e : String) : Option SObj :=
  match e.splitOn ":" with
  | [i, r, sz, l, hk, fs] =>
    match i.toNat?, parseHex? r, sz.toNat? with
    | some i, some r, some sz =>
      some { id := i, ref := r, size := sz, letter := l.toList.headD '?', hashok := hk == "1" && fs != "!shape",
             fields := if fs.isEmpty then [] else (fs.splitOn "/").map sval }
    | _, _, _ => none
  | _ => none

def parseSnap (toks : List String) : Option Snap :=
  match toks with
  | "snap" :: rest =>
    match kvNum rest "gcs", kvGet rest "roots" with
    | some g, some rs =>
      let os := (kvGet rest "objs").getD ""
      match parseRoots rs, (if os.isEmpty then some [] else (os.splitOn ";").mapM parseObj) with
      | some r, some o => some { gcs := g, roots := r, objs := o }
      | _, _ => none
    | _, _ => none
  | _ => none

def noteGcs (st : St) (n : Nat) : St :=
  if n == st.gcs then st else { st with gcs := n, fresh := [], snapIvs := [] }

def viol (k d : String) : String := s!"viol {k} {d}"

def neverDies (st : St) (i : Id) : Bool :=
  !st.collects || (match st.spaces[i]? with
    | some s => s == "immortal" || s == "code_space" || s == "large_code_space" || s == "ro_space" || s == "vm_space"
    | none => false)

def fixedObj (st : St) (i : Id) : Bool :=
  !st.moves || (match st.heap.objs[i]? with
    | some o => o.sem != .default || o.pinned
    | none => false)

/-- apply a shadow-heap op; an ill-formed op is a defect of the program, not of the collector -/
def shadow (st : St) (op : Op) : St × String :=
  match applyOp st.heap op with
  | some h => ({ st with heap := h }, "ok")
  | none => (st, viol "prog:ill-formed" (reprStr op))

def doAlloc (st : St) (op res : List String) : St × String :=
  match op with
  | _ :: m :: id :: nf :: payload :: align :: offset :: sem :: slot :: _ =>
    match num? m, num? id, num? nf, num? payload, num? align, num? offset, semOf? sem, num? slot with
    | some m, some id, some nf, some payload, some align, some offset, some sm, some slot =>
      if res.head? == some "null" then
        let st := match applyOp st.heap (.allocFail id) with
          | some h => { st with heap := h, lastRef := st.lastRef.push 0, spaces := st.spaces.push "" }
          | none => st
        (st, if (kvNum res "oom").isSome then viol "gc:oom" s!"alloc id={id} returned null after out_of_memory"
             else viol "gc:null-no-oom" s!"alloc id={id} returned null without out_of_memory")
      else
      match kvNum res "a", kvNum res "r", kvNum res "sz", kvGet res "space", kvNum res "zero", kvNum res "inmmtk" with
      | some a, some r, some sz, some space, some zero, some inmmtk =>
        let want := (st.allocmap.lookup sem).getD "?"
        let iv : Iv := { start := a, size := sz, id := id }
        let st1 := { st with lastGcExh := false }
        match checkAlloc st.refoff nf payload align offset want
            { a, r, sz, zero := zero == 1, inmmtk := inmmtk == 1, space := stripDigits space } with
        | some k => (st1, viol k s!"id={id} a={a} r={r} sz={sz} requested={sizeFor st.refoff nf payload} align={align} offset={offset} sem={sem} space={space} allocmap={want}")
        | none =>
          match allocClash st.heap st.fresh st.snapIvs iv with
          | some (true, y) => (st1, viol "gc:overlap-fresh" s!"id={id} [{a},+{sz}) intersects id={y.id} [{y.start},+{y.size}) allocated since the last pause")
          | some (false, y) => (st1, viol "gc:overlap-live" s!"id={id} [{a},+{sz}) intersects reachable id={y.id} [{y.start},+{y.size})")
          | none =>
            match applyOp st.heap (.alloc (mutKey m slot) id nf sz sm) with
            | none => (st1, viol "prog:ill-formed" s!"alloc id={id} (ids must be dense: next={st.heap.objs.size})")
            | some h =>
              ({ st1 with heap := h, lastRef := st.lastRef.push r, spaces := st.spaces.push space,
                          fresh := iv :: st.fresh }, "ok")
      | _, _, _, _, _, _ => (st, viol "prog:parse" "alloc result")
    | _, _, _, _, _, _, _, _ => (st, viol "prog:parse" "alloc op")
  | _ => (st, viol "prog:parse" "alloc op")

def doSnap (st : St) (res : List String) : St × String :=
  match parseSnap res with
  | none => (st, viol "prog:parse" "snap result")
  | some s =>
    let ivs := snapIvs st.refoff s
    let verdict : Option (String × String) :=
      match checkSnap st.heap s with
      | some e => some e
      | none =>
        match firstMoved (fixedObj st) st.lastRef s.objs with
        | some o => some ("gc:moved", s!"id={o.id} was at {st.lastRef.getD o.id 0} now at {o.ref}")
        | none =>
          if noOverlap ivs then none
          else match firstAdjacentClash (ivs.mergeSort ivLe) with
            | some (a, b) => some ("gc:overlap-snap", s!"id={a.id} [{a.start},+{a.size}) and id={b.id} [{b.start},+{b.size})")
            | none => some ("gc:overlap-snap", "?")
    let lastRef := s.objs.foldl (fun a o => a.setIfInBounds o.id o.ref) st.lastRef
    ({ st with lastRef := lastRef, snapIvs := ivs },
      match verdict with
      | some (k, d) => viol k d
      | none => "ok")

def doStats (st : St) (res : List String) : St × String :=
  match kvNum res "used" with
  | none => (st, viol "prog:parse" "stats result")
  | some used =>
    if st.c09 && st.lastGcExh then
      let (f, ok) := floorStep st.warm st.slack st.fl used
      let st := { st with lastGcExh := false, fl := f }
      if ok then (st, "ok")
      else (st, viol "gc:floor" s!"cycle={f.samples} used={used} floor={f.floor} slack={st.slack}")
    else (st, "ok")

def parseAllocmap (toks : List String) : List (String × String) :=
  toks.filterMap fun t =>
    match t.splitOn "=" with
    | [sem, rhs] => match rhs.splitOn "@" with
      | [_, sp] => some (sem, stripDigits sp)
      | _ => none
    | _ => none

def isOkish (res : List String) : Bool :=
  match res with
  | "ok" :: _ => true | "true" :: _ => true | "false" :: _ => true
  | _ => false

/-- one (op, result) pair -/
def pair (st : St) (op res : List String) : St × String :=
  let st := match kvNum res "gcs" with
    | some n => noteGcs st n
    | none => st
  match res with
  | "timeout" :: _ => (st, viol "gc:timeout" (" ".intercalate op))
  | "fatal" :: _ => (st, viol "gc:panic" (" ".intercalate op))
  | [] => (st, viol "gc:crash" (" ".intercalate op))
  | r0 :: _ =>
  if r0.startsWith "crash:" then (st, viol "gc:crash" (" ".intercalate op ++ " " ++ r0))
  else if r0.startsWith "panic:" then
    (st, viol (if op.head? == some "pin" || op.head? == some "unpin" then "gc:pin-panics" else "gc:panic-op") (" ".intercalate op))
  else if r0 == "err" || r0 == "bad-op" then (st, viol "prog:err" (" ".intercalate (op ++ "->" :: res)))
  else
  match op with
  | ["cfg", "plan", p] => ({ st with plan := p }, "ok")
  | ["cfg", "heap", n] => ({ st with heapBytes := (num? n).getD 0 }, "ok")
  | "constraints" :: _ =>
    ({ st with refoff := (kvNum res "refoff").getD st.refoff, moves := (kvNum res "moves").getD 1 == 1,
               collects := (kvNum res "collects").getD 1 == 1, vobit := (kvNum res "vobit").getD 1 == 1 }, "ok")
  | "allocmap" :: _ => ({ st with allocmap := parseAllocmap res }, "ok")
  | "alloc" :: _ => doAlloc st op res
  | "alloco" :: _ => doAlloc st op res
  | ["root", m, sl, v] =>
    match num? m, num? sl, idOrNull? v with
    | some m, some sl, some v => shadow { st with lastGcExh := false } (.root (mutKey m sl) v)
    | _, _, _ => (st, viol "prog:parse" "root")
  | ["vmroot", k, v] =>
    match num? k, idOrNull? v with
    | some k, some v => shadow { st with lastGcExh := false } (.root (vmKey k) v)
    | _, _ => (st, viol "prog:parse" "vmroot")
  | ["write", _, src, f, v] =>
    match num? src, num? f, idOrNull? v with
    | some src, some f, some v => shadow { st with lastGcExh := false } (.write src f v)
    | _, _, _ => (st, viol "prog:parse" "write")
  | ["copyrange", _, s, sf, d, df, n] =>
    match nums? [s, sf, d, df, n] with
    | some [s, sf, d, df, n] => shadow st (.copyrange s sf d df n)
    | _ => (st, viol "prog:parse" "copyrange")
  | ["destroy", m] =>
    match num? m with
    | some m => shadow st (.destroy m)
    | none => (st, viol "prog:parse" "destroy")
  | ["mkref", i] =>
    match num? i with
    | some i => shadow st (.mkref i)
    | none => (st, viol "prog:parse" "mkref")
  | ["pin", i] =>
    match num? i with
    | some i => if isOkish res then shadow st (.pin i true) else (st, "ok")
    | none => (st, viol "prog:parse" "pin")
  | ["unpin", i] =>
    match num? i with
    | some i => if isOkish res then shadow st (.pin i false) else (st, "ok")
    | none => (st, viol "prog:parse" "unpin")
  | ["gc", _, e] => ({ st with lastGcExh := e == "1" }, "ok")
  | "snap" :: _ => doSnap st res
  | "stats" :: _ => doStats st res
  | ["ismo", a] =>
    match num? a with
    | some a =>
      match st.lastRef.findIdx? (· == a) with
      | some i =>
        if a != 0 && st.vobit && neverDies st i && res != [toString i] then
          (st, viol "gc:immortal-died" s!"id={i} at {a}: is_mmtk_object answers {" ".intercalate res}")
        else (st, "ok")
      | none => (st, "ok")
    | none => (st, "ok")
  | _ => (st, "ok")

/-- the component: `gcm reset | mode c09 <warm> <slack> | op … | res …` -/
def step (st : St) (args : List String) : St × String :=
  match args with
  | ["reset"] => ({}, "ok")
  | ["mode", "c09", w, s] => ({ st with c09 := true, warm := (num? w).getD 3, slack := (num? s).getD 0 }, "ok")
  | "op" :: toks => if toks.isEmpty then (st, viol "prog:parse" "empty op") else ({ st with pending := toks }, "ok")
  | "res" :: toks =>
    if st.pending.isEmpty then (st, viol "prog:no-op" "result without an op")
    else
      let (st', o) := pair st st.pending toks
      ({ st' with pending := [] }, o)
  | _ => (st, "bad-op")

end Driver.GCMon
