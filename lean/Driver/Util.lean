/-!
# Line-protocol helpers for the model driver (no Mathlib, links as an executable)
-/
namespace Driver

def hexDigit? (c : Char) : Option Nat :=
  if '0' ≤ c ∧ c ≤ '9' then some (c.toNat - '0'.toNat)
  else if 'a' ≤ c ∧ c ≤ 'f' then some (c.toNat - 'a'.toNat + 10)
  else if 'A' ≤ c ∧ c ≤ 'F' then some (c.toNat - 'A'.toNat + 10)
  else none

def parseHex? (s : String) : Option Nat :=
  if s.isEmpty then none else
  s.toList.foldl (fun acc c => match acc, hexDigit? c with
    | some a, some d => some (a * 16 + d)
    | _, _ => none) (some 0)

/-- Parse a u64 token: decimal, `0x` hex, or `-n` (two's complement). -/
def num? (s : String) : Option Nat :=
  if s.startsWith "0x" then parseHex? (s.drop 2).toString
  else if s.startsWith "-" then (s.drop 1).toString.toNat?.map (fun n => (2^64 - n % 2^64) % 2^64)
  else s.toNat?

def nums? (l : List String) : Option (List Nat) := l.mapM num?

def tokens (line : String) : List String :=
  (line.trimAscii.toString.splitOn " ").filter (· ≠ "")

def showOpt (o : Option Nat) (err : String := "panic:overflow") : String :=
  match o with
  | some n => toString n
  | none => err

def showBool (b : Bool) : String := if b then "true" else "false"

def joinWith (sep : String) (l : List String) : String := sep.intercalate l

end Driver
