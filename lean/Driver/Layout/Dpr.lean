import MmtkModel.Model.Map32
import MmtkModel.Model.Mono32
import Driver.Util
/-! C29 / C31 / C28 `dpr` component: prints exactly what `harness/src/comp/layout/dpr.rs` prints. -/
namespace Driver.Layout.Dpr
open Mmtk.Map32 Driver

def first : Nat := 100
def last : Nat := 131
def maxChunks : Nat := 2 ^ 25
def logChunk : Nat := 22

/-- One stand-alone discontiguous `MonotonePageResource` (C28): its state, its descriptor, and the
grants it answered since its last reset (start page, pages). Resource number `k` uses head slot
`monoBase + k` of the shared `PR`. -/
structure MonoD where
  m : Mono := {}
  d : Nat := 0
  grants : List (Nat × Nat) := []

def monoBase : Nat := 8
def maxMono : Nat := 4

structure DSt where
  p : Option PR := none
  spaces : Nat := 0
  monos : List MonoD := []
  /-- a panic while a mutex is held poisons it; the state dump takes every page resource's lock -/
  dead : Bool := false

def walk (s : St) : Nat → Nat → List String
  | 0, _ => []
  | fuel + 1, c =>
    if c == 0 then [] else
    s!"{c}:{regionChunks s c}:{s.prev c}" :: walk s fuel (nextRegion s c)

def showMono (p : PR) (k : Nat) (x : MonoD) : String :=
  let head := p.heads (monoBase + k)
  let l := walk p.st 64 head
  let gs := x.grants.map fun (s, n) => s!"{s / pagesInChunk}+{(s % pagesInChunk) * 4096}*{n}"
  s!"{x.m.cursor * 4096},{x.m.sentinel * 4096},{x.m.cc},{x.m.acct.reserved},{x.m.acct.committed},{head},{if l.isEmpty then "-" else joinWith "/" l},{if gs.isEmpty then "-" else joinWith "/" gs}"

def showMonos (p : PR) (ms : List MonoD) : String :=
  if ms.isEmpty then "" else
  " mono=" ++ joinWith ";" ((List.range ms.length).zip ms |>.map fun (k, x) => showMono p k x)

def showState (sparse : Bool) (n : Nat) (p : PR) (ms : List MonoD := []) : String :=
  let s := p.st
  let chunks := List.range' (first - 1) (last + 3 - first)
  let heads := joinWith "," ((List.range n).map fun sp => toString (p.heads sp))
  let lists := joinWith ";" ((List.range n).map fun sp =>
    let l := walk s 64 (p.heads sp); if l.isEmpty then "-" else joinWith "/" l)
  let sft := if sparse then joinWith "," (chunks.map fun c =>
      let v := sftGet s maxChunks c; if v == 0 then "-" else toString v) else "n/a"
  s!"avail={s.avail} heads={heads} lists={lists} desc={joinWith "," (chunks.map fun c => toString (s.desc c))} sft={sft}{showMonos p ms}"

def showR (r : R) : String :=
  match r with | .val n => toString n | .panicAssert => "panic:assert" | .panicOther => "panic:other"

/-- `sparse` = the process-global SFT map is the chunk-granular one (`cfg layout 32|compressed`). -/
def step (sparse debug : Bool) (d : DSt) (args : List String) : DSt × String :=
  match args with
  | ["new", n] =>
    match num? n with
    | some n =>
      let n := min n 8
      let p : PR := { st := finalize maxChunks first last }
      ({ p := some p, spaces := n }, s!"ok {showState sparse n p}")
    | none => (d, "bad-op")
  | ["sft", a] =>
    match num? a with
    | some a =>
      if !sparse then (d, "n/a") else
      let c := a >>> logChunk
      let v := match d.p with | some p => sftGet p.st maxChunks c | none => 0
      (d, s!"{showBool (decide (c < maxChunks))} {if v == 0 then "empty" else s!"s{v}"}")
    | none => (d, "bad-op")
  | _ =>
  match d.p with
  | none => (d, "no-instance")
  | some p =>
  let okSp (sp : Nat) : Bool := sp < d.spaces
  match args with
  | ["grow", sp, dd, k] =>
    match num? sp, num? dd, num? k with
    | some sp, some dd, some k =>
      if !okSp sp then (d, "bad-op") else
      if d.dead then (d, "panic:other") else
      if sparse then
        let (p', r, ok) := p.growSpace debug sp dd k
        match r with
        | .val c => if ok then ({ d with p := some p' }, s!"{c} {showState sparse d.spaces p' d.monos}")
                    else ({ d with p := some p', dead := true }, "panic:other")
        | _ => ({ d with p := some p', dead := true }, showR r)
      else
        let (p', r) := p.grow debug sp dd k
        match r with
        | .val c => ({ d with p := some p' }, s!"{c} {showState sparse d.spaces p' d.monos}")
        | _ => ({ d with p := some p', dead := true }, showR r)
    | _, _, _ => (d, "bad-op")
  | ["release", sp, c] =>
    match num? sp, num? c with
    | some sp, some c =>
      if !okSp sp then (d, "bad-op") else
      if d.dead then (d, "panic:other") else
      match p.release debug sp c with
      | some p' => ({ d with p := some p' }, s!"ok {showState sparse d.spaces p' d.monos}")
      | none => ({ d with dead := true }, "panic:assert")
    | _, _ => (d, "bad-op")
  | ["releaseall", sp] =>
    match num? sp with
    | some sp =>
      if !okSp sp then (d, "bad-op") else
      if d.dead then (d, "panic:other") else
      match p.releaseAll debug sp with
      | some p' => ({ d with p := some p' }, s!"ok {showState sparse d.spaces p' d.monos}")
      | none => ({ d with dead := true }, "panic:assert")
    | none => (d, "bad-op")
  | ["state"] => if d.dead then (d, "panic:other") else (d, showState sparse d.spaces p d.monos)
  | ["mnew", dd] =>
    match num? dd with
    | some dd =>
      if d.monos.length ≥ maxMono then (d, "bad-op") else
      let ms := d.monos ++ [{ d := dd }]
      if d.dead then ({ d with monos := ms }, "panic:other") else
      ({ d with monos := ms }, s!"ok {showState sparse d.spaces p ms}")
    | none => (d, "bad-op")
  | ["malloc", k, pages] =>
    match num? k, num? pages with
    | some k, some pages =>
      if k ≥ d.monos.length || pages ≥ 2 ^ 32 then (d, "bad-op") else
      if d.dead then (d, "panic:other") else
      let x := d.monos.getD k {}
      match x.m.acquire debug p (monoBase + k) x.d pages with
      | (p', m', .ok start n nc) =>
        let ms := d.monos.set k { x with m := m', grants := x.grants ++ [(start, n)] }
        ({ d with p := some p', monos := ms },
         s!"ok {start / pagesInChunk}+{(start % pagesInChunk) * 4096} {n} new_chunk={if nc then 1 else 0} {showState sparse d.spaces p' ms}")
      | (p', m', .fail) =>
        let ms := d.monos.set k { x with m := m' }
        ({ d with p := some p', monos := ms }, s!"fail {showState sparse d.spaces p' ms}")
      | (p', _, .panicAssert) => ({ d with p := some p', dead := true }, "panic:assert")
      | (p', _, .panicOther) => ({ d with p := some p', dead := true }, "panic:other")
      | (p', _, .panicOverflow) => ({ d with p := some p', dead := true }, "panic:overflow")
      | (p', _, .deadlock) => ({ d with p := some p', dead := true }, "deadlock")
    | _, _ => (d, "bad-op")
  | ["mreset", k] =>
    match num? k with
    | some k =>
      if k ≥ d.monos.length then (d, "bad-op") else
      if d.dead then (d, "panic:other") else
      let x := d.monos.getD k {}
      match x.m.reset debug p (monoBase + k) with
      | some (p', m') =>
        let ms := d.monos.set k { x with m := m', grants := [] }
        ({ d with p := some p', monos := ms }, s!"ok {showState sparse d.spaces p' ms}")
      | none => ({ d with dead := true }, "panic:assert")
    | none => (d, "bad-op")
  | _ => (d, "bad-op")

end Driver.Layout.Dpr
