import MmtkModel.Model.Map32
import Driver.Util
/-! C29 / C31 `dpr` component: prints exactly what `harness/src/comp/layout/dpr.rs` prints. -/
namespace Driver.Layout.Dpr
open Mmtk.Map32 Driver

def first : Nat := 100
def last : Nat := 131
def maxChunks : Nat := 2 ^ 25
def logChunk : Nat := 22

structure DSt where
  p : Option PR := none
  spaces : Nat := 0
  /-- a panic while a mutex is held poisons it; the state dump takes every page resource's lock -/
  dead : Bool := false

def walk (s : St) : Nat → Nat → List String
  | 0, _ => []
  | fuel + 1, c =>
    if c == 0 then [] else
    s!"{c}:{regionChunks s c}:{s.prev c}" :: walk s fuel (nextRegion s c)

def showState (sparse : Bool) (n : Nat) (p : PR) : String :=
  let s := p.st
  let chunks := List.range' (first - 1) (last + 3 - first)
  let heads := joinWith "," ((List.range n).map fun sp => toString (p.heads sp))
  let lists := joinWith ";" ((List.range n).map fun sp =>
    let l := walk s 64 (p.heads sp); if l.isEmpty then "-" else joinWith "/" l)
  let sft := if sparse then joinWith "," (chunks.map fun c =>
      let v := sftGet s maxChunks c; if v == 0 then "-" else toString v) else "n/a"
  s!"avail={s.avail} heads={heads} lists={lists} desc={joinWith "," (chunks.map fun c => toString (s.desc c))} sft={sft}"

def showR (r : R) : String :=
  match r with | .val n => toString n | .panicAssert => "panic:assert" | .panicOther => "panic:other"

/-- `sparse` = the process-global SFT map is the chunk-granular one (`cfg layout 32|compressed`). -/
def step (sparse debug : Bool) (d : DSt) (args : List String) : DSt × String :=
  match args with
  | ["new", n] =>
    match num? n with
    | some n =>
      let n := min n 8
      let p : PR := { st := finalize maxChunks first last }
      ({ p := some p, spaces := n }, s!"ok {showState sparse n p}")
    | none => (d, "bad-op")
  | ["sft", a] =>
    match num? a with
    | some a =>
      if !sparse then (d, "n/a") else
      let c := a >>> logChunk
      let v := match d.p with | some p => sftGet p.st maxChunks c | none => 0
      (d, s!"{showBool (decide (c < maxChunks))} {if v == 0 then "empty" else s!"s{v}"}")
    | none => (d, "bad-op")
  | _ =>
  match d.p with
  | none => (d, "no-instance")
  | some p =>
  let okSp (sp : Nat) : Bool := sp < d.spaces
  match args with
  | ["grow", sp, dd, k] =>
    match num? sp, num? dd, num? k with
    | some sp, some dd, some k =>
      if !okSp sp then (d, "bad-op") else
      if d.dead then (d, "panic:other") else
      if sparse then
        let (p', r, ok) := p.growSpace debug sp dd k
        match r with
        | .val c => if ok then ({ d with p := some p' }, s!"{c} {showState sparse d.spaces p'}")
                    else ({ d with p := some p', dead := true }, "panic:other")
        | _ => ({ d with p := some p', dead := true }, showR r)
      else
        let (p', r) := p.grow debug sp dd k
        match r with
        | .val c => ({ d with p := some p' }, s!"{c} {showState sparse d.spaces p'}")
        | _ => ({ d with p := some p', dead := true }, showR r)
    | _, _, _ => (d, "bad-op")
  | ["release", sp, c] =>
    match num? sp, num? c with
    | some sp, some c =>
      if !okSp sp then (d, "bad-op") else
      if d.dead then (d, "panic:other") else
      match p.release debug sp c with
      | some p' => ({ d with p := some p' }, s!"ok {showState sparse d.spaces p'}")
      | none => ({ d with dead := true }, "panic:assert")
    | _, _ => (d, "bad-op")
  | ["releaseall", sp] =>
    match num? sp with
    | some sp =>
      if !okSp sp then (d, "bad-op") else
      if d.dead then (d, "panic:other") else
      match p.releaseAll debug sp with
      | some p' => ({ d with p := some p' }, s!"ok {showState sparse d.spaces p'}")
      | none => ({ d with dead := true }, "panic:assert")
    | none => (d, "bad-op")
  | ["state"] => if d.dead then (d, "panic:other") else (d, showState sparse d.spaces p)
  | _ => (d, "bad-op")

end Driver.Layout.Dpr
