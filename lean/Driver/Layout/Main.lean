import Driver.Util
import MmtkModel.Model.SpaceDescriptor
import Driver.Layout.Desc
import Driver.Layout.CSM
import Driver.Layout.Resolve
import Driver.Layout.Map32
import Driver.Layout.Dpr
/-! package `Layout` (see CONVENTIONS.md): register components in `step`.
`cfg` lines this package cares about may be matched here too (they must answer "ok");
every package sees every `cfg` line. -/
namespace Driver.Layout
open Driver

structure St where
  debug : Bool := true
  /-- the process-global `VMLayout` (`cfg layout 32|64`) -/
  layout : Mmtk.Layout.VMLayout := Mmtk.Layout.layout64
  csm : CSM.St := {}
  resolve : Resolve.St := {}
  map32 : Map32.DSt := {}
  dpr : Dpr.DSt := {}

/-- `none` = not a component of this package. -/
def step (st : St) (toks : List String) : Option (St × String) :=
  match toks with
  | "desc" :: args => some (st, Desc.run st.layout st.debug args)
  | "map32" :: args =>
    let (c, o) := Map32.step st.debug st.map32 args; some ({ st with map32 := c }, o)
  | "dpr" :: args =>
    let (c, o) := Dpr.step (!st.layout.forceContiguous) st.debug st.dpr args; some ({ st with dpr := c }, o)
  | "resolve" :: args =>
    let (c, o) := Resolve.step st.layout st.debug st.resolve args; some ({ st with resolve := c }, o)
  | "csm" :: args => let (c, o) := CSM.step st.csm args; some ({ st with csm := c }, o)
  | _ => none

/-- `cfg` lines are broadcast to every package. -/
def cfg (st : St) (toks : List String) : St :=
  match toks with
  | ["debug", v] => { st with debug := v == "1" }
  | ["layout", "32"] => { st with layout := Mmtk.Layout.layout32 }
  | ["layout", "64"] => { st with layout := Mmtk.Layout.layout64 }
  | _ => st

end Driver.Layout
