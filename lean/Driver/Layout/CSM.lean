import MmtkModel.Model.CSM
import Driver.Util
/-! C30 `csm` component: prints exactly what `harness/src/comp/layout/csm.rs` prints. -/
namespace Driver.Layout.CSM
open Mmtk.CSM Driver

def base : Nat := 2 ^ 40
def chunk : Nat := 2 ^ 22
def winChunks : Nat := 16
def winStart : Nat := base - 8 * chunk
/-- window start as a chunk index -/
def winC : Nat := winStart / chunk

structure St where
  S : Storage := Storage.empty
  prot : Nat → Nat := fun _ => 0
  live : Bool := false
  /-- a panic while `transition_lock` is held poisons the mutex: every later locking op panics on
  `lock().unwrap()` -/
  poisoned : Bool := false

def digit (s : MapState) : String := toString s.rank

def dump (st : St) : String :=
  let cs := List.range' winC winChunks
  let a := String.join (cs.map fun c => digit (getState st.S c))
  let b := String.join (cs.map fun c => if isMappedAddress st.S (c * chunk) then "1" else "0")
  let r := String.join (cs.map fun c => if st.prot c == 2 then "1" else "0")
  s!"{a} {b} {r}"

def showRes (r : Res) : String :=
  match r with | .ok => "ok" | .err => "err" | .panic => "panic:other"

def step (st : St) (args : List String) : St × String :=
  match args with
  | ["new"] =>
    let st : St := { live := true }
    (st, s!"ok {dump st} lmb=48")
  | _ =>
  if !st.live then (st, "no-instance") else
  match args with
  | ["foreign", c, n] =>
    match num? c, num? n with
    | some c, some n =>
      if c + n > winChunks || n == 0 then (st, "bad-op") else
      let (p, ok) := linuxOS st.prot (winC + c) n false false
      let st := { st with prot := p }
      (st, s!"{if ok then "ok" else "err"} {dump st}")
    | _, _ => (st, "bad-op")
  | ["q", s, p] =>
    match num? s, num? p with
    | some s, some p =>
      if st.poisoned then (st, "panic:other") else
      let (S, pr, r) := quarantine linuxOS st.S st.prot s p
      let st := { st with S := S, prot := pr, poisoned := r == .panic }
      (st, if r == .panic then showRes r else s!"{showRes r} {dump st}")
    | _, _ => (st, "bad-op")
  | ["em", s, p] =>
    match num? s, num? p with
    | some s, some p =>
      if st.poisoned then (st, "panic:other") else
      let (S, pr, r) := ensureMapped linuxOS st.S st.prot s p
      let st := { st with S := S, prot := pr, poisoned := r == .panic }
      (st, if r == .panic then showRes r else s!"{showRes r} {dump st}")
    | _, _ => (st, "bad-op")
  | ["mark", s, b] =>
    match num? s, num? b with
    | some s, some b =>
      if st.poisoned then (st, "panic:other") else
      let (S, r) := markAsMapped st.S s b
      let st := { st with S := S, poisoned := r == .panic }
      (st, if r == .panic then showRes r else s!"{showRes r} {dump st}")
    | _, _ => (st, "bad-op")
  | ["probe", a] =>
    match num? a with
    | some a => (st, s!"{digit (getState st.S (a / chunk))} {showBool (isMappedAddress st.S a)}")
    | none => (st, "bad-op")
  | ["dump"] => (st, s!"ok {dump st}")
  | _ => (st, "bad-op")

end Driver.Layout.CSM
