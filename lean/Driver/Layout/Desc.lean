import MmtkModel.Model.SpaceDescriptor
import Driver.Util
/-! C32 `desc` component: prints exactly what `harness/src/comp/layout/desc.rs` prints. -/
namespace Driver.Layout.Desc
open Mmtk.Layout Mmtk.Desc Driver

def showO (o : Option Nat) : String := showOpt o "panic:assert"

def decode (l : VMLayout) (debug : Bool) (raw : Nat) : String :=
  s!"{showBool (isEmpty raw)} {showBool (isContiguous raw)} {showBool (isContiguousHi raw)} " ++
  s!"{showO (getStart l debug raw)} {showO (getExtent l debug raw)} {getIndex raw}"

def run (l : VMLayout) (debug : Bool) (args : List String) : String :=
  match args with
  | ["range", s, e] =>
    match num? s, num? e with
    | some s, some e =>
      match createFromHeapRange l debug s e with
      | some raw => s!"{raw} {decode l debug raw}"
      | none =>
        -- `end - start` on Address has a formatted message (no "assert" in it)
        if !l.forceContiguous && s > e then "panic:other" else "panic:assert"
    | _, _ => "bad-op"
  | ["decode", r] =>
    match num? r with
    | some r => decode l debug r
    | none => "bad-op"
  | ["discontig", c, n] =>
    match (if c == "-" then some discontigIncrement else num? c), num? n with
    | some c, some n =>
      if n == 0 then "-" else
      match discontigRun debug n c with
      | none => "panic:assert"
      | some ds =>
      joinWith ";" (ds.map fun raw =>
        s!"{raw}:{showBool (isEmpty raw)}:{showBool (isContiguous raw)}:{showBool (isContiguousHi raw)}:{getIndex raw}")
    | _, _ => "bad-op"
  -- `threads` real threads create `per` descriptors each; every create is one atomic fetch-add, so any interleaving
  -- hands out exactly the descriptors of `threads * per` sequential creates (the harness prints them sorted)
  | ["discrace", c, t, per] =>
    match num? c, num? t, num? per with
    | some c, some t, some per =>
      if t == 0 || t > 32 || per == 0 || t * per > 100000 then "bad-op" else
      match discontigRun debug (t * per) c with
      | none => "panic:assert"
      | some ds =>
      joinWith ";" (ds.map fun raw =>
        s!"{raw}:{showBool (isEmpty raw)}:{showBool (isContiguous raw)}:{showBool (isContiguousHi raw)}:{getIndex raw}")
    | _, _, _ => "bad-op"
  | _ => "bad-op"

end Driver.Layout.Desc
