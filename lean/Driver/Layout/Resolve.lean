import MmtkModel.Model.Resolve
import Driver.Util
/-! C31 `resolve` component: prints exactly what `harness/src/comp/layout/resolve.rs` prints. -/
namespace Driver.Layout.Resolve
open Mmtk.Layout Mmtk.Resolve Driver

structure St where
  live : Bool := false
  dm64 : List Nat := List.replicate 16 0
  /-- Map32 descriptors actually inserted (chunk index ↦ raw); the unit harness never inserts under
  layout 32, the whole-GC harness may seed this. -/
  dm32 : List (Nat × Nat) := []
  /-- whole-GC part (`cfg layout compressed`): the regions every discontiguous space of the live plan owns,
  as reported by hx_gc's `regions` (walked from the page resources' own heads), and the space names -/
  regs : List Region := []
  names : List (Nat × String) := []

def showLookup : Lookup → String
  | .desc d => toString d
  | .oob => "panic:oob"

/-- `name:deschex:headhex:starthex+chunks/starthex+chunks…` (or `…:contig`, or `…:-`) -/
def parseSpace (tok : String) : Option (Nat × String × List Region) :=
  match tok.splitOn ":" with
  | [name, d, "contig"] => (parseHex? d).map fun d => (d, name, [])
  | [name, d, _, lst] =>
    match parseHex? d with
    | none => none
    | some d =>
      if lst == "-" then some (d, name, []) else
      let rs := (lst.splitOn "/").mapM fun e =>
        match e.splitOn "+" with
        | [a, n] => match parseHex? a, n.toNat? with
          | some a, some n => some ({ start := a >>> logBytesInChunk, chunks := n, owner := d } : Region)
          | _, _ => none
        | _ => none
      rs.map fun rs => (d, name, rs)
  | _ => none

def hex (n : Nat) : String := "0x" ++ String.ofList (Nat.toDigits 16 n)

def step (l : VMLayout) (debug : Bool) (st : St) (args : List String) : St × String :=
  match args with
  | ["new"] => ({ live := true }, "ok")
  | "lregions" :: toks =>
    -- the model's SFT and descriptor tables after `grow_space` for every region now owned
    match toks.mapM parseSpace with
    | some sp => ({ st with regs := sp.flatMap (·.2.2), names := sp.map fun x => (x.1, x.2.1) }, "ok")
    | none => (st, "bad-op")
  | ["lprobe", a] =>
    -- `<SFT_MAP.get_checked(a).name()> <VM_MAP.get_descriptor_for_address(a)> <is_in_mmtk_spaces(a)>`; by
    -- `Mmtk.Map32.sft_matches_descriptor` the SFT table of a reachable state is the descriptor table
    match num? a with
    | some a =>
      let t := tableOf st.regs
      let s := sparseGetChecked t maxChunks a
      let name := if s == 0 then "empty" else (st.names.lookup s).getD "?"
      (st, s!"{name} {hex (map32Descriptor t maxChunks a)} {showBool (isInMmtkSpaces t maxChunks a)}")
    | none => (st, "bad-op")
  | ["gdesc", a] =>
    -- the process-global VM_MAP of hx_unit holds no spaces
    match num? a with
    | some a =>
      if l.forceContiguous then (st, toString (map64DescriptorFixed l (List.replicate 16 0) a))
      else (st, toString (map32Descriptor (fun _ => 0) maxChunks a))
    | none => (st, "bad-op")
  | _ =>
  if !st.live then (st, "no-instance") else
  match args with
  | ["sft", a] =>
    match num? a with
    | some a =>
      if !l.forceContiguous then (st, "n/a") else
      (st, s!"{showBool (sftHasEntry l a)} {sftIndex l a} empty")
    | none => (st, "bad-op")
  | ["bounds"] =>
    if !l.forceContiguous then (st, "n/a") else
    (st, s!"{sftTableSize l} {sftStart l} {sftEnd l}")
  | ["insert", s, e, r] =>
    match num? s, num? e, num? r with
    | some s, some e, some r =>
      if l.forceContiguous then
        match map64Insert l debug st.dm64 s e r with
        | some dm => ({ st with dm64 := dm }, "ok")
        | none =>
          let spaceMask := (2 ^ logMaxSpaces - 1) <<< l.logSpaceExtent
          if debug && !((s &&& (2 ^ 64 - 1 - spaceMask)) == 0 && e ≤ 2 ^ l.logSpaceExtent
              && e ≥ 2 * 2 ^ logBytesInChunk) then (st, "panic:assert")
          else if (map64SpaceIndex l s).isNone then (st, "panic:other") else (st, "panic:oob")
      else (st, "unsupported")
    | _, _, _ => (st, "bad-op")
  | ["desc", a] =>
    match num? a with
    | some a =>
      if l.forceContiguous then (st, toString (map64DescriptorFixed l st.dm64 a))
      else (st, toString (map32Descriptor (fun i => (st.dm32.lookup i).getD 0) maxChunks a))
    | none => (st, "bad-op")
  | _ => (st, "bad-op")

end Driver.Layout.Resolve
