import MmtkModel.Model.Resolve
import Driver.Util
/-! C31 `resolve` component: prints exactly what `harness/src/comp/layout/resolve.rs` prints. -/
namespace Driver.Layout.Resolve
open Mmtk.Layout Mmtk.Resolve Driver

structure St where
  live : Bool := false
  dm64 : List Nat := List.replicate 16 0
  /-- Map32 descriptors actually inserted (chunk index ↦ raw); the unit harness never inserts under
  layout 32, the whole-GC harness may seed this. -/
  dm32 : List (Nat × Nat) := []

def showLookup : Lookup → String
  | .desc d => toString d
  | .oob => "panic:oob"

def step (l : VMLayout) (debug : Bool) (st : St) (args : List String) : St × String :=
  match args with
  | ["new"] => ({ live := true }, "ok")
  | ["gdesc", a] =>
    -- the process-global VM_MAP of hx_unit holds no spaces
    match num? a with
    | some a =>
      if l.forceContiguous then (st, toString (map64DescriptorFixed l (List.replicate 16 0) a))
      else (st, toString (map32Descriptor (fun _ => 0) maxChunks a))
    | none => (st, "bad-op")
  | _ =>
  if !st.live then (st, "no-instance") else
  match args with
  | ["sft", a] =>
    match num? a with
    | some a =>
      if !l.forceContiguous then (st, "n/a") else
      (st, s!"{showBool (sftHasEntry l a)} {sftIndex l a} empty")
    | none => (st, "bad-op")
  | ["bounds"] =>
    if !l.forceContiguous then (st, "n/a") else
    (st, s!"{sftTableSize l} {sftStart l} {sftEnd l}")
  | ["insert", s, e, r] =>
    match num? s, num? e, num? r with
    | some s, some e, some r =>
      if l.forceContiguous then
        match map64Insert l debug st.dm64 s e r with
        | some dm => ({ st with dm64 := dm }, "ok")
        | none =>
          let spaceMask := (2 ^ logMaxSpaces - 1) <<< l.logSpaceExtent
          if debug && !((s &&& (2 ^ 64 - 1 - spaceMask)) == 0 && e ≤ 2 ^ l.logSpaceExtent
              && e ≥ 2 * 2 ^ logBytesInChunk) then (st, "panic:assert")
          else if (map64SpaceIndex l s).isNone then (st, "panic:other") else (st, "panic:oob")
      else (st, "unsupported")
    | _, _, _ => (st, "bad-op")
  | ["desc", a] =>
    match num? a with
    | some a =>
      if l.forceContiguous then (st, toString (map64DescriptorFixed l st.dm64 a))
      else (st, toString (map32Descriptor (fun i => (st.dm32.lookup i).getD 0) maxChunks a))
    | none => (st, "bad-op")
  | _ => (st, "bad-op")

end Driver.Layout.Resolve
