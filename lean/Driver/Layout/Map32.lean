import MmtkModel.Model.Map32
import Driver.Util
/-! C29 `map32` component: prints exactly what `harness/src/comp/layout/map32.rs` prints. -/
namespace Driver.Layout.Map32
open Mmtk.Map32 Driver

def first : Nat := 100
def last : Nat := 131
def maxChunks : Nat := 2 ^ 25

structure DSt where
  st : Option St := none
  /-- a panic while `sync` is held poisons the mutex -/
  poisoned : Bool := false

def showState (s : St) : String :=
  s!"avail={s.avail} desc={joinWith "," ((List.range' (first - 1) (last + 3 - first)).map fun c => toString (s.desc c))}"

def walk (s : St) : Nat → Nat → List String
  | 0, _ => []
  | fuel + 1, c =>
    if c == 0 then [] else
    s!"{c}:{regionChunks s c}:{s.prev c}" :: walk s fuel (nextRegion s c)

def showR (r : R) : String :=
  match r with | .val n => toString n | .panicAssert => "panic:assert" | .panicOther => "panic:other"

def step (debug : Bool) (d : DSt) (args : List String) : DSt × String :=
  match args with
  | ["new"] =>
    let s := finalize maxChunks first last
    ({ st := some s }, s!"ok {showState s}")
  | _ =>
  match d.st with
  | none => (d, "no-instance")
  | some s =>
  match args with
  | ["alloc", dd, n, h] =>
    match num? dd, num? n, num? h with
    | some dd, some n, some h =>
      if d.poisoned then (d, "panic:other") else
      let (s', r) := allocate debug s dd n h
      match r with
      | .val c => ({ d with st := some s' }, s!"{c} {showState s'}")
      | _ => ({ st := some s', poisoned := true }, showR r)
    | _, _, _ => (d, "bad-op")
  | ["free", c] =>
    match num? c with
    | some c =>
      if d.poisoned then (d, "panic:other") else
      match freeNoLock debug s c with
      | some (s', n) => ({ d with st := some s' }, s!"{n} {showState s'}")
      | none => ({ d with poisoned := true }, "panic:assert")
    | none => (d, "bad-op")
  | ["freeall", c] =>
    match num? c with
    | some c =>
      if d.poisoned then (d, "panic:other") else
      match freeAll debug s c with
      | some s' => ({ d with st := some s' }, s!"ok {showState s'}")
      | none => ({ d with poisoned := true }, "panic:assert")
    | none => (d, "bad-op")
  | ["walk", h] =>
    match num? h with
    | some h => let l := walk s 64 h; (d, if l.isEmpty then "-" else joinWith "," l)
    | none => (d, "bad-op")
  | ["state"] => (d, showState s)
  | _ => (d, "bad-op")

end Driver.Layout.Map32
