import Driver.Util
import Driver.Conc.OOM
/-! package `Conc` (see CONVENTIONS.md): register components in `step`.
`cfg` lines this package cares about may be matched here too (they must answer "ok");
every package sees every `cfg` line. -/
namespace Driver.Conc
open Driver

structure St where
  debug : Bool := true

/-- `none` = not a component of this package. -/
def step (st : St) (toks : List String) : Option (St × String) :=
  match toks with
  | "oom" :: args => some (st, OOM.step args)
  | _ => none

/-- `cfg` lines are broadcast to every package. -/
def cfg (st : St) (toks : List String) : St :=
  match toks with
  | ["debug", v] => { st with debug := v == "1" }
  | _ => st

end Driver.Conc
