import Driver.Util
import Driver.Conc.Cell
import Driver.Conc.BPool
import Driver.Conc.OOM
import Driver.Conc.Satb
/-! package `Conc` (see CONVENTIONS.md): register components in `step`.
`cfg` lines this package cares about may be matched here too (they must answer "ok");
every package sees every `cfg` line.

* `cell` / `fwd` / `casbit` (C17, C18): `Driver/Conc/Cell.lean`
* `bpool` (C19): `Driver/Conc/BPool.lean`
* `oom` (C10): `Driver/Conc/OOM.lean`
* `satb` (C12, racing SATB barriers): `Driver/Conc/Satb.lean` -/
namespace Driver.Conc
open Driver

structure St where
  debug : Bool := true
  cell : Cell.Cell := {}
  bpool : BPool.St := {}
  satb : Satb.St := {}

/-- `none` = not a component of this package. -/
def step (st : St) (toks : List String) : Option (St × String) :=
  match Cell.step st.debug st.cell toks with
  | some (c, o) => some ({ st with cell := c }, o)
  | none =>
  match toks with
  | "bpool" :: args =>
    let (b, o) := BPool.step st.bpool args
    some ({ st with bpool := b }, o)
  | "oom" :: args => some (st, OOM.step args)
  | "satb" :: args =>
    let (b, o) := Satb.step st.satb args
    some ({ st with satb := b }, o)
  | _ => none

/-- `cfg` lines are broadcast to every package. -/
def cfg (st : St) (toks : List String) : St :=
  match toks with
  | ["debug", v] => { st with debug := v == "1" }
  | _ => st

end Driver.Conc
