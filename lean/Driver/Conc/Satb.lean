import MmtkModel.Model.SATBRace
import Driver.Util
/-!
# `satb` component (C12, racing SATB barriers): prints exactly what `harness/src/comp/conc/satb.rs` prints

Sequential histories: `write t f v` / `probable t` is mutator `t` of `Mmtk.SATBRace` (code order
`scanThenLog`) run alone until it is idle again (`runToIdle`, i.e. a composition of the model's atomic
steps).  `judge` evaluates the executable verdict `Mmtk.SATBRace.verdict` (proved sound:
`Mmtk.SATBRace.outcome_sound`) on one outcome of a real-thread race; `race` lines are never sent to
the model.
-/
namespace Driver.Conc.Satb
open Driver Mmtk.SATBRace

def MAXT : Nat := 8
def MAXK : Nat := 16
def NVALS : Nat := 96

structure St where
  k : Nat := 0
  s : State := init []

def mkState (vals : List Nat) (unlog : Bool) : State :=
  { sh := { fld := vals, unlog := unlog, buf := fun _ => [], recd := [], started := [] }, pc := fun _ => .idle }

def takeBuf (s : State) (t : Nat) : State :=
  let old := s.sh.buf
  { s with sh := { s.sh with buf := fun x => if x == t then [] else old x } }

def csv (l : List Nat) : String := if l.isEmpty then "-" else joinWith "," (l.map toString)

def showState (s : State) : String := s!"u={if s.sh.unlog then 1 else 0} f={csv s.sh.fld}"

def parseCsv? (s : String) : Option (List Nat) :=
  if s == "-" then some [] else (s.splitOn ",").mapM (fun x => x.toNat?)

def parsePair? (s : String) : Option (Nat × Nat) :=
  match s.splitOn "=" with
  | [a, b] => match a.toNat?, b.toNat? with
    | some x, some y => some (x, y)
    | _, _ => none
  | _ => none

def parseWrites? (s : String) : Option (List (Nat × Nat)) :=
  if s == "-" then some [] else (s.splitOn ",").mapM parsePair?

def step (st : St) (args : List String) : St × String :=
  match args with
  | "reset" :: ks :: us :: vs =>
    match num? ks, num? us, nums? vs with
    | some k, some u, some vals =>
      if k == 0 || k > MAXK || u > 1 || vals.length != k || vals.any (· > NVALS) then (st, "bad-op")
      else
        ({ k := k, s := mkState vals (u == 1) }, "ok")
    | _, _, _ => (st, "bad-op")
  | ["write", ts, fs, vs] =>
    match num? ts, num? fs, num? vs with
    | some t, some f, some v =>
      if st.k == 0 || t ≥ MAXT || f ≥ st.k || v > NVALS then (st, "bad-op")
      else
        let s := runToIdle .scanThenLog (Mmtk.SATBRace.step .scanThenLog st.s t (.write f v)) t (st.k + 8)
        ({ st with s := s }, s!"{showState s} n={(s.sh.buf t).length}")
    | _, _, _ => (st, "bad-op")
  | ["probable", ts] =>
    match num? ts with
    | some t =>
      if st.k == 0 || t ≥ MAXT then (st, "bad-op")
      else
        let s := runToIdle .scanThenLog (Mmtk.SATBRace.step .scanThenLog st.s t .probable) t (st.k + 8)
        ({ st with s := s }, s!"{showState s} n={(s.sh.buf t).length}")
    | none => (st, "bad-op")
  | ["take", ts] =>
    match num? ts with
    | some t =>
      if t ≥ MAXT then (st, "bad-op")
      else
        ({ st with s := takeBuf st.s t }, s!"b={csv (st.s.sh.buf t)}")
    | none => (st, "bad-op")
  | ["state"] => if st.k == 0 then (st, "bad-op") else (st, showState st.s)
  | ["judge", snaps, ws, us, fs, rs] =>
    match parseCsv? snaps, parseWrites? ws, num? us, parseCsv? fs, parseCsv? rs with
    | some snap, some writes, some u, some fld, some recd =>
      if u > 1 then (st, "bad-op") else (st, verdict snap writes (u == 1) fld recd)
    | _, _, _, _, _ => (st, "bad-op")
  | _ => (st, "bad-op")

end Driver.Conc.Satb
