import Driver.Util
namespace Driver.Conc.BPool
structure St where
  dummy : Nat := 0
def step (st : St) (_args : List String) : St × String := (st, "bad-op")
end Driver.Conc.BPool
