import MmtkModel.Model.BlockPool
import MmtkModel.Model.BlockPoolTie
import Driver.Util
/-!
# `bpool` component (C19): prints exactly what `harness/src/comp/conc/bpool.rs` prints

Sequential histories: every call (`push` by a chosen worker ordinal, `pop`, `flush_all`) is the
corresponding thread of `Mmtk.BlockPool` run to completion (`pushSeq` / `popSeq` / `flushSeq`, i.e.
compositions of the model's atomic `step`).  Queues are printed bottom first (the model keeps them
top first), `global` in `Vec` order (the model keeps the last pushed first).
-/
namespace Driver.Conc.BPool
open Driver Mmtk.BlockPool

def CAP : Nat := 256

structure St where
  s : Option State := none
  n : Nat := 0

/-- maximal prefix of consecutive numbers -/
def splitRun : List Nat → List Nat × List Nat
  | [] => ([], [])
  | [x] => ([x], [])
  | x :: y :: rest =>
    if y == x + 1 then
      let r := splitRun (y :: rest)
      (x :: r.1, r.2)
    else ([x], y :: rest)

def runsAux : Nat → List Nat → List String
  | 0, _ => []
  | _, [] => []
  | fuel + 1, l =>
    let (r, t) := splitRun l
    let here := if r.length ≥ 3 then [s!"{r.head!}..{r.getLast!}"] else r.map toString
    here ++ runsAux fuel t

def runs (l : List Nat) : String := "[" ++ joinWith "," (runsAux (l.length + 1) l) ++ "]"

/-- bottom-first view of a queue -/
def q (l : List Nat) : String := runs l.reverse

def dump (n : Nat) (s : State) : String :=
  let h := match s.head with | some l => q l | none => "-"
  let g := if s.global.isEmpty then "-" else joinWith ";" (s.global.reverse.map q)
  let l := joinWith ";" ((List.range n).map fun i => q (s.locals i))
  s!"c={s.count} h={h} g={g} l={l}"

def iterList (n : Nat) (s : State) : List Nat :=
  (s.head.getD []).reverse ++ (s.global.reverse.map List.reverse).flatten ++ (List.range n).flatMap (fun i => (s.locals i).reverse)

def pushN (n : Nat) (w b : Nat) : Nat → State → State
  | 0, s => s
  | k + 1, s => pushN n w (b + 1) k (pushSeq n 1 CAP s w b)

def popN (n : Nat) : Nat → State → List String → State × List String
  | 0, s, acc => (s, acc.reverse)
  | k + 1, s, acc =>
    let s' := popSeq n 1 CAP s 0
    let r := match s'.rets with | some b :: _ => toString b | _ => "x"
    popN n k s' (r :: acc)

/-- `[a..b,c,d]` → the list of numbers -/
def parseRuns (t : String) : Option (List Nat) :=
  if !(t.startsWith "[" && t.endsWith "]") then none else
  let body := ((t.drop 1).dropRight 1).toString
  if body.isEmpty then some [] else
  (body.splitOn ",").foldlM (fun acc item =>
    match item.splitOn ".." with
    | [a] => a.toNat?.map fun a => acc ++ [a]
    | [a, b] => match a.toNat?, b.toNat? with
      | some a, some b => if a ≤ b then some (acc ++ (List.range (b + 1 - a)).map (· + a)) else none
      | _, _ => none
    | _ => none) []

def kv (key tok : String) : Option String :=
  if tok.startsWith (key ++ "=") then some (tok.drop (key.length + 1)).toString else none

/-- `bpool judge <flush> pushed=N popped=[…] conc=k len_after_conc=L held=[…] drained=[…] len_end=E` -/
def judge (args : List String) : String :=
  match args with
  | [fl, pu, po, _conc, la, he, dr, le] =>
    match num? fl, (kv "pushed" pu).bind (·.toNat?), (kv "popped" po).bind parseRuns, (kv "len_after_conc" la).bind (·.toNat?),
          (kv "held" he).bind parseRuns, (kv "drained" dr).bind parseRuns, (kv "len_end" le).bind (·.toNat?) with
    | some fl, some n, some popped, some la, some held, some drained, some le =>
      if raceOk { pushedN := n, popped, lenAfter := la, held, flush := fl != 0, drained, lenEnd := le } then "ok" else "reject"
    | _, _, _, _, _, _, _ => "reject:parse"
  | _ => "reject:parse"

def step (st : St) (args : List String) : St × String :=
  match args with
  | ["cap"] => (st, toString CAP)
  | "judge" :: rest => (st, judge rest)
  | ["new", w] =>
    match num? w with
    | some w => if w == 0 || w > 64 then (st, "bad-op") else ({ s := some init, n := w }, "ok | " ++ dump w init)
    | none => (st, "bad-op")
  | op :: rest =>
    match st.s with
    | none => (st, "bad-op no-pool")
    | some s =>
      let n := st.n
      let fin (s' : State) (r : String) : St × String := ({ st with s := some s' }, r ++ " | " ++ dump n s')
      match op, nums? rest with
      | "push", some [w, b] => if w ≥ n then (st, "bad-op worker") else fin (pushSeq n 1 CAP s w b) "ok"
      | "pushn", some [w, b, k] => if w ≥ n then (st, "bad-op worker") else fin (pushN n w b k s) "ok"
      | "pop", some [] =>
        let s' := popSeq n 1 CAP s 0
        fin s' (match s'.rets with | some b :: _ => toString b | _ => "none")
      | "popn", some [k] =>
        let (s', rs) := popN n k s []
        fin s' (if rs.isEmpty then "-" else joinWith "," rs)
      | "flush", some [] => fin (flushSeq n 1 CAP s) "ok"
      | "len", some [] => fin s (toString s.count)
      | "iter", some [] =>
        let l := iterList n s
        fin s (if l.isEmpty then "-" else joinWith "," (l.map toString))
      | _, _ => (st, "bad-op")
  | [] => (st, "bad-op")

end Driver.Conc.BPool
