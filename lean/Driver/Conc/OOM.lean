import MmtkModel.Model.OOM
import Driver.Util
/-! `oom` component (C10): runs / searches the slow-path model `Mmtk.OOM`.

* `oom run <overcommit> <safepoint> <oomcall> <obvious> <fuel> <rec>…` — run `slowPath` on the
  environment given by the records (each six bits `localHit pollGc pagesOk emergCheck succSeen
  emergRecord`, e.g. `010100`; the last record repeats forever; none = all-zero record) and print
  `addr|null|outOfFuel trace=<ev,ev,…>`. `oom runold …` = the loop of the pinned tree (before the
  two `fix:` commits, `slowPathOld`).
* `oom accept <overcommit> <safepoint> <oomcall> <obvious> <null|addr|timeout> <oomcalls> <blocked>
  <gcs>` → `ok` iff SOME environment makes `slowPath` produce exactly that observation
  (result kind, number of `out_of_memory` calls, number of `block_for_gc` calls; `gcs` = completed
  pauses during the call, each `block_for_gc` waits for at least one), else `reject`.
  A `timeout` observation is accepted iff the model can stay in the loop forever without ever
  calling `block_for_gc` again (a spin: no GC progress assumption can rescue it).
  `oom acceptold …` = the same for the loop of the pinned tree.
The search is over the finitely many abstract loop states (local `emergency_collection`, counters
bounded by the observation) and all 64 environment records per iteration, using the model's own
`iter` / `iterOld`. -/
namespace Driver.Conc.OOM
open Mmtk.OOM Driver

def bools : List Bool := [false, true]

/-- All 64 environment records. -/
def allRecs : List EnvRec :=
  bools.flatMap fun a => bools.flatMap fun b => bools.flatMap fun c =>
  bools.flatMap fun d => bools.flatMap fun e => bools.map fun f =>
    { localHit := a, pollGc := b, pagesOk := c, emergCheck := d, succSeen := e, emergRecord := f }

def parseRec (s : String) : Option EnvRec :=
  match s.toList.map (· == '1') with
  | [a, b, c, d, e, f] =>
    if s.toList.all (fun ch => ch == '0' || ch == '1') then
      some { localHit := a, pollGc := b, pagesOk := c, emergCheck := d, succSeen := e, emergRecord := f }
    else none
  | _ => none

def zeroRec : EnvRec :=
  { localHit := false, pollGc := false, pagesOk := false, emergCheck := false, succSeen := false,
    emergRecord := false }

def showEv : Event → String
  | .oomCall => "oomCall"
  | .gcRequested => "gcRequested"
  | .forcedGc => "forcedGc"
  | .blockForGc => "blockForGc"
  | .pagesGranted => "pagesGranted"

def showTrace (t : List Event) : String := "trace=" ++ joinWith "," (t.map showEv)

def showOutcome : Outcome → String
  | .done .addr t => "addr " ++ showTrace t
  | .done .null t => "null " ++ showTrace t
  | .outOfFuel t => "outOfFuel " ++ showTrace t

def parseBit (s : String) : Option Bool :=
  if s == "1" then some true else if s == "0" then some false else none

def parseReq (ov sp oc obv : String) : Option Req := do
  let a ← parseBit ov
  let b ← parseBit sp
  let c ← parseBit oc
  let d ← parseBit obv
  pure { opts := { allowOvercommit := a, atSafepoint := b, allowOomCall := c }, obvious := d }

/-- Abstract loop state of the search. -/
structure Abs where
  emerg : Bool
  blocked : Nat
  ooms : Nat
  deriving BEq, Repr

/-- What was observed on the implementation. -/
structure Obs where
  res : Option Res     -- none = timeout
  ooms : Nat
  blocked : Nat
  gcs : Nat

abbrev IterFn := Req → EnvRec → State → Step

def absState (a : Abs) : State := { thrownOom := false, emergLocal := a.emerg, trace := [] }

/-- One search level: (some terminal matched, next frontier). -/
def expand (it : IterFn) (r : Req) (o : Obs) (front : List Abs) : Bool × List Abs :=
  front.foldl (fun (acc : Bool × List Abs) a =>
    allRecs.foldl (fun (acc : Bool × List Abs) e =>
      match it r e (absState a) with
      | .ret res tr =>
        let b := a.blocked + count .blockForGc tr
        let k := a.ooms + count .oomCall tr
        if o.res == some res && b == o.blocked && k == o.ooms && o.gcs ≥ b then (true, acc.2) else acc
      | .cont s' =>
        let b := a.blocked + count .blockForGc s'.trace
        let k := a.ooms + count .oomCall s'.trace
        let a' : Abs := { emerg := s'.emergLocal, blocked := b, ooms := k }
        if b ≤ o.blocked && k ≤ o.ooms && !acc.2.contains a' then (acc.1, a' :: acc.2) else acc)
      acc) (false, [])

def search (it : IterFn) (r : Req) (o : Obs) : Nat → List Abs → Bool
  | 0, _ => false
  | n + 1, front =>
    if front.isEmpty then false else
    let (hit, next) := expand it r o front
    hit || search it r o n next

/-- Can the loop go round `n` more times from local flag `emerg` without calling `block_for_gc`? -/
def spin (it : IterFn) (r : Req) : Nat → Bool → Bool
  | 0, _ => true
  | n + 1, emerg =>
    allRecs.any fun e =>
      match it r e { thrownOom := false, emergLocal := emerg, trace := [] } with
      | .ret _ _ => false
      | .cont s' => !s'.trace.contains .blockForGc && spin it r n s'.emergLocal

/-- Local-flag values reachable at the head of an iteration. -/
def reachEmerg (it : IterFn) (r : Req) : List Bool :=
  let step (l : List Bool) : List Bool :=
    l.foldl (fun acc x =>
      allRecs.foldl (fun acc e =>
        match it r e { thrownOom := false, emergLocal := x, trace := [] } with
        | .cont s' => if acc.contains s'.emergLocal then acc else s'.emergLocal :: acc
        | .ret _ _ => acc) acc) l
  step (step [false])

def accept (it : IterFn) (r : Req) (o : Obs) : Bool :=
  match o.res with
  | none => (reachEmerg it r).any fun x => spin it r 3 x
  | some _ => search it r o (2 * (o.blocked + 2) + 2) [{ emerg := false, blocked := 0, ooms := 0 }]

def runModel (old : Bool) (r : Req) (fuel : Nat) (recs : List EnvRec) : Outcome :=
  let env := Env.ofList recs (recs.getLastD zeroRec)
  if old then slowPathOld r fuel env else slowPath r fuel env

def step (args : List String) : String :=
  match args with
  | op :: ov :: sp :: oc :: obv :: rest =>
    match parseReq ov sp oc obv with
    | none => "bad-op bad-options"
    | some r =>
      if op == "run" || op == "runold" then
        match rest with
        | fuel :: recs =>
          match fuel.toNat?, recs.mapM parseRec with
          | some f, some l => showOutcome (runModel (op == "runold") r f l)
          | _, _ => "bad-op bad-args"
        | [] => "bad-op bad-args"
      else if op == "accept" || op == "acceptold" then
        let it : IterFn := if op == "accept" then iter else iterOld
        match rest with
        | [res, ooms, blocked, gcs] =>
          let res? : Option (Option Res) :=
            if res == "null" then some (some .null) else if res == "addr" then some (some .addr)
            else if res == "timeout" then some none else none
          match res?, ooms.toNat?, blocked.toNat?, gcs.toNat? with
          | some rs, some k, some b, some g =>
            if accept it r { res := rs, ooms := k, blocked := b, gcs := g } then "ok" else "reject"
          | _, _, _, _ => "bad-op bad-args"
        | _ => "bad-op bad-args"
      else s!"bad-op {op}"
  | _ => "bad-op"

end Driver.Conc.OOM
