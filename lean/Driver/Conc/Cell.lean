import MmtkModel.Model.FwdTie
import MmtkModel.Model.CasBitTie
import Driver.Util
/-!
# `cell` / `fwd` / `casbit` components (C17, C18): prints exactly what `harness/src/comp/conc/cell.rs` prints

The concrete cell (three words + five side-metadata bytes, four layouts — see `vms.rs`) is a shadow of
the abstract shared memory of `Mmtk.Fwd` / `Mmtk.CasBit`: every function-level op runs the thread of
the model (`localStep`) from the function's entry point to its exit and replays each atomic step's
store on the cell with the layout's encoder (field splice, masked pointer store, combined
pointer+bits store).  `judge` ops evaluate `Mmtk.Fwd.outcomeOk` / `Mmtk.CasBit.outcomeOk` — the
conclusions of the C17 / C18 theorems — on the outcome of a real-thread race.
-/
namespace Driver.Conc.Cell
open Driver

structure Cell where
  l : Nat := 0
  slot : Nat := 0
  w0 : Nat := 0
  w1 : Nat := 0
  w2 : Nat := 0
  mf : Nat := 0
  mm : Nat := 0
  mg : Nat := 0
  mp : Nat := 0
  ml : Nat := 0
  ready : Bool := false
  /-- 4 KiB page (mod 4) of the object: selects its 2-bit field of the side LOS byte. Every slot lies in
  page 1; only the LOS group races (`casbit judgeat`) use the objects of pages 0, 2, 3. -/
  page : Nat := 1

inductive Loc | w0 | w1 | w2 | mf | mm | mg | mp | ml

structure Fld where
  loc : Loc
  shift : Nat
  width : Nat

def getLoc (c : Cell) : Loc → Nat
  | .w0 => c.w0 | .w1 => c.w1 | .w2 => c.w2 | .mf => c.mf | .mm => c.mm | .mg => c.mg | .mp => c.mp | .ml => c.ml

def setLoc (c : Cell) (l : Loc) (v : Nat) : Cell :=
  match l with
  | .w0 => { c with w0 := v } | .w1 => { c with w1 := v } | .w2 => { c with w2 := v }
  | .mf => { c with mf := v } | .mm => { c with mm := v } | .mg => { c with mg := v }
  | .mp => { c with mp := v } | .ml => { c with ml := v }

def Fld.get (f : Fld) (c : Cell) : Nat := (getLoc c f.loc >>> f.shift) % 2 ^ f.width
/-- the location's value with the field zeroed: the "other bits" -/
def Fld.other (f : Fld) (c : Cell) : Nat := getLoc c f.loc - (f.get c <<< f.shift)
def Fld.set (f : Fld) (c : Cell) (v : Nat) : Cell :=
  setLoc c f.loc (f.other c + ((v % 2 ^ f.width) <<< f.shift))

/-- where each per-object metadata lives in layout `l` (mirrors `vms.rs`) -/
def fwdBitsF (c : Cell) : Fld :=
  match c.l with | 0 => ⟨.mf, 2 * (c.slot % 4), 2⟩ | 1 => ⟨.w1, 0, 2⟩ | 2 => ⟨.w1, 2, 2⟩ | _ => ⟨.w1, 56, 2⟩
def markF (c : Cell) : Fld :=
  match c.l with | 0 => ⟨.mm, c.slot % 8, 1⟩ | 1 => ⟨.w2, 2, 1⟩ | 2 => ⟨.w1, 7, 1⟩ | _ => ⟨.w2, 63, 1⟩
def logF (c : Cell) : Fld :=
  match c.l with | 0 => ⟨.mg, c.slot % 8, 1⟩ | 1 => ⟨.w2, 5, 1⟩ | 2 => ⟨.w1, 0, 1⟩ | _ => ⟨.w2, 8, 1⟩
def pinF (c : Cell) : Fld :=
  match c.l with | 0 => ⟨.mp, c.slot % 8, 1⟩ | 1 => ⟨.w2, 7, 1⟩ | 2 => ⟨.w1, 1, 1⟩ | _ => ⟨.w2, 15, 1⟩
/-- (side LOS spec: one 2-bit field per 4 KiB page; every slot lies in page 1 of its 4-page byte) -/
def losF (c : Cell) : Fld :=
  match c.l with | 0 => ⟨.ml, 2 * (c.page % 4), 2⟩ | 1 => ⟨.w2, 8, 2⟩ | 2 => ⟨.w1, 4, 2⟩ | _ => ⟨.w2, 22, 2⟩
def ptrLoc (c : Cell) : Loc := if c.l == 0 || c.l == 2 then .w0 else .w1
/-- `forwarding_bits_offset_in_forwarding_pointer` -/
def oneStepShift (c : Cell) : Option Nat := match c.l with | 1 => some 0 | 3 => some 56 | _ => none
def markInHeader (c : Cell) : Bool := c.l != 0

def MASK : Nat := 0x00fffffffffffff8
def W64 : Nat := 2 ^ 64
def WIN : Nat := 0x1e000000000
def objAddr (c : Cell) : Nat := WIN + 0x1040 + 8 * c.slot
def NEWB : Nat := WIN + 0x10000
def newAddr (k : Nat) : Nat := NEWB + 64 * k

def hexDigits (n : Nat) : String := String.ofList (Nat.toDigits 16 n)

def fmtRef (c : Cell) (a : Nat) : String :=
  if a == objAddr c then "orig"
  else if a > NEWB && a < NEWB + 64 * 4096 && (a - NEWB) % 64 == 0 then s!"new:{(a - NEWB) / 64}"
  else "raw:" ++ hexDigits a

def cellHex (c : Cell) : String :=
  joinWith " " ([c.w0, c.w1, c.w2, c.mf, c.mm, c.mg, c.mp, c.ml].map hexDigits)

def withCell (c : Cell) (r : String) : String := r ++ " | " ++ cellHex c

/-! ### forwarding -/

def absSh (c : Cell) : Mmtk.Fwd.Shared :=
  { bits := (fwdBitsF c).get c, ptr := getLoc c (ptrLoc c) &&& MASK, marked := (markF c).get c == 1 }

structure Run where
  cell : Cell
  sh : Mmtk.Fwd.Shared
  pc : Mmtk.Fwd.PC
  k : Nat                 -- address the copy will have
  res : String := ""      -- printable result once `pc = done _`
  queue : List String := []

def maskedPtrStore (c : Cell) (v : Nat) : Cell :=
  let w := getLoc c (ptrLoc c)
  setLoc c (ptrLoc c) ((w &&& (W64 - 1 - MASK)) ||| (v &&& MASK))

/-- one atomic step of the model thread and its store replayed on the cell -/
def fstep (immix decline : Bool) (r : Run) : Run :=
  let one := (oneStepShift r.cell).isSome
  let (sh', pc0) := Mmtk.Fwd.localStep immix one 0 decline r.sh r.pc
  -- the model names the copy `copyId t`; the harness arranges the address `k` for it
  let isCopy := match r.pc, pc0 with | .won, .copied _ => true | .decide, .copied _ => true | _, _ => false
  let pc' := if isCopy then .copied r.k else pc0
  let c := r.cell
  let cell' := match r.pc with
    | .cas => if r.sh.bits == 0 then (fwdBitsF c).set c 2 else c
    | .copied v =>
      match oneStepShift c with
      | some s => setLoc c (ptrLoc c) (v ||| (3 <<< s))
      | none => maskedPtrStore c v
    | .ptrWritten _ => (fwdBitsF c).set c 3
    | .markPending => (markF c).set c 1
    | .clearAfterMark | .clearSeenMarked => (fwdBitsF c).set c 0
    | _ => c
  let res := match r.pc, pc' with
    | .readPtr, .done v => fmtRef c v
    | .copied v, .done _ => fmtRef c v
    | .ptrWritten v, .done _ => fmtRef c v
    | _, .done _ => "orig"
    | _, _ => r.res
  let queue := match r.pc with
    | .copied v => if one then r.queue ++ [fmtRef c v] else r.queue
    | .ptrWritten v => r.queue ++ [fmtRef c v]
    | .clearAfterMark => r.queue ++ ["orig"]
    | _ => r.queue
  { r with cell := cell', sh := sh', pc := pc', res := res, queue := queue }

def runUntil (immix decline : Bool) (stop : Mmtk.Fwd.PC → Bool) : Nat → Run → Run
  | 0, r => r
  | n + 1, r => if stop r.pc then r else runUntil immix decline stop n (fstep immix decline r)

def isDone : Mmtk.Fwd.PC → Bool | .done _ => true | _ => false

def mkRun (c : Cell) (pc : Mmtk.Fwd.PC) (k : Nat) : Run := { cell := c, sh := absSh c, pc := pc, k := newAddr k }

def fwdOp (debug : Bool) (c : Cell) (args : List String) : Cell × String :=
  let bits := (fwdBitsF c).get c
  let twoStep := (oneStepShift c).isNone
  -- `ObjectReference::from_raw_address_unchecked` debug-asserts a non-zero address: reading a
  -- forwarding pointer whose address bits are all zero (never written) panics in debug builds
  let nullRead := debug && (absSh c).ptr == 0
  match args with
  | ["offs"] => (c, withCell c (match oneStepShift c with | some s => s!"some:{s}" | none => "none"))
  | ["status"] => (c, withCell c (toString bits))
  | ["is"] => (c, withCell c s!"{showBool (bits == 3)} {showBool (bits != 0)}")
  | ["attempt"] =>
    if bits == 1 then (c, withCell c "1") else
    let r := runUntil false false (fun p => match p with | .spin | .readPtr | .won => true | _ => false) 8 (mkRun c .start 0)
    let out := match r.pc with | .spin => "2" | .readPtr => "3" | _ => "0"
    (r.cell, withCell r.cell out)
  | ["spin", b] =>
    match num? b with
    | none => (c, "bad-op")
    | some b =>
      let b := b % 256
      if b == 2 then
        if bits == 2 then (c, withCell c "would-spin")
        else if bits == 1 then (if debug then (c, "panic:other") else (c, withCell c "orig"))
        else if bits == 3 && nullRead then (c, "panic:assert")
        else
          let r := runUntil false false isDone 8 (mkRun c .spin 0)
          (r.cell, withCell r.cell r.res)
      else if b == 3 then
        if debug && bits == 0 then (c, "panic:other") else
        if nullRead then (c, "panic:assert") else
        let r := runUntil false false isDone 8 (mkRun c .readPtr 0)
        (r.cell, withCell r.cell r.res)
      else if b == 0 then (c, withCell c "orig")
      else if debug then (c, "panic:other") else (c, withCell c "orig")
  | ["forward", k] =>
    match num? k with
    | none => (c, "bad-op")
    | some k =>
      if twoStep && debug && bits != 2 then (c, "panic:other") else
      let r := runUntil false false isDone 8 (mkRun c (.copied (newAddr k)) k)
      (r.cell, withCell r.cell r.res)
  | ["clear"] => let c' := (fwdBitsF c).set c 0; (c', withCell c' "-")
  | ["readptr"] =>
    if debug && bits == 0 then (c, "panic:other") else
    if nullRead then (c, "panic:assert") else (c, withCell c (fmtRef c (absSh c).ptr))
  | ["writeptr", k] =>
    match num? k with
    | none => (c, "bad-op")
    | some k =>
      if debug && bits != 2 then (c, "panic:other") else
      let c' := maskedPtrStore c (newAddr k); (c', withCell c' "-")
  | "trace_copy" :: _ | "trace_immix" :: _ =>
    let parsed : Option (Bool × Nat × Bool) := match args with
      | ["trace_copy", k] => (num? k).map fun k => (false, k, false)
      | ["trace_immix", k, d] => match num? k, num? d with | some k, some d => some (true, k, d != 0) | _, _ => none
      | _ => none
    match parsed with
    | none => (c, "bad-op")
    | some (immix, k, decline) =>
      if bits == 2 then (c, withCell c "would-spin")
      else if bits == 1 then (if debug then (c, "panic:other") else (c, withCell c "orig q=- copies=0"))
      else if bits == 3 && nullRead then (c, "panic:assert")
      else
        let r := runUntil immix decline isDone 16 (mkRun c .start k)
        let q := if r.queue.isEmpty then "-" else joinWith "," r.queue
        (r.cell, withCell r.cell s!"{r.res} q={q} copies={r.sh.copies.length}")
  | _ => (c, "bad-op")

/-! ### mark / log / pin -/

def protoOf (c : Cell) (kind : String) (arg : Nat) (nursery : Bool) : Option (Mmtk.CasBit.Proto × Fld) :=
  match kind with
  | "mark" =>
    let st := if markInHeader c then (if arg % 2 == 1 then 0 else 1) else 1
    some (Mmtk.CasBit.markProto st, markF c)
  | "immix" => if c.l == 0 then some (Mmtk.CasBit.markProto arg, markF c) else none
  | "los" =>
    if c.l == 0 then some (if nursery then Mmtk.CasBit.losNurseryProto arg else Mmtk.CasBit.losProto arg, losF c) else none
  | "log" => some (Mmtk.CasBit.logProto, logF c)
  | "pin" => some (Mmtk.CasBit.pinProto, pinF c)
  | "unpin" => some (Mmtk.CasBit.unpinProto, pinF c)
  | _ => none

def casRun (P : Mmtk.CasBit.Proto) : Nat → Mmtk.CasBit.Shared → Mmtk.CasBit.PC → Mmtk.CasBit.Shared × Bool
  | 0, sh, _ => (sh, false)
  | n + 1, sh, pc =>
    match pc with
    | .ret b => (sh, b)
    | _ => let (sh', pc') := Mmtk.CasBit.localStep P 0 sh pc; casRun P n sh' pc'

def casCall (c : Cell) (kind : String) (arg : Nat) (nursery : Bool) : Cell × String :=
  match protoOf c kind arg nursery with
  | none => (c, withCell c "unsupported")
  | some (P, f) =>
    let (sh, b) := casRun P 16 { field := f.get c, other := f.other c } P.entry
    let c' := f.set c sh.field
    (c', withCell c' (showBool b))

def casOp (c : Cell) (args : List String) : Cell × String :=
  match args with
  | ["ismarked"] => (c, withCell c (showBool ((markF c).get c == 1)))
  | ["ispinned"] => (c, withCell c (showBool ((pinF c).get c == 1)))
  | ["mark", a] | ["immix", a] =>
    match num? a with | some a => casCall c args.head! a false | none => (c, "bad-op")
  | ["log"] | ["pin"] | ["unpin"] => casCall c args.head! 0 false
  | ["los", v, n] =>
    match num? v, num? n with | some v, some n => casCall c "los" (v % 256) (n != 0) | _, _ => (c, "bad-op")
  | _ => (c, "bad-op")

/-! ### verdicts on real-thread races -/

def parseRef (c : Cell) (s : String) : Option Nat :=
  if s == "orig" then some 0
  else if s.startsWith "new:" then ((s.drop 4).toString.toNat?).map newAddr
  else if s.startsWith "raw:" then parseHex? (s.drop 4).toString
  else none

def parseRefs (c : Cell) (s : String) : Option (List Nat) :=
  if s == "-" then some [] else (s.splitOn ",").mapM (parseRef c)

def parseCell (c : Cell) (l : List String) : Option Cell :=
  match l.mapM parseHex? with
  | some [w0, w1, w2, mf, mm, mg, mp, ml] => some { c with w0, w1, w2, mf, mm, mg, mp, ml }
  | _ => none

def stripKey (key s : String) : Option String :=
  if s.startsWith key then some (s.drop key.length).toString else none

/-- `fwd judge copy|immix <n> r=… copies=… q=… | <final cell>` on the initial cell `c` -/
def fwdJudge (c : Cell) (args : List String) : String :=
  match args with
  | kind :: n :: r :: cp :: q :: "|" :: rest =>
    match num? n, stripKey "r=" r, stripKey "copies=" cp, stripKey "q=" q, parseCell c rest with
    | some n, some r, some cp, some q, some fin =>
      match parseRefs c r, cp.toNat?, parseRefs c q with
      | some rs, some cp, some qs =>
        let immix := kind == "immix"
        let a0 := absSh c
        let a := absSh fin
        -- the forwarding pointer is compared as an address; `orig` is 0 in the model
        let o : Mmtk.Fwd.Outcome := { results := rs, copies := cp, queue := qs, bits := a.bits, ptr := a.ptr, marked := a.marked }
        if rs.length != n || n == 0 then "reject:count"
        else if a0.bits != 0 then "reject:initial-state"
        else if (kind == "copy" || immix) && Mmtk.Fwd.outcomeOk immix (immix && a0.marked) o then "ok" else "reject"
      | _, _, _ => "reject:parse"
    | _, _, _, _, _ => "reject:parse"
  | _ => "bad-op"

/-- `casbit judge <kind> <n> <env> <arg> <nursery> t=… f=… | <final cell>` on the initial cell `c` -/
def casJudge (c : Cell) (args : List String) : String :=
  match args with
  | kind :: n :: env :: arg :: nur :: t :: f :: "|" :: rest =>
    match num? n, num? env, num? arg, num? nur, (stripKey "t=" t).bind (·.toNat?), (stripKey "f=" f).bind (·.toNat?), parseCell c rest with
    | some n, some env, some arg, some nur, some t, some f, some fin =>
      match protoOf c kind arg (nur != 0) with
      | none => "reject:unsupported"
      | some (P, fld) =>
        if t + f != n || n == 0 then "reject:count"
        else if Mmtk.CasBit.outcomeOk P (fld.get c) (fld.get fin) t (env != 0) then "ok" else "reject"
    | _, _, _, _, _, _, _ => "reject:parse"
  | _ => "bad-op"

/-! ### verdicts on multi-object races (`group.rs`): object `j` of a group whose template is the cell

Every object of the group is judged on its own by the same `outcomeOk` predicates; that this is sound
although the objects' fields share one metadata byte (byte-wide compare-exchange) is
`Mmtk.CasByte.neighbours_independent` / `Mmtk.FwdByte.neighbours_independent` (Props/C18Byte, C17Byte).
The initial field of object `j` is read from the template cell (`slot := j`, LOS: `page := j`). -/

/-- `fwd judgeat <j> copy|immix <n> r=… copies=… q=… | <final cell of object j>` -/
def fwdJudgeAt (c : Cell) (args : List String) : String :=
  match args with
  | j :: rest =>
    match num? j with
    | some j => if c.l != 0 || j > 7 then "reject:group" else fwdJudge { c with slot := j } rest
    | none => "reject:parse"
  | _ => "bad-op"

/-- `casbit judgeat <j> <kind> <n> <env> <arg> <nursery> t=… f=… | <final cell of object j>` -/
def casJudgeAt (c : Cell) (args : List String) : String :=
  match args with
  | j :: kind :: rest =>
    match num? j with
    | some j =>
      if c.l != 0 || j > 7 then "reject:group"
      else if kind == "los" then (if j > 3 then "reject:group" else casJudge { c with page := j } (kind :: rest))
      else casJudge { c with slot := j } (kind :: rest)
    | none => "reject:parse"
  | _ => "bad-op"

/-! ### dispatch -/

def cellOp (c : Cell) (args : List String) : Cell × String :=
  match args with
  | "set" :: rest =>
    match nums? rest with
    | some [l, slot, w0, w1, w2, mf, mm, mg, mp, ml] =>
      if l > 3 || slot > 7 then (c, "bad-op") else
      ({ l, slot, w0 := w0 % W64, w1 := w1 % W64, w2 := w2 % W64, mf := mf % 256, mm := mm % 256, mg := mg % 256,
         mp := mp % 256, ml := ml % 256, ready := true }, "ok")
    | _ => (c, "bad-op")
  | _ => (c, "bad-op")

def step (debug : Bool) (c : Cell) (toks : List String) : Option (Cell × String) :=
  match toks with
  | [comp] => if comp == "cell" || comp == "fwd" || comp == "casbit" then some (c, "bad-op") else none
  | "cell" :: args => some (cellOp c args)
  | "fwd" :: "judge" :: args => some (c, if c.ready then fwdJudge c args else "bad-op no-cell")
  | "fwd" :: "judgeat" :: args => some (c, if c.ready then fwdJudgeAt c args else "bad-op no-cell")
  | "casbit" :: "judgeat" :: args => some (c, if c.ready then casJudgeAt c args else "bad-op no-cell")
  | "casbit" :: "judge" :: args => some (c, if c.ready then casJudge c args else "bad-op no-cell")
  | "fwd" :: args => some (if c.ready then fwdOp debug c args else (c, "bad-op no-cell"))
  | "casbit" :: args => some (if c.ready then casOp c args else (c, "bad-op no-cell"))
  | _ => none

end Driver.Conc.Cell
