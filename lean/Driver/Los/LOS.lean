import MmtkModel.Model.LOS
import Driver.Util
/-! `los` component (C36, LOS stream): prints exactly what `harness/src/comp/los/los.rs` prints. -/
namespace Driver.Los.LOS
open Mmtk.Treadmill Mmtk.LOS Driver

/-- Driver state: the space model, the protocol phase the component enforces, the ids used in this
case (`known`) and the swept ones (`dead`), and the plan of the process's instance (one per process). -/
structure St where
  started : Bool := false
  plan : Option String := none
  los : Mmtk.LOS.LOS := {}
  gc : Option Bool := none
  known : List Nat := []
  dead : List Nat := []

def plans : List String := ["GenCopy", "GenImmix", "StickyImmix", "SemiSpace", "Immix", "MarkSweep"]

def showSet (l : List Nat) : String :=
  "[" ++ joinWith "," ((l.mergeSort (· ≤ ·)).map toString) ++ "]"

def showState (st : St) : String :=
  let t := st.los.tm
  let live := (st.known.filter (fun i => !st.dead.contains i)).mergeSort (· ≤ ·)
  let bits := joinWith "," (live.map fun i => s!"{i}:{st.los.bits i}")
  s!"ms={st.los.markState} ng={if st.los.inNurseryGc then 1 else 0} F={showSet t.fromSpace} T={showSet t.toSpace} C={showSet t.collectNursery} A={showSet t.allocNursery} bits=[{bits}]"

def step (debug : Bool) (st : St) (args : List String) : St × String :=
  match args with
  | [] => (st, "bad-op")
  | "reset" :: rest =>
    match rest with
    | [p] =>
      if plans.contains p && (st.plan.isNone || st.plan == some p) then
        let st' : St := { started := true, plan := some p }
        (st', "ok | " ++ showState st')
      else (st, "bad-plan")
    | _ => (st, "bad-plan")
  | op :: rest =>
    if !st.started then (st, "bad-op no-reset") else
    match rest with
    | [a] =>
      match a.toNat? with
      | none => (st, "bad-op")
      | some n =>
        let fin (st' : St) (res : String) : St × String := (st', res ++ " | " ++ showState st')
        match op with
        | "alloc" =>
          if st.known.contains n then fin st "dup"
          else if st.gc.isSome && !st.los.allocateAsLive then fin st "refused"
          else fin { st with los := alloc st.los n, known := n :: st.known } "ok"
        | "aslive" =>
          fin { st with los := setAllocateAsLive st.los (n != 0) } "ok"
        | "prepare" =>
          if st.gc.isSome then fin st "refused"
          else fin { st with los := prepare st.los (n != 0), gc := some (n != 0) } "ok"
        | "trace" =>
          if !st.known.contains n then fin st "unknown"
          else if st.dead.contains n then fin st "dead"
          else if st.gc.isNone then fin st "refused"
          else match traceObject debug st.los n with
            | some (e, l) => fin { st with los := l } (if e then "enq" else "skip")
            | none => (st, "panic:assert")
        | "release" =>
          if st.gc != some (n != 0) then fin st "refused"
          else match release debug st.los (n != 0) with
            | some (r, l) => fin { st with los := l, gc := none, dead := r ++ st.dead } ("swept=" ++ showSet r)
            | none => (st, "panic:assert")
        | _ => (st, "bad-op")
    | _ => (st, "bad-op")

end Driver.Los.LOS
