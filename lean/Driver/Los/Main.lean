import Driver.Util
import Driver.Los.LOS
/-! package `Los` (see CONVENTIONS.md): register components in `step`. -/
namespace Driver.Los
open Driver

structure St where
  debug : Bool := true
  los : LOS.St := {}

/-- `none` = not a component of this package. -/
def step (st : St) (toks : List String) : Option (St × String) :=
  match toks with
  | "los" :: args =>
    let (t, o) := LOS.step st.debug st.los args
    some ({ st with los := t }, o)
  | _ => none

end Driver.Los
