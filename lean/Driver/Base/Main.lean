import Driver.Util
import Driver.Base.Arith
import Driver.Base.RevGroup
/-! package `base`: C33 arith, C40 revgroup -/
namespace Driver.Base
open Driver

structure St where
  arith : Arith.Cfg := {}

/-- `none` = not a component of this package. -/
def step (st : St) (toks : List String) : Option (St × String) :=
  match toks with
  | "cfg" :: "debug" :: [v] => some ({ st with arith := { st.arith with debug := v == "1" } }, "ok")
  | "cfg" :: "vm_align" :: [a, b] =>
    match num? a, num? b with
    | some a, some b => some ({ st with arith := { st.arith with vm := { minAlign := a, maxAlign := b } } }, "ok")
    | _, _ => some (st, "bad-op")
  | "arith" :: args => some (st, Arith.run st.arith args)
  | "revgroup" :: args => some (st, RevGroup.run args)
  | _ => none

end Driver.Base
