import MmtkModel.Model.RevGroup
import Driver.Util
namespace Driver.Base.RevGroup
open Mmtk.RevGroup Driver

def run (args : List String) : String :=
  match nums? args with
  | some (m :: xs) =>
    let f : Nat → Nat := fun x => if m == 0 then x else x % m
    let gs := groups f xs
    if gs.isEmpty then "-" else
    joinWith ";" (gs.map fun g =>
      s!"{g.key}:{g.len}:[{joinWith "," (g.items.map toString)}]")
  | _ => "bad-op"

end Driver.Base.RevGroup
