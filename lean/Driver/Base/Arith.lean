import MmtkModel.Model.Arith
import Driver.Util
namespace Driver.Base.Arith
open Mmtk.Arith Driver

/-- Configuration shared with the harness (`cfg` lines): build profile and VM constants. -/
structure Cfg where
  debug : Bool := true
  vm : VMConsts := { minAlign := 8, maxAlign := 64 }

def run (c : Cfg) (args : List String) : String :=
  match args with
  | [] => "bad-op"
  | op :: rest =>
    match nums? rest with
    | none => "bad-op"
    | some n =>
      match op, n with
      | "raw_align_up", [v, a] => toString (rawAlignUp v a)
      | "raw_align_down", [v, a] => toString (rawAlignDown v a)
      | "raw_is_aligned", [v, a] => showBool (rawIsAligned v a)
      | "addr_align_up", [v, a] => toString (rawAlignUp v a)
      | "addr_align_down", [v, a] => toString (rawAlignDown v a)
      | "addr_is_aligned_to", [v, a] => showBool (rawIsAligned v a)
      | "rshift_align_up", [v, b] => showOpt (rshiftAlignUp c.debug v b)
      | "bytes_to_pages_up", [v] => toString (bytesToPagesUp v)
      | "bytes_to_chunks_up", [v] => showOpt (bytesToChunksUp c.debug v)
      | "pages_to_bytes", [v] => toString (pagesToBytes v)
      | "chunk_align_up", [v] => toString (chunkAlignUp v)
      | "chunk_align_down", [v] => toString (chunkAlignDown v)
      | "page_align_down", [v] => toString (pageAlignDown v)
      | "is_page_aligned", [v] => showBool (isPageAligned v)
      | "align_alloc", [r, a, o, k] =>
        -- distinguish the two panic kinds the real code can raise
        match alignAllocation c.vm c.debug r a o k with
        | some x => toString x
        | none =>
          if c.debug && !(k ≥ c.vm.minAlign && a ≤ c.vm.maxAlign
              && (a &&& (c.vm.minAlign - 1)) == 0 && (o &&& (c.vm.minAlign - 1)) == 0)
          then "panic:assert" else "panic:overflow"
      | "max_aligned_size", [s, a, k] =>
        match maxAlignedSize c.vm c.debug s a k with
        | some x => toString x
        | none =>
          if c.debug && !(s == (s &&& wnot (k - 1)) && k ≥ c.vm.minAlign)
          then "panic:assert" else "panic:overflow"
      | "vm_consts", [] => s!"{c.vm.minAlign} {c.vm.maxAlign}"
      | _, _ => "bad-op"

end Driver.Base.Arith
