import Driver.Util
import Driver.Arith
import Driver.RevGroup
/-!
# `mmtk_model`: the executable model behind the line protocol

Reads one operation per line (`<component> <op> <args…>`), prints one canonical result line.
`cfg <key> <value>` lines set the shared configuration (build profile, VM constants) and print
`ok`, exactly as `hx_unit` does.
-/
open Driver

structure St where
  arith : Driver.Arith.Cfg := {}

def step (st : St) (line : String) : St × Option String :=
  match tokens line with
  | [] => (st, none)
  | "cfg" :: "debug" :: [v] => ({ st with arith := { st.arith with debug := v == "1" } }, some "ok")
  | "cfg" :: "vm_align" :: [a, b] =>
    match num? a, num? b with
    | some a, some b => ({ st with arith := { st.arith with vm := { minAlign := a, maxAlign := b } } }, some "ok")
    | _, _ => (st, some "bad-op")
  | "arith" :: args => (st, some (Driver.Arith.run st.arith args))
  | "revgroup" :: args => (st, some (Driver.RevGroup.run args))
  | _ => (st, some "bad-op")

partial def loop (h : IO.FS.Stream) (out : IO.FS.Stream) (st : St) : IO Unit := do
  let line ← h.getLine
  if line.isEmpty then return ()
  if line.startsWith "#" then loop h out st else
  let (st', o) := step st line
  match o with
  | some s => out.putStrLn s
  | none => pure ()
  loop h out st'

def main : IO Unit := do
  let stdin ← IO.getStdin
  let stdout ← IO.getStdout
  loop stdin stdout {}
