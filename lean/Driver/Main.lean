import Driver.Util
import Driver.Base.Main
import Driver.Meta.Main
import Driver.DS.Main
import Driver.Layout.Main
import Driver.Misc.Main
import Driver.Conc.Main
import Driver.GCMon.Main
import Driver.Immix.Main
import Driver.Sched.Main
import Driver.Los.Main
import Driver.GCWeak.Main
/-!
# `mmtk_model`: the executable model behind the line protocol

Reads one operation per line (`<component> <op> <args…>`), prints one canonical result line.
`cfg <key> <value…>` lines are broadcast to every package and answer `ok`, exactly as `hx_unit`
does. Components are grouped in packages (`Driver/<Pkg>/Main.lean`), each with its own state.
-/
open Driver

structure St where
  base : Driver.Base.St := {}
  metaS : Driver.Meta.St := {}
  ds : Driver.DS.St := {}
  layout : Driver.Layout.St := {}
  misc : Driver.Misc.St := {}
  conc : Driver.Conc.St := {}
  gcmon : Driver.GCMon.Pkg.St := {}
  immix : Driver.Immix.St := {}
  sched : Driver.Sched.St := {}
  los : Driver.Los.St := {}
  gcweak : Driver.GCWeak.Pkg.St := {}

def step (st : St) (line : String) : St × Option String :=
  match tokens line with
  | [] => (st, none)
  | "cfg" :: rest =>
    let st := { st with metaS := Driver.Meta.cfg st.metaS rest, ds := Driver.DS.cfg st.ds rest,
                        layout := Driver.Layout.cfg st.layout rest, misc := Driver.Misc.cfg st.misc rest,
                        conc := Driver.Conc.cfg st.conc rest, sched := Driver.Sched.cfg st.sched rest }
    match Driver.Base.step st.base ("cfg" :: rest) with
    | some (b, _) => ({ st with base := b }, some "ok")
    | none => (st, some "ok")
  | toks =>
    match Driver.Base.step st.base toks with
    | some (s, o) => ({ st with base := s }, some o)
    | none =>
    match Driver.Meta.step st.metaS toks with
    | some (s, o) => ({ st with metaS := s }, some o)
    | none =>
    match Driver.DS.step st.ds toks with
    | some (s, o) => ({ st with ds := s }, some o)
    | none =>
    match Driver.Layout.step st.layout toks with
    | some (s, o) => ({ st with layout := s }, some o)
    | none =>
    match Driver.Misc.step st.misc toks with
    | some (s, o) => ({ st with misc := s }, some o)
    | none =>
    match Driver.Conc.step st.conc toks with
    | some (s, o) => ({ st with conc := s }, some o)
    | none =>
    match Driver.GCMon.Pkg.step st.gcmon toks with
    | some (s, o) => ({ st with gcmon := s }, some o)
    | none =>
    match Driver.Immix.step st.immix toks with
    | some (s, o) => ({ st with immix := s }, some o)
    | none =>
    match Driver.Sched.stepPkg st.sched toks with
    | some (s, o) => ({ st with sched := s }, some o)
    | none =>
    match Driver.Los.step st.los toks with
    | some (s, o) => ({ st with los := s }, some o)
    | none =>
    match Driver.GCWeak.Pkg.step st.gcweak toks with
    | some (s, o) => ({ st with gcweak := s }, some o)
    | none => (st, some "bad-op")

partial def loop (h : IO.FS.Stream) (out : IO.FS.Stream) (st : St) : IO Unit := do
  let line ← h.getLine
  if line.isEmpty then return ()
  if line.startsWith "#" then loop h out st else
  let (st', o) := step st line
  match o with
  | some s => out.putStrLn s
  | none => pure ()
  loop h out st'

def main : IO Unit := do
  let stdin ← IO.getStdin
  let stdout ← IO.getStdout
  loop stdin stdout {}
