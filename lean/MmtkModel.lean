import MmtkModel.Model.Arith
import MmtkModel.Model.RevGroup
import MmtkModel.Props.C33
import MmtkModel.Props.C40
