-- This module serves as the root of the `MmtkModel` library.
-- Import modules here that should be built as part of the library.
import MmtkModel.Basic
