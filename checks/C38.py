"""C38 — dynamic heap size stays within its bounds; fixed heap size never changes."""
import struct
from vlib import unit
from vlib.engine import Case

W = 1 << 64


def fb(x):
    return hex(struct.unpack("<Q", struct.pack("<d", x))[0])


SPECIAL_F = [0.0, -0.0, 5e-324, 1e-310, 2.2250738585072014e-308, 1e-300, 1e-9, 0.001, 0.01, 0.5, 1.0, 1.5, 20.0, 100.0,
             4096.0, 1e6, 1e12, float(1 << 52), float((1 << 53) + 2), float(1 << 63), float(1 << 64), 1e300,
             1.7976931348623157e308, float("inf"), float("-inf"), float("nan"), -1.0, -1e-300]
PAGES = [0, 1, 2, 7, 100, 255, 4096, 1 << 20, (1 << 20) + 1, 1 << 32, 1 << 52, (1 << 53) + 1, (1 << 62) - 1, 1 << 62,
         1 << 63, (1 << 63) + 1025, W - 2, W - 1]


def rfloat(rng, kind):
    """kind: 'pages' | 'time' | 'any' → a bit pattern token"""
    r = rng.random()
    if kind == "any" or r < 0.06:
        return fb(rng.choice(SPECIAL_F)) if rng.random() < 0.8 else hex(rng.getrandbits(64))
    if kind == "pages":
        return fb(float(rng.choice([0, 1, 3, 50, 300, 5000, rng.randrange(0, 1 << 20), rng.randrange(0, 1 << 40)])))
    return fb(rng.choice([0.0, 1e-6, 0.0004, 0.01, 0.25, 1.5, 30.0, rng.random(), rng.random() * 100, rng.random() * 1e-3]))


def rpages(rng, big=0.25):
    if rng.random() < big:
        return rng.choice(PAGES)
    return rng.choice([0, 1, 5, 64, 300, 1000, rng.randrange(0, 5000), rng.randrange(0, 1 << 22)])


class Spec(unit.UnitSpec):
    pid = "C38"
    modules = ["MmtkModel.Props.C38"]
    theorems = ["Mmtk.MemBalancer.membalancer_in_bounds", "Mmtk.MemBalancer.membalancer_in_bounds_after_compute",
                "Mmtk.MemBalancer.membalancer_release_total", "Mmtk.MemBalancer.no_overflow_if",
                "Mmtk.MemBalancer.limit_covers_pending", "Mmtk.MemBalancer.fixed_never_changes",
                "Mmtk.MemBalancer.run_inBounds"]
    component = "membal"
    relation = ("Mmtk.MemBalancer.{new, step, computeNewHeapLimit, Fixed.step} ≙ util::heap::gc_trigger::"
                "{MemBalancerTrigger, FixedHeapSizeTrigger} (via verif::misc::membal); f64 pipeline reproduced with Lean "
                "Float in the driver only")
    assumptions = ["usize = 64 bit",
                   "the f64 pipeline is opaque in the theorems (e arbitrary); its formula is differential-tested only, "
                   "bit-exactly, via Lean Float = IEEE binary64 (no FMA contraction on this target)",
                   "on_gc_start/release/end are driven for real on an MMTk instance whose plan has 0 reserved pages "
                   "(non-generational MarkSweep, nothing allocated); other page counts and all statistics are exercised "
                   "through compute_new_heap_limit called exactly as on_gc_end calls it (hook) with statistics set by a hook",
                   "after a real on_gc_start / on_gc_end the two wall-clock-derived statistics (allocation_time, collection_time_prev) are normalised to 0 by the harness (durations are not reproducible); all other fields the handlers write are compared",
                   "generational plans (compute only after full-heap GCs) are covered by the model's `gcEnd none`, not by the differential"]
    rule = ("operation histories of 4..40 ops starting with `new min max` (85% min ≤ max; boundaries 0, 1, 2^52, 2^53+1, "
            "2^63, 2^64-1) or `newfixed n`; ops: pending (small / huge / wrapping), stats (8 f64 bit patterns: plausible "
            "page counts and seconds, zeros, denormals, ±inf, NaN, negatives, random bits; prev fields optional), "
            "compute live extra, real ev_start/ev_release/ev_end, obs, and malformed ops; non-trivial = some compute/ev_end "
            "moved the limit strictly inside (min, max) or a panic occurred; distinct = distinct (history, outputs)")

    def gen(self, rng, tier, debug):
        n = 700 if tier == "quick" else 40000
        cases = []
        for i in range(n):
            ops = []
            r = rng.random()
            if r < 0.1:
                ops.append(f"membal newfixed {rpages(rng, 0.4)}")
                for _ in range(rng.randrange(2, 12)):
                    ops.append(rng.choice([f"membal pending {rpages(rng)}", "membal ev_start", "membal ev_release",
                                           "membal ev_end", "membal obs", "membal compute 1 1"]))
                cases.append(Case(ops))
                continue
            a, b = rpages(rng, 0.15), rpages(rng, 0.15)
            lo, hi = min(a, b), max(a, b)
            if rng.random() < 0.5:
                lo, hi = rng.choice([(0, 0), (1, 1), (100, 1000), (256, 1 << 20), (1000, 1 << 40), (0, W - 1), (5, 5),
                                     (1 << 20, 1 << 21), (64, 100000)])
            if rng.random() < 0.12:
                lo, hi = hi, lo          # min > max (rejected by option validation; clamp asserts)
            ops.append(f"membal new {lo} {hi}")
            for _ in range(rng.randrange(3, 40)):
                k = rng.random()
                if k < 0.2:
                    p = rpages(rng, 0.03) if rng.random() < 0.95 else rng.choice([W - 1, W - 5, 1 << 63])
                    ops.append(f"membal pending {p}")
                elif k < 0.5:
                    kinds = ["pages", "time", "pages", "time"]
                    if rng.random() < 0.05:
                        kinds = ["any"] * 4
                    prev = [("none" if rng.random() < 0.3 else rfloat(rng, kd)) for kd in kinds]
                    if rng.random() < 0.3:
                        prev = ["none"] * 4
                    now = [rfloat(rng, kd) for kd in kinds]
                    ops.append("membal stats " + " ".join(prev + now))
                    live = rpages(rng, 0.03) if rng.random() < 0.7 else rng.randrange(lo, hi + 1) if lo <= hi else 3
                    ops.append(f"membal compute {live} {rpages(rng, 0.02)}")
                elif k < 0.65:
                    live = rpages(rng, 0.03)
                    ops.append(f"membal compute {live} {rpages(rng, 0.02)}")   # statistics as rotated by the last compute
                elif k < 0.85:
                    ops += ["membal ev_start", "membal ev_release", "membal ev_end"][:rng.choice([1, 2, 3, 3, 3])]
                    if rng.random() < 0.3:
                        ops.append("membal ev_end")
                elif k < 0.95:
                    ops.append("membal obs")
                else:
                    ops.append(rng.choice(["membal compute 1", "membal frob", "membal stats none", "membal pending"]))
            cases.append(Case(ops))
        return cases

    def corpus(self, debug):
        z = fb(0.0)
        return [
            Case(["membal new 100 1000", "membal pending 7", "membal ev_start", "membal ev_release", "membal ev_end",
                  f"membal stats none none none none {fb(50.0)} {fb(1.5)} {fb(300.0)} {fb(0.01)}", "membal compute 300 20",
                  "membal compute 310 20"]),
            # +inf ratio: e saturates to usize::MAX; debug: checked add panics; release: wraps, clamp still applies
            Case(["membal new 100 1000", f"membal stats none none none none {fb(50.0)} {fb(1e-300)} {fb(300.0)} {fb(1e300)}",
                  "membal compute 300 20", "membal obs"]),
            # NaN statistics → e = 0
            Case(["membal new 100 1000", f"membal stats none none none none {fb(float('nan'))} {fb(1.0)} {fb(1.0)} {fb(1.0)}",
                  "membal compute 300 20"]),
            Case(["membal new 100 1000", f"membal pending {W - 1}", "membal pending 2", "membal ev_end"]),
            Case(["membal new 10 5", "membal compute 1 1", "membal obs"]),
            Case(["membal newfixed 77", "membal pending 5", "membal ev_start", "membal ev_end", "membal compute 1 1"]),
            Case(["membal new 0 18446744073709551615", f"membal stats none none none none {z} {z} {z} {z}",
                  "membal compute 18446744073709551615 0", "membal compute 9007199254740993 1"]),
        ]

    # -- the property's own statement on what the implementation printed ---------------------------
    def oracle(self, case, impl_out):
        debug = "cfg debug 1" in case.pre
        bad = []
        conf = None           # ("mem", min, max) | ("fixed", pages)
        pend = 0
        for op, out in zip(case.ops, impl_out):
            t = op.split()
            if t[1] == "new" and len(t) == 4:
                conf = ("mem", int(t[2], 0), int(t[3], 0))
                pend = 0
            elif t[1] == "newfixed" and len(t) == 3:
                conf = ("fixed", int(t[2], 0))
            if conf is None or out in ("bad-op", "no-trigger"):
                continue
            if out.startswith("panic") or out.startswith("crash"):
                if conf[0] == "fixed":
                    bad.append(("membal:unexpected-panic", f"fixed-size trigger panicked on `{op}`: {out}"))
                elif conf[1] <= conf[2]:
                    live = sum(int(x, 0) for x in t[2:4]) if t[1] == "compute" and len(t) == 4 else 0
                    may_overflow = debug and t[1] in ("compute", "ev_end") and live + pend + (W - 1) >= W
                    if not may_overflow:
                        bad.append(("membal:unexpected-panic", f"`{op}` panicked ({out}) with min ≤ max and a sum that cannot overflow"))
                conf = None
                continue
            try:
                f = dict(kv.split("=", 1) for kv in out.split())
                cur, mx = int(f["cur"]), int(f["max"])
            except Exception:
                bad.append(("membal:garbage", f"`{op}` → {out[:80]!r}"))
                continue
            if conf[0] == "fixed":
                if cur != conf[1] or mx != conf[1] or f["grow"] != "false":
                    bad.append(("membal:fixed-changed", f"FixedHeapSize({conf[1]}) reports cur={cur} max={mx} grow={f['grow']} after `{op}`"))
                continue
            _, mn, mxc = conf
            if int(f["min"]) != mn or int(f["fmax"]) != mxc or mx != mxc or int(f["fcur"]) != cur:
                bad.append(("membal:bounds-changed", f"configured bounds/readers disagree after `{op}`: {out}"))
            if mn <= mxc and not (mn <= cur <= mxc):
                bad.append(("membal:out-of-bounds", f"DynamicHeapSize({mn},{mxc}): current heap size {cur} after `{op}`"))
            if f["grow"] != ("true" if cur < mxc else "false"):
                bad.append(("membal:can-grow", f"can_heap_size_grow = {f['grow']} with cur={cur}, max={mxc}"))
            pend = int(f["pend"])
            if t[1] == "ev_end" and pend != 0:
                bad.append(("membal:pending-not-cleared", f"pending pages = {pend} after on_gc_end"))
        seen, uniq = set(), []
        for k, w in bad:
            if k not in seen:
                seen.add(k)
                uniq.append((k, w))
        return uniq

    def nontrivial(self, case, out):
        conf = None
        for op, o in zip(case.ops, out):
            t = op.split()
            if t[1] == "new" and len(t) == 4:
                conf = (int(t[2], 0), int(t[3], 0))
            if o.startswith("panic"):
                return True
            if conf and o.startswith("cur=") and "min=" in o:
                cur = int(o.split()[0][4:])
                if conf[0] < cur < conf[1]:
                    return True
        return False

    def summarize(self, cases, outs):
        ops, res, ln = {}, {}, {}
        for c, o in zip(cases, outs):
            b = "len<8" if len(c.ops) < 8 else "len8-19" if len(c.ops) < 20 else "len20+"
            ln[b] = ln.get(b, 0) + 1
            conf = None
            for op, x in zip(c.ops, o):
                t = op.split()
                ops[t[1]] = ops.get(t[1], 0) + 1
                if t[1] == "new" and len(t) == 4:
                    conf = (int(t[2], 0), int(t[3], 0))
                if t[1] in ("compute", "ev_end") and conf:
                    if x.startswith("panic"):
                        k = x
                    elif x.startswith("cur=") and "min=" in x:
                        cur = int(x.split()[0][4:])
                        k = "at-min" if cur == conf[0] else "at-max" if cur == conf[1] else "inside"
                    else:
                        k = x.split()[0]
                    res[k] = res.get(k, 0) + 1
        return {"op": ops, "limit_after_compute": res, "history_length": ln}


META = {
    "text": ("Lean theorems over ALL event histories (pending / gc start / release / end with or without a limit "
             "computation) and ALL values of the f64 pipeline (e arbitrary, incl. NaN→0 and +∞→usize::MAX), live and extra "
             "page counts: min ≤ current ≤ max, bounds never change, release profile total, explicit no-overflow condition "
             "for the debug profile, pending pages covered and cleared; FixedHeapSize never changes. Exact differential of "
             "the real MemBalancerTrigger/FixedHeapSizeTrigger incl. the f64 formula (bit-exact via Lean Float)."),
    "note": ("Trusted: Lean kernel + standard axioms; hand-transcribed model; floating point is outside the theorems "
             "(opaque e) and only differential-tested; real on_gc_* handlers driven on a plan with zero reserved pages, "
             "statistics injected by an add-only hook."),
    "technique": "Lean 4 proof (invariant over event histories, opaque float) + exact differential of histories",
}


def main(argv=None):
    return unit.main(Spec(), argv)
