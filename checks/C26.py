"""C26 — free lists allocate disjoint runs and coalesce back completely."""
from vlib import unit
from vlib.engine import Case
from checks.flgen import Ordered, Spec as Abs, install_hang_guard


def size_in_pages(units, heads):
    return ((units + heads + 1) * 8 + 4095) // 4096


class Hist:
    """One history, emitted for the IntArray and for the RawMemory implementation."""

    def __init__(self, rng, units, grain, heads, kind):
        self.rng, self.units, self.grain, self.heads, self.kind = rng, units, grain, heads, kind
        self.sh = Ordered(kind, units, grain, heads)
        self.ops = []
        self.corrupt = False
        self.dump_p = 0.5 if units <= 40 else 0.08 if units <= 600 else 0.01

    def header(self, kind):
        if kind == "ia":
            return [f"fl new ia {self.units} {self.grain} {self.heads}"]
        sip = size_in_pages(self.units, self.heads)
        return [f"fl new rm {self.units} {self.grain} {self.heads} {min(sip, 16)} {sip}", f"fl grow {self.units}"]

    def emit(self, s):
        self.ops.append(s)
        if self.rng.random() < self.dump_p:
            self.ops.append("fl dump")

    # ---- valid operations ------------------------------------------------------------------
    def sz(self):
        r = self.rng.random()
        if r < 0.35:
            return 1
        if r < 0.7:
            return self.rng.randrange(1, max(2, min(self.grain, 9)))
        if r < 0.9:
            return self.rng.randrange(1, self.grain + 1)
        return self.rng.choice([self.grain, self.grain + 1, self.units, max(1, self.units // 2)])

    def op_alloc(self, k):
        n = self.sz()
        self.sh.alloc(k, n)
        self.emit(f"fl alloc {k} {n}")

    def op_free(self, k, u):
        rcs = 1 if self.rng.random() < 0.8 else 0
        self.sh.free(k, u)
        self.emit(f"fl free {k} {u} {rcs}")
        if self.rng.random() < 0.3:
            self.emit(f"fl size {self.sh.left_of(u + 0) if False else u}")

    def op_afu(self, k):
        cands = [s for s, (l, o) in self.sh.run.items() if o == k]
        if cands and self.rng.random() < 0.8:
            u = self.rng.choice(cands)
            n = self.rng.choice([1, self.sh.run[u][0], self.sh.run[u][0] + 1, self.rng.randrange(1, self.sh.run[u][0] + 1)])
        else:
            u = self.rng.randrange(0, self.units)
            n = self.sz()
            r = self.sh.run.get(u)
            if r is None or (r[1] is not None and r[1] != k):
                # mid-run unit / another head's run: get_free may read a stale flag — keep it out
                # of the valid stream unless it is plainly an allocated start
                if not (r and r[1] is None):
                    return
        self.sh.afu(k, n, u)
        self.emit(f"fl afu {k} {n} {u}")

    def op_query(self, k):
        starts = list(self.sh.run)
        u = self.rng.choice(starts)
        self.emit(f"fl size {u}" if self.rng.random() < 0.6 else f"fl info {k} {u}")

    def single(self, n):
        rng = self.rng
        palloc = rng.choice([0.35, 0.5, 0.65])
        while len(self.ops) < n:
            r = rng.random()
            al = self.sh.allocated()
            if r < palloc or not al:
                self.op_alloc(0)
            elif r < palloc + 0.3:
                self.op_free(0, rng.choice(al))
            elif r < palloc + 0.38:
                self.op_afu(0)
            elif r < palloc + 0.44:
                u = rng.choice(list(self.sh.run) + [self.units])
                if rng.random() < 0.6:
                    self.sh.unc.add(u); self.emit(f"fl setunc {u}")
                else:
                    self.sh.unc.discard(u); self.emit(f"fl clrunc {u}")
            else:
                self.op_query(0)
        if rng.random() < 0.6:
            self.free_all([0])

    def free_all(self, heads_of):
        al = self.sh.allocated()
        self.rng.shuffle(al)
        for u in al:
            k = self.rng.choice(heads_of)
            # stay inside the protocol: never merge into another head's run
            l = self.sh.run[u][0]
            lf, rt = self.sh.left_of(u), u + l
            owners = set()
            if u not in self.sh.unc and lf is not None and self.sh.run[lf][1] is not None:
                owners.add(self.sh.run[lf][1])
            if rt not in self.sh.unc and rt in self.sh.run and self.sh.run[rt][1] is not None:
                owners.add(self.sh.run[rt][1])
            if len(owners) > 1:
                continue
            if owners:
                k = owners.pop()
            self.sh.free(k, u)
            self.ops.append(f"fl free {k} {u} 1")
        for s in sorted(self.sh.run):
            self.ops.append(f"fl size {s}")
        self.ops.append("fl dump")

    def multi(self, n):
        """The FreeListPageResource / Map32 protocol: the parent hands out marked chunks, children free
        whole regions into their own lists between uncoalescable marks, allocate pages, give chunks back."""
        rng, C = self.rng, self.grain
        chunks = []
        while True:                       # parent: allocate everything chunk by chunk, mark starts
            u = self.sh.alloc(0, C)
            if u < 0:
                break
            self.ops.append(f"fl alloc 0 {C}")
            self.sh.unc.add(u); self.ops.append(f"fl setunc {u}")
            chunks.append(u)
        chunks.sort()
        owner = {c: None for c in chunks}           # chunk -> child head or None (global pool)
        regions = []                                # (k, [chunks])
        kids = list(range(1, self.heads)) or [0]
        while len(self.ops) < n:
            r = rng.random()
            if r < 0.18:                            # a child acquires a contiguous region
                free_c = [c for c in chunks if owner[c] is None and self.sh.run.get(c, [0, 1])[1] is None
                          and self.sh.run[c][0] == C]
                if not free_c:
                    continue
                c0 = rng.choice(free_c)
                reg = [c0]
                while rng.random() < 0.5 and reg[-1] + C in free_c:
                    reg.append(reg[-1] + C)
                k = rng.choice(kids)
                self.sh.unc.add(reg[0]); self.emit(f"fl setunc {reg[0]}")
                self.sh.unc.add(reg[-1] + C); self.emit(f"fl setunc {reg[-1] + C}")
                for p in reg:
                    if p != reg[0]:
                        self.sh.unc.discard(p); self.emit(f"fl clrunc {p}")
                    self.sh.free(k, p); self.emit(f"fl free {k} {p} 1")
                    owner[p] = k
                regions.append((k, reg))
            elif r < 0.55 and regions:              # page allocation in a child
                k, reg = rng.choice(regions)
                self.op_alloc(k)
            elif r < 0.8 and regions:               # page release in a child
                k, reg = rng.choice(regions)
                mine = [u for u in self.sh.allocated() if reg[0] <= u < reg[-1] + C]
                if mine:
                    self.op_free(k, rng.choice(mine))
            elif r < 0.88 and regions:              # give a fully free region back chunk by chunk
                k, reg = rng.choice(regions)
                r0 = self.sh.run.get(reg[0])
                if r0 and r0[1] == k and r0[0] == C * len(reg):
                    for p in reg:
                        self.sh.unc.add(p); self.emit(f"fl setunc {p}")
                        self.sh.afu(k, C, p); self.emit(f"fl afu {k} {C} {p}")
                        owner[p] = None
                    regions.remove((k, reg))
            else:
                self.op_query(rng.choice(kids))
        self.ops.append("fl dump")

    # ---- malformed stream ------------------------------------------------------------------
    def malformed(self, n):
        rng = self.rng
        self.single(max(2, n // 2))
        self.ops = [o for o in self.ops]
        kind = rng.choice(["double-free", "mid-run", "oob", "zero", "cross"])
        al = self.sh.allocated()
        free_s = [s for s, (l, o) in self.sh.run.items() if o is not None]
        if kind == "double-free" and free_s:
            self.ops.append(f"fl free 0 {rng.choice(free_s)} 1")
        elif kind == "mid-run":
            big = [s for s, (l, o) in self.sh.run.items() if l > 1]
            if big:
                s = rng.choice(big)
                self.ops.append(f"fl free 0 {s + rng.randrange(1, self.sh.run[s][0])} {rng.randrange(2)}")
        elif kind == "oob":
            u = rng.choice([-1, -self.heads - 1, -self.heads - 2, self.units, self.units + 1, self.units + 7, 100000, -100000])
            self.ops.append(rng.choice([f"fl free 0 {u} 1", f"fl size {u}", f"fl afu 0 1 {u}", f"fl setunc {u}",
                                        f"fl info 0 {u}"]))
        elif kind == "zero":
            self.ops.append(rng.choice(["fl alloc 0 0", "fl alloc 0 -1", f"fl afu 0 0 {rng.randrange(self.units)}"]))
        elif kind == "cross" and self.heads > 1 and al:
            self.ops.append(f"fl free 1 {rng.choice(al)} 1")
        # afterwards only loop-free operations (an `alloc` on a corrupted circular list may not terminate)
        for _ in range(rng.randrange(2, 12)):
            u = rng.randrange(0, self.units)
            self.ops.append(rng.choice([f"fl size {u}", f"fl info 0 {u}", f"fl free 0 {u} 1", f"fl afu 0 1 {u}",
                                        f"fl setunc {u}", f"fl clrunc {u}", "fl dump"]))
        self.ops.append("fl dump")


def params(rng, tier):
    units = rng.choice([1, 2, 3, 5, 6, 8, 13, 16, 31, 32, 33, 64, 100, 255, 256, 500, 1000] +
                       ([2048, 4096] if tier != "quick" or rng.random() < 0.3 else [64]))
    r = rng.random()
    if r < 0.25:
        grain = units
    elif r < 0.5:
        grain = 1 if rng.random() < 0.5 else 2
    else:
        grain = rng.randrange(1, units + 1)
    heads = rng.choice([1, 1, 1, 2, 3, 8, 16])
    return units, grain, heads


class Spec(unit.UnitSpec):
    pid = "C26"
    modules = ["MmtkModel.Props.C26"]
    theorems = ["Mmtk.Runs.runs_disjoint", "Mmtk.Runs.run_end_unique", "Mmtk.Runs.inv_step", "Mmtk.Runs.wf_reach",
                "Mmtk.Runs.free_all_coalesces", "Mmtk.Runs.free_all_restores_single_run",
                "Mmtk.Runs.alloc_fails_only_if_no_run", "Mmtk.Runs.alloc_makes_run",
                "Mmtk.FreeList.getNext_setNext", "Mmtk.FreeList.cross_head_coalesce_double_allocates",
                "Mmtk.FreeList.alloc_refines", "Mmtk.FreeList.allocFromUnit_refines", "Mmtk.FreeList.free_refines",
                "Mmtk.FreeList.setUnc_refines", "Mmtk.FreeList.clrUnc_refines", "Mmtk.FreeList.abs_reads",
                "Mmtk.FreeList.step_refines", "Mmtk.FreeList.history_refines",
                "Mmtk.FreeList.concrete_history_no_overlap", "Mmtk.FreeList.concrete_history_conservation",
                "Mmtk.FreeList.new_refines_single", "Mmtk.FreeList.exRel", "Mmtk.FreeList.exT0_new"]
    component = "fl"
    relation = ("Mmtk.FreeList.* (table of i32 entries, every method, masks) ≙ util::freelist::FreeList on "
                "IntArrayFreeList (parent + child lists sharing the table) and RawMemoryFreeList (private mmapped window)")
    assumptions = [
        "abstract layer (Mmtk.Runs): theorems hold for histories satisfying Runs.Pre — alloc takes a fitting free run "
        "of its own head, free is applied to the start of an allocated run, a free never coalesces into a run on another "
        "head's list (callers separate heads' regions by uncoalescable marks), clear_uncoalescable is not applied "
        "between two free runs",
        "concrete layer: the refinement of the table model to Mmtk.Runs (history_refines) is NOT proved; the table model "
        "is tied to the code by the exact differential (returned units, raw table dumps, sizes, getters), and the "
        "abstract spec is replayed as the oracle on the implementation's answers",
        "unit numbers and sizes stay far below 2^31 (no i32 wrap); unit counts ≤ 4096 in the differential",
        "a panic drops the list (both sides); alloc on a corrupted circular list may not terminate — the malformed "
        "stream uses only loop-free operations after the corrupting one"]
    rule = ("seeded histories over lists of 1..4096 units, grains 1..units, 1..16 heads, each emitted for the IntArray "
            "and (when the initial runs coincide) the RawMemory implementation: single-head alloc/free/alloc_from_unit/"
            "size/info/set+clear_uncoalescable with raw table dumps and a final free-everything phase; multi-head "
            "histories following the FreeListPageResource/Map32 protocol (parent hands out marked chunks, children free "
            "regions between marks, allocate, release, give chunks back); malformed stream (double free, free of a "
            "non-start unit, out-of-range units, size 0 / negative, cross-head free); non-trivial = a split and a "
            "coalescing free both occurred; distinct = distinct (history, outputs)")

    def gen(self, rng, tier, debug):
        n = 260 if tier == "quick" else 6000
        cases = []
        for i in range(n):
            units, grain, heads = params(rng, tier)
            ln = rng.choice([10, 30, 80, 200, 500]) if units > 8 else rng.choice([6, 15, 40])
            r = rng.random()
            if r < 0.45:
                mode = "single"
            elif r < 0.75:
                mode = "multi"
                heads = max(heads, 2)
                units = max(units, 16)
                grain = rng.choice([g for g in (1, 2, 4, 8, 16, 32) if g * 2 <= units])
                units -= units % grain
            else:
                mode = "malformed"
            both = units % grain == 0            # same initial runs on both implementations
            kinds = ["ia", "rm"] if both else [rng.choice(["ia", "rm"])]
            if not both and kinds == ["rm"] and debug:
                kinds = ["ia"]                   # rm: growth not in grains asserts in debug builds
            h = Hist(rng, units, grain, heads, kinds[0])
            getattr(h, mode)(ln)
            for k in kinds:
                cases.append(Case(h.header(k) + h.ops, tag=f"{mode}:{k}:{units}:{grain}:{heads}"))
        return cases

    def corpus(self, debug):
        return [
            Case(["fl new ia 10 4 2", "fl dump", "fl alloc 0 1", "fl alloc 0 4", "fl info 0 1", "fl free 0 0 1", "fl dump",
                  "fl size 0", "fl size 4", "fl free 0 4 1", "fl dump"], tag="single:ia:10:4:2"),
            Case(["fl new rm 12 4 1 1 1", "fl alloc 0 1", "fl grow 8", "fl fields", "fl dump", "fl alloc 0 3", "fl grow 4",
                  "fl dump", "fl free 0 0 1", "fl alloc 0 4", "fl alloc 0 4", "fl alloc 0 4", "fl alloc 0 1"],
                 tag="single:rm:12:4:1"),
            # double free: debug asserts; release corrupts the list
            Case(["fl new ia 6 2 1", "fl alloc 0 2", "fl free 0 0 1", "fl free 0 0 1", "fl dump"], tag="malformed:ia:6:2:1"),
            # cross-head coalescing (no uncoalescable mark between runs of different heads): the run
            # ends up on both heads' lists and is handed out twice — outside the protocol, see Props/C26
            Case(["fl new ia 10 5 2", "fl alloc 0 5", "fl alloc 0 5", "fl free 1 0 1", "fl free 0 5 1", "fl dump",
                  "fl alloc 0 10", "fl alloc 1 10"], tag="malformed:ia:10:5:2"),
        ]

    # ---- the property's own statement (abstract runs partition), on the implementation's answers ----
    def oracle(self, case, impl_out):
        bad, sp, kind, grain, cur = [], None, None, 1, 0
        for op, o in zip(case.ops, impl_out):
            t = op.split()
            if t[1] == "new":
                kind = t[2]
                units, grain, heads = int(t[3]), int(t[4]), int(t[5])
                if o != "ok" or units < 1 or grain < 1 or not 1 <= heads <= 128:
                    return bad
                sp = Abs(kind, units, grain, heads, grown=(kind == "ia"))
                maxu, cur = units, (units if kind == "ia" else 0)
                if kind == "rm":
                    sp.units = 0
                continue
            if sp is None:
                return bad
            a = [int(x) for x in t[2:]]
            name = t[1]
            if name in ("dump", "fields"):
                continue
            # ---- protocol: is this call inside the property's scope? ----
            if name == "alloc":
                ok = len(a) == 2 and 0 <= a[0] < sp.heads and a[1] >= 1
            elif name == "afu":
                ok = len(a) == 3 and 0 <= a[0] < sp.heads and a[1] >= 1 and a[2] in sp.run and sp.run[a[2]][1] in (None, a[0])
            elif name == "free":
                ok = len(a) == 3 and 0 <= a[0] < sp.heads and a[1] in sp.run and sp.run[a[1]][1] is None
            elif name in ("size", "info"):
                ok = a[-1] in sp.run
            elif name in ("setunc", "clrunc"):
                ok = len(a) == 1 and 0 <= a[0] <= sp.units and sp.units > 0
            elif name == "grow":
                ok = kind == "rm" and len(a) == 1 and a[0] >= 1 and (cur + a[0] <= grain or (cur + a[0]) % grain == 0)
            else:
                return bad
            if not ok:
                return bad
            if name == "free":
                save = ({k: list(v) for k, v in sp.run.items()})
                own, merged, cross = sp.free(a[0], a[1])
                if cross:
                    return bad           # merging into another head's run: outside the protocol
            if o.startswith(("panic", "bad-op", "diverge", "crash", "hang")):
                bad.append(("freelist:panic", f"`{op}` is inside the protocol but the list answered {o!r}"))
                return bad
            # ---- the statement ----
            if name == "alloc":
                r = int(o)
                if r == -1:
                    if sp.has_fit(a[0], a[1]):
                        bad.append(("freelist:alloc-spurious-failure", f"`{op}` failed although head {a[0]} owns a free run of {a[1]}+ units"))
                else:
                    run = sp.run.get(r)
                    if run is None or run[1] != a[0] or run[0] < a[1]:
                        bad.append(("freelist:alloc-not-a-free-run", f"`{op}` returned {r}, which is not the start of a free run "
                                                                     f"of head {a[0]} with {a[1]}+ units (run there: {run}): overlaps or leaves the list"))
                    else:
                        sp.take(a[0], r, a[1])
            elif name == "afu":
                run = sp.run[a[2]]
                want = a[2] if run[1] == a[0] and run[0] >= a[1] else -1
                if int(o) != want:
                    bad.append(("freelist:alloc-from-unit", f"`{op}` returned {o}, expected {want} (run there: {run})"))
                elif want >= 0:
                    sp.take(a[0], a[2], a[1])
            elif name == "free":
                want = merged if a[2] else own
                if int(o) != want:
                    bad.append(("freelist:free-coalesce", f"`{op}` returned {o}; the run has {own} units and coalesces to {merged}"))
            elif name == "size":
                if int(o) != sp.run[a[0]][0]:
                    bad.append(("freelist:size", f"`{op}` returned {o}, the run at {a[0]} has {sp.run[a[0]][0]} units"))
            elif name == "info":
                f = dict(x.split("=") for x in o.split())
                ln, ow = sp.run[a[1]]
                if (f["free"] == "true") != (ow is not None) or int(f["size"]) != ln or int(f["right"]) != a[1] + ln \
                        or (f["coal"] == "true") != (a[1] not in sp.unc) or (ln > 1) != (f["multi"] == "true"):
                    bad.append(("freelist:info", f"`{op}` answered {o}; the run is {ln} units, owner {ow}, unc={a[1] in sp.unc}"))
            elif name == "setunc":
                sp.unc.add(a[0])
            elif name == "clrunc":
                sp.unc.discard(a[0])
            elif name == "grow":
                if o == "true":
                    sp.add_initial("rm", cur + a[0], grain, cur)
                    cur += a[0]
                elif cur + a[0] <= maxu:
                    bad.append(("freelist:grow-refused", f"`{op}` refused below the maximum {maxu}"))
            if bad:
                return bad
        return bad

    def nontrivial(self, case, out):
        split = merged = False
        for op, o in zip(case.ops, out):
            t = op.split()
            if t[1] == "free" and t[-1] == "1" and o.lstrip("-").isdigit() and int(o) > 1:
                merged = True
            if t[1] == "alloc" and o.isdigit():
                split = True
        return split and merged

    def summarize(self, cases, outs):
        h, modes, panics = {}, {}, 0
        for c, o in zip(cases, outs):
            m = ":".join(c.tag.split(":")[:2])
            modes[m] = modes.get(m, 0) + 1
            for op in c.ops:
                k = op.split()[1]
                h[k] = h.get(k, 0) + 1
            panics += sum(1 for l in o if l.startswith("panic"))
        return {"ops": h, "case_kind": modes, "panic_lines": {"n": panics}}


META = {
    "text": 'Abstract layer proved in Lean for all protocol-respecting histories on any number of heads: runs pairwise disjoint and inside the list, owner constant over a run, alloc may fail only if the head owns no fitting run, free_all_coalesces (once everything is free every remaining boundary is an uncoalescable mark or a pristine initial grain boundary; a single initial run is restored exactly). Concrete layer: the table of i32 entries with every method and mask transcribed, compared exactly (returned units, raw table dumps, sizes, getters) with IntArrayFreeList (parent + children) and RawMemoryFreeList; entry-level lemma getNext_setNext; the whole-history refinement of the table to the abstract spec is not proved (partial).',
    "note": 'Partial: history_refines (concrete table refines Mmtk.Runs) is stated as a target only; the link concrete→abstract is the differential plus the abstract spec replayed as oracle. Observation (not a violation under the callers\' protocol): coalescing into a run on another head\'s list corrupts both lists and hands the same units out twice (Lean witness cross_head_coalesce_double_allocates; callers prevent it with uncoalescable marks). grow_freelist(0) on a grown RawMemoryFreeList and alloc on a corrupted list do not terminate.',
    "technique": 'Lean 4 proof (invariant over a pointwise partition spec, induction over histories) + exact differential of a transcribed table model + spec-replay oracle',
}


def main(argv=None):
    install_hang_guard()
    return unit.main(Spec(), argv)
