"""C21 — bulk side-metadata zero/set/copy touch exactly the covered regions."""
from vlib import unit
from vlib.engine import Case
from checks import side_common as sc
from checks.C20 import geo_of

BULK = ("bzero", "bset", "bcopy")


def geo2_of(line):
    g = geo_of(line)
    t = line.split()
    if t[8] != "-":
        g.off2 = int(t[8], 0)
        g.lo2, g.hi2 = g.window(sc.BASE + g.off2)
    return g


def parse_bbr(out):
    t = out.split()
    rs = []
    for x in t[1:]:
        if x.startswith("B:"):
            a, b = x[2:].split("-")
            rs.append((8 * int(a), 8 * int(b), "B"))
        else:
            _, a, r = x.split(":")
            s, e = r.split("-")
            rs.append((8 * int(a) + int(s), 8 * int(a) + int(e), "b"))
    return t[0], rs


class Spec(unit.UnitSpec):
    pid = "C21"
    modules = ["MmtkModel.Props.C21"]
    theorems = ["Mmtk.SideMeta.breakBitRange_partition", "Mmtk.SideMeta.breakBitRange_backwards",
                "Mmtk.SideMeta.tiles_cover", "Mmtk.SideMeta.tiles_sorted",
                "Mmtk.SideMeta.bzero_exact", "Mmtk.SideMeta.bset_exact", "Mmtk.SideMeta.bcopy_exact",
                "Mmtk.SideMeta.bulk_interval", "Mmtk.SideMeta.bzero_regions", "Mmtk.SideMeta.bset_regions",
                "Mmtk.SideMeta.bcopy_regions", "Mmtk.SideMeta.aligned_regions"]
    component = "side"
    relation = "Mmtk.SideMeta.{breakBitRange, bzero, bset, bcopy} ≙ ranges::break_bit_range, SideMetadataSpec::{bzero_metadata, bset_metadata, bcopy_metadata_contiguous}"
    assumptions = ["64-bit target: every spec is contiguous (the `update_contiguous` branch of bulk_update_metadata)",
                   "start + size does not overflow; the source and destination tables of bcopy do not overlap",
                   "for region-unaligned start/size the code covers regions ⌊start/R⌋ … ⌊(start+size)/R⌋−1 (proved; aligned arguments are the callers' precondition for 'exactly the covered regions')"]
    rule = ("windows of real side metadata pre-filled with random bytes (destination and, for bcopy, a source table with the "
            "same geometry), 1..8 bulk calls with starts/sizes aligned and unaligned to regions, bytes, words, sizes from 0 "
            "to the whole window; plus direct calls of break_bit_range forwards/backwards with an aborting visitor; "
            "non-trivial = a bulk op with size > 0 or a non-empty break_bit_range; distinct = distinct (history, outputs)")

    def gen(self, rng, tier, debug):
        n = 1200 if tier == "quick" else 50000
        cases = []
        for i in range(n):
            g = sc.rand_geo(rng, two=True, max_meta_bytes=rng.choice([8, 24, 64, 64, 200]),
                            edge=rng.choice([None, None, None, "lo", "hi"]))
            ops = [g.new_line(), f"side fill {sc.rand_fill(rng, g.nbytes()).hex()}",
                   f"side fill2 {sc.rand_fill(rng, g.hi2 - g.lo2).hex()}"]
            total = g.n * g.R
            for _ in range(rng.randrange(1, 8)):
                style = rng.random()
                if style < 0.5:       # region aligned
                    r0 = rng.randrange(0, g.n + 1)
                    r1 = rng.randrange(r0, g.n + 1)
                    if rng.random() < 0.3:
                        r1 = min(g.n, r0 + rng.choice([0, 1, 2, 8, 9, 16, 64, 65]))
                    st, sz = r0 * g.R, (r1 - r0) * g.R
                elif style < 0.6:     # whole window
                    st, sz = 0, total
                else:                 # anything
                    st = rng.randrange(0, total + 1)
                    sz = rng.choice([0, 1, g.R - 1, g.R, g.R + 1, rng.randrange(0, total - st + 1)])
                    sz = min(sz, total - st)
                ops.append(f"side {rng.choice(BULK)} {g.d0 + st:#x} {sz:#x}")
            if rng.random() < 0.5:
                ops.append("side dump")
            for _ in range(rng.randrange(0, 3)):
                sa = rng.randrange(1000, 1020)
                ea = sa + rng.choice([0, 0, 1, 1, 2, 9, rng.randrange(0, 40)])
                if rng.random() < 0.04:
                    ea = sa - rng.randrange(1, 3)      # malformed: reversed
                sb, eb = rng.choice([0, 0, rng.randrange(0, 8)]), rng.choice([0, 0, rng.randrange(0, 8)])
                ops.append(f"side bbr {sa} {sb} {ea} {eb} {rng.randrange(0, 2)} {rng.choice([0, 0, 0, 1, 2, 3, 4])}")
            cases.append(Case(ops))
        return cases

    def corpus(self, debug):
        g = sc.Geo(0, 3, 0, 256, sc.CHUNK + 64, pos2=sc.CHUNK + 8192)
        f = "a5" * g.nbytes()
        f2 = "3c" * (g.hi2 - g.lo2)
        return [Case([g.new_line(), f"side fill {f}", f"side fill2 {f2}", "side bzero 0x18 0x8", "side bset 0x40 0x40",
                      "side bcopy 0x98 0x128", "side bzero 0x0 0x0", "side bset 0x7f8 0x8", "side dump",
                      "side bbr 100 3 104 5 1 0", "side bbr 100 3 104 5 0 0", "side bbr 100 0 104 0 0 0",
                      "side bbr 100 3 101 0 1 0", "side bbr 100 3 100 7 1 0", "side bbr 100 3 100 3 1 0"])]

    def oracle(self, case, impl_out):
        bad = []
        g, win, src = None, 0, 0
        for line, out in zip(case.ops, impl_out):
            t = line.split()
            op = t[1]
            if op == "new":
                if not out.startswith("ok"):
                    return bad
                g, win, src = geo2_of(line), 0, 0
                continue
            if g is None:
                return bad
            if op == "fill" and out == "ok":
                win = sc.win_int(t[2])
            elif op == "fill2" and out == "ok":
                src = sc.win_int(t[2])
            elif op == "dump":
                p = out.split()
                if sc.win_int(p[0]) != win or (len(p) > 1 and sc.win_int(p[1]) != src):
                    bad.append(("side:bulk:source-or-window-changed", f"`{line}`: a window is not what the ops left"))
            elif op == "bbr":
                sa, sb, ea, eb, fwd, stop = (int(x) for x in t[2:8])
                if (sa, sb) > (ea, eb):
                    continue     # malformed
                ret, rs = parse_bbr(out)
                lo, hi = 8 * sa + sb, 8 * ea + eb
                if stop == 0 or stop > len(rs):
                    seq = rs if fwd else rs[::-1]
                    cur = lo
                    for (a, b, kind) in seq:
                        if a != cur or b <= a or (kind == "b" and (b - 1) // 8 != a // 8) or (kind == "B" and (a % 8 or b % 8)):
                            bad.append(("side:bbr:not-a-partition", f"`{line}` → {out}"))
                            break
                        cur = b
                    else:
                        if cur != hi:
                            bad.append(("side:bbr:not-a-partition", f"`{line}` → {out}: covers up to bit {cur}, expected {hi}"))
            elif op in BULK:
                parts = out.split()
                if len(parts) != 2 or len(parts[1]) != 2 * g.nbytes():
                    return bad
                after = sc.win_int(parts[1])
                if parts[0] == "panic":
                    bad.append((f"side:{op}:panic", f"`{line}` panicked"))
                    win = after
                    continue
                st, sz = int(t[2], 0), int(t[3], 0)
                p0, p1 = g.field_pos(st), g.field_pos(st + sz)     # regions ⌊start/R⌋ .. ⌊(start+size)/R⌋-1
                msk = ((1 << (p1 - p0)) - 1) << p0 if p1 > p0 else 0
                if op == "bzero":
                    exp = win & ~msk
                elif op == "bset":
                    exp = win | msk
                else:
                    q0 = g.field_pos(st, sc.BASE + g.off2)
                    chunk = (src >> q0) & ((1 << (p1 - p0)) - 1) if p1 > p0 else 0
                    exp = (win & ~msk) | (chunk << p0)
                aligned = st % g.R == 0 and sz % g.R == 0
                if after != exp:
                    if (after & ~msk) != (win & ~msk):
                        bad.append((f"side:{op}:touches-uncovered-fields", f"`{line}`: bits outside the covered regions changed: {win:#x} -> {after:#x}"))
                    else:
                        bad.append((f"side:{op}:wrong-covered-value{'' if aligned else ':unaligned'}", f"`{line}`: {win:#x} -> {after:#x}, expected {exp:#x}"))
                win = after
        return bad

    def nontrivial(self, case, out):
        for l, o in zip(case.ops, out):
            t = l.split()
            if t[1] in BULK and int(t[3], 0) > 0:
                return True
            if t[1] == "bbr" and len(o.split()) > 1:
                return True
        return False

    def summarize(self, cases, outs):
        h, k, geo = {}, {"aligned": 0, "unaligned": 0, "empty": 0}, {}
        for c, o in zip(cases, outs):
            t = c.ops[0].split()
            geo[f"bits=2^{t[2]}"] = geo.get(f"bits=2^{t[2]}", 0) + 1
            R = 1 << int(t[3])
            for l in c.ops:
                u = l.split()
                if u[1] in BULK or u[1] == "bbr":
                    h[u[1]] = h.get(u[1], 0) + 1
                if u[1] in BULK:
                    st, sz = int(u[2], 0), int(u[3], 0)
                    k["empty" if sz == 0 else ("aligned" if st % R == 0 and sz % R == 0 else "unaligned")] += 1
        return {"op": h, "arguments": k, "geometry": geo}


META = {
    "text": "Lean: break_bit_range transcribed branch for branch; breakBitRange_partition (the visited ranges tile the bit interval [8·sa+sb, 8·ea+eb): consecutive, non-empty, in-byte ranges stay in their byte; backwards = reverse), bzero/bset/bcopy_exact at bit level (a bit is 0 / 1 / the source's bit iff it lies in the interval, unchanged otherwise), bulk_interval (the interval is exactly the fields of regions ⌊start/R⌋..⌊(start+size)/R⌋−1, any alignment) and the lifting to fields via absArr (bzero/bset/bcopy_regions; aligned_regions: for region-aligned arguments these are exactly the regions inside [start,start+size)). Exact differential of break_bit_range and of the three bulk operations on real side metadata + independent oracle.",
    "note": "Trusted: Lean kernel + standard axioms; hand-written model tied by sampling differential; 64-bit contiguous branch only; bcopy assumes non-overlapping source and destination tables.",
    "technique": "Lean 4 proof (tiling predicate over the visited ranges, bit-level fold lemma, lifting through absArr) + exact differential + independent oracle",
}


def main(argv=None):
    return unit.main(Spec(), argv)
