"""Geometry shared by the `side` component checks (C20, C21, C22): the fixed layout of
harness/src/comp/meta/side.rs, written down a third time, independently (closed forms only)."""

BASE = 0x3000_0000_0000          # vvm::SIDE_METADATA_BASE
DATA_BASE = 0x1f0_0000_0000
CHUNK = 1 << 22
META_AREA = BASE + 0x200_0000_0000
META_LO = META_AREA + CHUNK
META_HI = META_AREA + 3 * CHUNK
GUARD = 16
ALL_MAPPED = (1 << 64) - 1


def moff_bits(lb, lr, a):
    """bit offset (from the spec's start) of the field of data address `a` — the closed form."""
    return (a >> lr) << lb


class Geo:
    """One `side new` line and everything derived from it."""

    def __init__(self, lb, lr, d0, n, pos, dmap=ALL_MAPPED, pos2=None):
        self.lb, self.lr, self.d0, self.n, self.dmap = lb, lr, d0, n, dmap
        self.W = 1 << lb
        self.R = 1 << lr
        ds = DATA_BASE + d0
        # choose the spec offset so that the window's first metadata byte is at META_AREA + pos (8-aligned offset)
        off = META_AREA + pos - BASE - (moff_bits(lb, lr, ds) >> 3)
        off -= off % 8
        self.off = off
        self.start = BASE + off
        self.off2 = None
        if pos2 is not None:
            o2 = META_AREA + pos2 - BASE - (moff_bits(lb, lr, ds) >> 3)
            self.off2 = o2 - o2 % 8
        self.ds, self.de = ds, ds + n * self.R
        self.lo, self.hi = self.window(self.start)
        if self.off2 is not None:
            self.lo2, self.hi2 = self.window(BASE + self.off2)

    def window(self, start):
        b0 = 8 * start + moff_bits(self.lb, self.lr, self.ds)
        b1 = 8 * start + moff_bits(self.lb, self.lr, self.de)
        wlo, whi = b0 // 8, (b1 + 7) // 8
        return max(wlo - GUARD, META_LO), min(whi + GUARD, META_HI)

    def valid(self):
        b0 = 8 * self.start + moff_bits(self.lb, self.lr, self.ds)
        b1 = 8 * self.start + moff_bits(self.lb, self.lr, self.de)
        ok = b0 // 8 >= META_LO and (b1 + 7) // 8 <= META_HI and (b1 + 7) // 8 - b0 // 8 <= 4096 and self.off >= 0
        if self.off2 is not None:
            c0 = 8 * (BASE + self.off2) + moff_bits(self.lb, self.lr, self.ds)
            c1 = 8 * (BASE + self.off2) + moff_bits(self.lb, self.lr, self.de)
            ok = ok and c0 // 8 >= META_LO and (c1 + 7) // 8 <= META_HI and self.off2 >= 0
            ok = ok and not (self.lo2 < self.hi and self.lo < self.hi2)
        return ok and self.de <= DATA_BASE + 64 * CHUNK

    def new_line(self):
        o2 = "-" if self.off2 is None else hex(self.off2)
        return f"side new {self.lb} {self.lr} {self.off:#x} {self.d0:#x} {self.n} {self.dmap:#x} {o2}"

    def nbytes(self):
        return self.hi - self.lo

    def field_pos(self, a, start=None):
        """bit index of the field of data offset `a`, relative to bit 0 of the dumped window."""
        start = self.start if start is None else start
        lo = self.lo if start == self.start else self.lo2
        return 8 * start + moff_bits(self.lb, self.lr, DATA_BASE + a) - 8 * lo

    def region_pos(self, r):
        """bit index (relative to the window) of region index r counted from the window's first region."""
        return self.field_pos(self.d0 + r * self.R)

    def data_mapped(self, a):
        k = a >> 22
        return 0 <= k < 64 and (self.dmap >> k) & 1 == 1

    def meta_mapped_bit(self, bit_rel):
        """is the metadata byte holding window-relative bit `bit_rel` mapped?"""
        addr = self.lo + (bit_rel >> 3) if bit_rel >= 0 else self.lo - ((-bit_rel + 7) >> 3)
        return META_LO <= addr < META_HI


def win_int(hexs):
    return int.from_bytes(bytes.fromhex(hexs), "little")


def rand_fill(rng, nbytes):
    style = rng.random()
    if style < 0.12:
        return bytes(nbytes)
    if style < 0.24:
        return bytes([0xff]) * nbytes
    if style < 0.34:
        return bytes(rng.choice([0, 0, 0, 1 << rng.randrange(8)]) for _ in range(nbytes))
    return bytes(rng.getrandbits(8) for _ in range(nbytes))


LRS = [3, 3, 3, 4, 5, 6, 8, 9, 12, 15, 16, 20, 22]


def rand_geo(rng, two=False, max_meta_bytes=64, dmap=ALL_MAPPED, edge=None, lb=None):
    """A random valid window. `edge`: None (interior), "lo" / "hi" (window touches the unmapped meta chunk)."""
    for _ in range(200):
        lb_ = rng.randrange(0, 7)
        lb = lb_ if lb is None else lb
        lr = rng.choice(LRS + [rng.randrange(3, 23)])
        W, R = 1 << lb, 1 << lr
        maxr = (64 * CHUNK) // R
        nmax = max(1, min(maxr, (max_meta_bytes * 8) // W))
        n = rng.choice([1, 2, 3, nmax, max(1, nmax // 2), rng.randrange(1, nmax + 1), rng.randrange(1, nmax + 1)])
        n = min(n, maxr)
        r0 = rng.choice([0, 1, 7, 8, rng.randrange(0, 64), rng.randrange(0, maxr - n + 1)])
        r0 = min(r0, maxr - n)
        nb = (n * W + 7) // 8 + 1
        if edge == "lo":
            pos = CHUNK + rng.choice([0, 0, 8, 1, 3, 16, 24])
        elif edge == "hi":
            pos = 3 * CHUNK - nb - rng.choice([0, 0, 8, 1, 7, 16])
        else:
            pos = rng.choice([CHUNK + 64, CHUNK + 4096 - 8, CHUNK + 4096 - nb // 2, 2 * CHUNK - nb // 2 - 8, 2 * CHUNK,
                              CHUNK + 8 * rng.randrange(8, 1000), CHUNK + rng.randrange(64, 2 * CHUNK - 8192)])
        pos2 = None
        if two:
            pos2 = pos + rng.choice([4096, 8192 + 8, CHUNK // 2, 4096 + 8 * rng.randrange(0, 64)])
            if pos2 + nb + 64 > 3 * CHUNK:
                pos2 = pos - 8192
        g = Geo(lb, lr, r0 * R, n, pos, dmap, pos2)
        if g.valid():
            return g
    raise RuntimeError("no valid geometry")
