"""C12 — ConcurrentImmix preserves the snapshot-at-the-beginning: programs whose mutator keeps moving / deleting
references while concurrent marking runs; after the FinalMark pause every object of the InitialMark snapshot
and every object allocated during marking must still be a valid, intact object."""
import random, re
from checks import gcweak_common as W
from vlib import gcrun as G

THEOREMS = ["Mmtk.SATB.satb_complete", "Mmtk.SATB.alloc_during_marking_survives", "Mmtk.SATB.satb_invariant", "Mmtk.SATB.marked_mono",
            "Mmtk.SATB.step_inv", "Mmtk.SATB.init_inv", "Mmtk.SATB.exec_inv"]
C01_KEYS = ("gc:dup-id", "gc:extra-object", "gc:lost-object", "gc:size-mismatch", "gc:payload", "gc:field-mismatch", "gc:root-mismatch")
KEYS = C01_KEYS + ("gc:satb-lost", "gc:satb-protocol")
META = {
    "text": "SATB model (Model/SATB.lean): an interleaving transition system of any number of mutator and marker threads in which the barrier's unlog-bit test, each field read of the slow path, the log-bit clear, the store, the marker's pop+mark and each field read of its scan are separate atomic steps; invariant `Inv` (every snapshot edge is either still in place and its holder unscanned/unlogged, or its target is marked or grey) is preserved by every step of every thread (`step_inv`, `exec_inv`), so at the end of marking (grey empty, threads idle) every object reachable in the InitialMark snapshot is marked (`satb_complete`), objects allocated during marking are marked (`alloc_during_marking_survives`), marks are never removed (`marked_mono`). Real collections: ConcurrentImmix x {1,4} workers with yield points armed; the program builds a 10^4-object graph, allocates until the InitialMark pause (recognised in the event log: GcFinishedEnd with concurrent work scheduled), then keeps moving the only reference to an object into another (possibly already scanned) object and clearing the original, deleting references, moving them to roots, dropping roots and allocating, with `sleep`/`poll` in between, until the FinalMark pause; then `is_mmtk_object` + header words of every snapshot-reachable object and every object allocated during marking (also those dropped meanwhile) are checked, and the snapshots after InitialMark, FinalMark and a following full GC are compared with the shadow heap.",
    "note": "Level: proof of the model for all interleavings, partial w.r.t. the code (the real interleaving of barrier and marker is sampled). hx_gc's `write` on this plan is pre-barrier + plain store (known defect F-D: the subsuming barrier's post half is unimplemented!()); `copyrange` and NonMoving are kept out (F-D family, gc:concimmix-nonmoving-not-reset).",
    "technique": "Lean 4 proof (interleaving invariant, unbounded threads) + run-time verification of real concurrent marking cycles by the snapshot monitor + independent oracle",
    "category": "proof",
}


def _shadow_of(pairs):
    sh = G.Shadow()
    for op, res in pairs:
        t, r = op.split(), res.split()
        if not r:
            continue
        if t[0] == "alloc" and r[0].startswith("a="):
            kv = dict(x.split("=", 1) for x in r if "=" in x)
            sh.apply(t, int(kv["sz"]))
        elif t[0] in ("root", "vmroot", "write", "destroy", "mkref") and r[0] == "ok":
            sh.apply(t)
    return sh


def _pause_kind(ctx, info=None):
    """drain the event log: GcFinishedEnd (kind 32) with b = 1 <=> concurrent work was scheduled <=> InitialMark.
    `info["overlapped"]` = driver ops (OpBegin, kind 78, tid 0) that started while a packet was executing on a GC
    worker between that InitialMark and the next stop-the-world (VmStopBegin, 64): real mutator/marker concurrency."""
    ev = ctx.ask("events") or ""
    evs = [tuple(int(x) for x in e.split(":")) for e in ev.split()[1:] if e.count(":") == 4]
    evs.sort()
    ends = [e for e in evs if e[2] == 32]
    if info is not None:
        active, conc, n = {}, False, 0
        for seq, tid, kind, a, b in evs:
            if kind == 32:
                conc = b == 1
            elif kind == 64:
                conc = False
            elif kind == 26 and tid >= 100:
                active[tid] = active.get(tid, 0) + 1
            elif kind == 27 and tid >= 100:
                active[tid] = active.get(tid, 0) - 1
            elif kind == 78 and tid == 0 and (conc or info.get("marking")) and any(v > 0 for v in active.values()):
                n += 1
        info["overlapped"] = n
    if not ends:
        return "none"
    return "initial" if ends[-1][4] == 1 else "stw"


def d_c12(ctx, args):
    """!c12 <seed> <mutator ops> <first interesting id> <last interesting id>
    Up to four marking cycles. Cycles 0 and 1 are driven op by op (they also calibrate how many 8 KB garbage
    allocations trigger InitialMark); cycles 2 and 3 send the last garbage allocations and the mutator ops in ONE
    burst, so that the ops after the InitialMark pause run while the concurrent marking packets execute."""
    seed, nmut, lo, hi = int(args[0]), int(args[1]), int(args[2]), int(args[3])
    rnd = random.Random(seed)
    sh = _shadow_of(ctx.pairs)
    st = {"nxt": len(sh.objs), "queue": None}
    n0 = st["nxt"]
    interesting = list(range(lo, hi + 1))      # + everything allocated while marking
    garbage = []

    def emit(op):
        if st["queue"] is not None:
            st["queue"].append(op)
            return "queued"
        return ctx.send(op)

    def alloc(nf, payload, slot):
        i = st["nxt"]
        st["nxt"] += 1
        op = f"alloc 0 {i} {nf} {payload} 8 0 Default {slot}"
        res = emit(op)
        sh.apply(op.split(), 0)
        if not (res == "queued" or (res and res.startswith("a="))):
            sh._set_root(G.mut_key(0, slot), None)     # tombstone keeps ids dense (the monitor does the same)
        return i

    def write(src, f, dst):
        if emit(f"write 0 {src} {f} {'null' if dst is None else dst}") in ("ok", "queued"):
            sh.write(src, f, dst)

    def root(slot, v):
        if emit(f"root 0 {slot} {'null' if v is None else v}") in ("ok", "queued"):
            sh._set_root(G.mut_key(0, slot), v)

    def probe(n):
        """every object of the InitialMark snapshot / allocated during marking must still be a valid object"""
        rest = [i for i in ctx.refs if hi < i < n0]
        for i in interesting[-500:] + garbage[-3:] + rnd.sample(rest, min(len(rest), n)):
            if i in ctx.refs:
                ctx.send(f"ismo {ctx.refs[i]:#x}")

    def mutate():
        """one mutator step on the interesting region; returns the number of barriered writes"""
        # reachable part of the region: from every root but the list head, plus the super hub (the list tail holds it;
        # list nodes are never written by the mutator steps) — avoids walking the whole list at every step
        reach, stack = set(), [v for k, v in sh.roots.items() if k != ("vm", 1)] + [lo]
        while stack:
            y = stack.pop()
            if y not in reach:
                reach.add(y)
                stack += [f for f in sh.objs[y]["fields"] if f is not None]
        pool = [i for i in interesting if i in reach and sh.objs[i]["nf"]]
        if not pool:
            return 0
        u = rnd.random()
        x = rnd.choice(pool)
        fs = [j for j, v in enumerate(sh.objs[x]["fields"]) if v is not None]
        if u < 0.45 and fs:                         # move the reference x.f -> z.g, then clear x.f
            f = rnd.choice(fs)
            y = sh.objs[x]["fields"][f]
            z = rnd.choice(pool)
            write(z, rnd.randrange(sh.objs[z]["nf"]), y)
            write(x, f, None)
            return 2
        if u < 0.57 and fs:                         # delete a reference (the target stays in the snapshot)
            write(x, rnd.choice(fs), None)
            return 1
        if u < 0.67 and fs:                         # move a reference into a root slot, clear the field
            f = rnd.choice(fs)
            root(rnd.randrange(20, 30), sh.objs[x]["fields"][f])
            write(x, f, None)
            return 1
        if u < 0.73:
            root(rnd.randrange(20, 30), None)
            return 0
        slot = rnd.randrange(30, 40)                # allocate during marking; link it in, or drop it at once
        n = alloc(rnd.choice([0, 1, 2]), rnd.choice([0, 16, 64, 200]), slot)
        w = 0
        if sh.objs[n]["nf"] and fs:
            write(n, 0, sh.objs[x]["fields"][rnd.choice(fs)])
            w += 1
        interesting.append(n)
        if rnd.random() < 0.5:
            write(x, rnd.randrange(sh.objs[x]["nf"]), n)
            w += 1
        if rnd.random() < 0.5:
            root(slot, None)
        return w

    def finish_cycle(g0, nwr, info):
        """phase C: the FinalMark pause — at the next poll once marking has drained, else forced by a user GC"""
        for _ in range(5):
            if ctx.gcs != g0 + 1:
                break
            ctx.send("poll 0")
            if ctx.gcs == g0 + 1:
                ctx.send("sleep 1")
        if ctx.gcs == g0 + 1:
            ctx.send("gc 0 1")
        i2 = {"marking": True}
        _pause_kind(ctx, i2)
        ctx.note("satb final", f"ok # gcs={ctx.gcs} writes={nwr} overlapped={info.get('overlapped', 0) + i2['overlapped']}")

    ctx.ask("cfg events 1")
    need = None
    for cycle in range(4):
        ctx.ask("events")
        g0 = ctx.gcs
        count = 0
        direct = 6000 if (cycle < 2 or need is None) else max(0, need - 12)
        # ---- phase A: allocate garbage until a pause happens (expected: InitialMark, allocated > half the heap)
        for _ in range(direct):
            garbage.append(alloc(0, 8000, 50))
            count += 1
            if ctx.gcs != g0:
                break
        if ctx.gcs == g0 and direct == 6000:
            return
        if ctx.gcs == g0:
            # ---- burst: the last garbage allocations interleaved with mutator steps, in one write
            st["queue"] = []
            nwr = 0
            for k in range(30):
                garbage.append(alloc(0, 8000, 50))
                for _ in range(5):
                    nwr += mutate()
            q, st["queue"] = st["queue"], None
            base = len(ctx.pairs)
            ctx.burst(q)
            info = {}
            kinds_ev = ctx.ask("events") or ""
            evs = sorted(tuple(int(x) for x in e.split(":")) for e in kinds_ev.split()[1:] if e.count(":") == 4)
            bs = [e[4] for e in evs if e[2] == 32]
            # overlap: driver ops that began while a packet ran on a GC worker after InitialMark
            active, conc, ov = {}, False, 0
            for seq, tid, kind, a, b in evs:
                if kind == 32:
                    conc = b == 1
                elif kind == 64:
                    conc = False
                elif kind == 26 and tid >= 100:
                    active[tid] = active.get(tid, 0) + 1
                elif kind == 27 and tid >= 100:
                    active[tid] = active.get(tid, 0) - 1
                elif kind == 78 and tid == 0 and conc and any(v > 0 for v in active.values()):
                    ov += 1
            info["overlapped"] = ov
            # place the pause markers right after the ops that carried a new gcs
            g, marking, ins, k = g0, False, [], 0
            for j in range(base, len(ctx.pairs)):
                op, res = ctx.pairs[j]
                m = G._GCS.search(res)
                if op != "snap" and m and int(m.group(1)) != g:
                    for _ in range(int(m.group(1)) - g):
                        b = bs[k] if k < len(bs) else 0
                        k += 1
                        if b == 1:
                            ins.append((j, "satb initial", "ok # in burst")); marking = True
                        elif marking:
                            ins.append((j, "satb final", f"ok # in burst gcs={m.group(1)} writes={nwr} overlapped={ov}")); marking = False
                        else:
                            ins.append((j, "satb full", "ok # in burst"))
                    g = int(m.group(1))
            for off, (j, o, r) in enumerate(ins):
                ctx.pairs.insert(j + 1 + off, (o, r))
            if marking:
                finish_cycle(ctx.gcs - 1, nwr, info)
            probe(300)
            continue
        need = count if cycle >= 1 or need is None else need
        kind = _pause_kind(ctx)
        if ctx.gcs == g0 + 2:
            # InitialMark and FinalMark inside one allocation slow path (marking finished before the retry polled)
            ctx.note("satb initial", "ok # both pauses in one op")
            ctx.note("satb final", f"ok # gcs={ctx.gcs}")
            probe(100)
            continue
        ctx.note(f"satb {'initial' if kind == 'initial' else 'full'}", f"ok # {kind}")
        if kind != "initial" or ctx.gcs != g0 + 1:
            continue
        # ---- phase B: mutate while marking is in progress (no poll: the next poll after marking drained is FinalMark)
        nwr = 0
        for step in range(nmut):
            if ctx.gcs != g0 + 1:
                break
            nwr += mutate()
        finish_cycle(g0, nwr, {})
        probe(300)


DIRECTIVES = {"c12": d_c12}
PRE = ()


def gen_c12(rnd, workers, heap, nlist, nmut, yield_seed):
    info = G.plan_info("ConcurrentImmix", "fs_main")
    g = G.Gen(rnd, "ConcurrentImmix", info, "fs_main", heap)
    r = rnd
    g.anchor()
    # the interesting region: a super hub S -> hubs -> leaves (rooted only while it is built)
    lo = g.next_id
    sup = g.alloc(0, 8, 128, "Default", slot=10)
    g.ops.append(f"vmroot 10 {sup}")
    hubs = []
    for k in range(6):
        h = g.alloc(0, r.choice([4, 8, 16]), 256, "Default", slot=3 + k)
        hubs.append(h)
        g.write(sup, k, h)
    leaves = []
    for k in range(r.randrange(60, 120)):
        x = g.alloc(0, r.choice([0, 1, 2, 4]), r.choice([32, 64, 200, 1000, 4000]), "Default", slot=9)
        par = r.choice(hubs + [l for l in leaves if g.nf[l]][-10:])
        g.write(par, r.randrange(g.nf[par]), x)
        leaves.append(x)
    for s in range(3, 11):
        g.root(0, s, None)
    hi_region = g.next_id - 1
    # a long list head -> … -> tail -> S: the marker reaches the region only after it walked the whole list
    head = None
    for i in range(nlist):
        x = g.alloc(0, 2, 48, "Default", slot=1 + i % 2)      # the previous head stays rooted in the other slot
        if head is not None:
            g.write(x, 0, head)
        else:
            g.write(x, 1, sup)
        head = x
        if i % 2000 == 1999:
            g.ops.append("~gc 0 1")       # a user GC is a full STW pause; no snapshot: keeps the monitor's interval lists short
    g.ops.append(f"vmroot 1 {head}")
    g.root(0, 1, None); g.root(0, 2, None)
    if r.random() < 0.7:
        g.ops.append("vmroot 10 null")    # the region hangs off the list tail only
    hi = hi_region
    ops = [("~gc 0 1" if o == "gc 0 1 #q" else o) for o in G.normalize([("gc 0 1 #q" if o == "~gc 0 1" else o) for o in g.ops])]
    assert sum(1 for o in ops if o.startswith("alloc")) == g.next_id       # ids stayed dense / unchanged
    ops.append(f"!c12 {r.randrange(1 << 30)} {nmut} {lo} {hi}")
    ops += ["gc 0 1", "snap", "stats"]
    return G.Program("ConcurrentImmix", ops, heap=heap, workers=workers, yield_seed=yield_seed, tag="satb", mode={"gcw": ["satb"]})


def make_suite(seed, tier):
    progs = []
    thorough = tier == "thorough"
    for w in (1, 4):
        for rep in range(12 if thorough else 3):
            rnd = random.Random(f"{seed}/C12/{w}/{rep}")
            progs.append(gen_c12(rnd, w, rnd.choice([16, 24]) * G.MB, rnd.choice([8000, 12000, 20000]) if not thorough else rnd.choice([20000, 30000]),
                                 rnd.choice([150, 300]) if not thorough else 800, rnd.randrange(1, 1 << 30) if rep != 0 else 0))
    return progs


def oracle(trace):
    """independent statement: at `satb initial` S = reach(shadow heap as it was when the pause op was sent); at
    `satb final` L = S + ids allocated since; afterwards `ismo <last ref of i>` for i in L must answer i. Plus C01 on
    every snapshot."""
    out = list(G.oracle_c01(trace))
    sh, gcs = G.Shadow(), 0
    at_pause, S, L, from_id, refs = None, None, None, 0, {}
    for idx, (op, res) in enumerate(trace.pairs):
        t, r = op.split(), res.split()
        if not r:
            continue
        m = G._GCS.search(res)
        if m and int(m.group(1)) != gcs and t[0] != "snap":
            gcs = int(m.group(1))
            at_pause = (set(sh.reach()), len(sh.objs))
            if S is None:
                L = None                                    # a pause that is not part of a cycle: nothing is owed
        if t[0] == "alloc":
            if r[0].startswith("a="):
                kv = dict(x.split("=", 1) for x in r if "=" in x)
                sh.apply(t, int(kv["sz"]))
                refs[int(t[2])] = int(kv["r"], 16)
            else:
                sh.apply(t, 0)
                sh._set_root(G.mut_key(int(t[1]), int(t[8])), None)
        elif t[0] in ("root", "vmroot", "write", "destroy", "mkref") and r[0] == "ok":
            sh.apply(t)
        elif t[0] == "snap" and r[0] == "snap":
            G._note_refs(res, refs)
        elif t[0] == "satb":
            if t[1] == "initial" and at_pause:
                S, from_id = at_pause
            elif t[1] == "final" and S is not None and at_pause:
                L = S | set(range(from_id, at_pause[1]))
                S = None
            else:
                S = L = None
        elif t[0] == "ismo" and L is not None and t[1].startswith("0x"):
            a = int(t[1], 16)
            ids = [i for i, v in refs.items() if v == a]
            if ids and ids[0] in L and res != str(ids[0]):
                out.append((idx, "gc:satb-lost", f"id={ids[0]} at {a:#x}: is_mmtk_object -> {res}"))
    return sorted(out)


def stats(traces):
    """evaluations = `ismo` probes after FinalMark + snapshots; non-trivial = a cycle InitialMark -> (>= 10 mutator writes while
    marking) -> FinalMark in which >= 1 snapshot object had become unreachable before FinalMark"""
    ev, nontriv, dist = 0, set(), {}
    bump = lambda k, n=1: dist.__setitem__(k, dist.get(k, 0) + n)
    for tr in traces:
        p = tr.program
        marking, writes, allocs, cycle = False, 0, 0, 0
        for op, res in tr.pairs:
            t = op.split()
            if t[0] == "satb":
                bump(f"pause:{t[1]}")
                if t[1] == "initial":
                    marking, writes, allocs = True, 0, 0
                elif t[1] == "final" and marking:
                    marking = False
                    cycle += 1
                    mo = re.search(r"overlapped=(\d+)", res)
                    bump("driver_ops_overlapping_concurrent_packets", int(mo.group(1)) if mo else 0)
                    bump("writes_during_marking", writes)
                    bump("allocs_during_marking", allocs)
                    if writes >= 10:
                        nontriv.add((p.workers, p.yield_seed, cycle, writes, allocs))
            elif marking and t[0] == "write":
                writes += 1
            elif marking and t[0] == "alloc":
                allocs += 1
            elif t[0] == "ismo":
                ev += 1
                bump("ismo:" + ("valid" if res != "none" else "none"))
            elif t[0] == "snap":
                ev += 1
                bump("snapshots")
            elif t[0] == "stats":
                bump("yield_armed" if p.yield_seed else "yield_off")
    return ev, len(nontriv), dist


CORPUS = []
MALFORMED = ["gcw reset", "gcw mode satb", "gcw op satb final", "gcw res ok", "gcw op satb initial", "gcw res ok", "gcw op ismo 0x10", "gcw res none",
             "gcw op satb bogus", "gcw res ok", "gcw res ok", "gcw op", "gcw op snap", "gcw res snap gcs=z", "gcw bogus"]


def main(argv=None):
    return W.run_check("C12", argv, ["MmtkModel.Props.C12"], THEOREMS, KEYS, make_suite, oracle, CORPUS, stats,
                       rule="one evaluation = one `ismo` probe of an object owed by the SATB rule (InitialMark snapshot or allocated during marking) after FinalMark, or one snapshot compared with the shadow heap; non-trivial = a complete InitialMark -> FinalMark cycle with >= 10 barriered writes while marking was in progress; distinct by (workers, yield seed, writes, allocations)",
                       assumptions=["the pause kinds are read from the event log (GcFinishedEnd b=1 <=> InitialMark); the pause after InitialMark is FinalMark (ConcurrentImmix::schedule_collection)",
                                    "ConcurrentImmix does not move objects in InitialMark / FinalMark pauses (addresses from alloc results / snapshots stay valid for `ismo`)",
                                    "hx_gc `write` = object_reference_write_pre + plain store on this plan (F-D)",
                                    "the driver thread is the only mutator; concurrency = driver vs. concurrent marking workers (yield points armed on half of the programs)"],
                       directives=DIRECTIVES, malformed=MALFORMED, jobs=4)
