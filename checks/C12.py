"""C12 — ConcurrentImmix preserves the snapshot-at-the-beginning: programs whose mutator keeps moving / deleting
references while concurrent marking runs; after the FinalMark pause every object of the InitialMark snapshot
and every object allocated during marking must still be a valid, intact object."""
import argparse, json, os, random, re, time
from checks import gcweak_common as W
from vlib import gcrun as G, engine as E, unit
from vlib.engine import Case, Violation

THEOREMS = ["Mmtk.SATB.satb_complete", "Mmtk.SATB.alloc_during_marking_survives", "Mmtk.SATB.satb_invariant", "Mmtk.SATB.marked_mono",
            "Mmtk.SATB.step_inv", "Mmtk.SATB.init_inv", "Mmtk.SATB.exec_inv",
            # racing barriers of several mutators on ONE object (Model/SATBRace.lean, Props/C12Race.lean)
            "Mmtk.SATBRace.racing_barriers_record_snapshot", "Mmtk.SATBRace.logged_implies_recorded",
            "Mmtk.SATBRace.quiescent_logged", "Mmtk.SATBRace.recorded_was_field_value", "Mmtk.SATBRace.field_value_origin",
            "Mmtk.SATBRace.outcome_sound", "Mmtk.SATBRace.clear_first_loses_snapshot", "Mmtk.SATBRace.same_schedule_original_order",
            "Mmtk.SATBRace.step_inv", "Mmtk.SATBRace.init_inv", "Mmtk.SATBRace.exec_inv"]
MODULES = ["MmtkModel.Props.C12", "MmtkModel.Props.C12Race"]
C01_KEYS = ("gc:dup-id", "gc:extra-object", "gc:lost-object", "gc:size-mismatch", "gc:payload", "gc:field-mismatch", "gc:root-mismatch")
KEYS = C01_KEYS + ("gc:satb-lost", "gc:satb-protocol")
RACE_KEYS = ("race:satb:snapshot-lost", "race:satb:not-logged", "race:satb:spurious-record", "race:satb:field", "race:satb:buffer-shape",
             "race:satb:panic", "race:satb:crash", "race:satb:lean-verdict", "satb:seq:snapshot-lost", "satb:seq:not-logged",
             "satb:seq:spurious-record", "satb:seq:buffer-count")
META = {
    "text": "SATB model (Model/SATB.lean): an interleaving transition system of any number of mutator and marker threads in which the barrier's unlog-bit test, each field read of the slow path, the log-bit clear, the store, the marker's pop+mark and each field read of its scan are separate atomic steps; invariant `Inv` (every snapshot edge is either still in place and its holder unscanned/unlogged, or its target is marked or grey) is preserved by every step of every thread (`step_inv`, `exec_inv`), so at the end of marking (grey empty, threads idle) every object reachable in the InitialMark snapshot is marked (`satb_complete`), objects allocated during marking are marked (`alloc_during_marking_survives`), marks are never removed (`marked_mono`). Real collections: ConcurrentImmix x {1,4} workers with yield points armed; the program builds a 10^4-object graph, allocates until the InitialMark pause (recognised in the event log: GcFinishedEnd with concurrent work scheduled), then keeps moving the only reference to an object into another (possibly already scanned) object and clearing the original, deleting references, moving them to roots, dropping roots and allocating, with `sleep`/`poll` in between, until the FinalMark pause; then `is_mmtk_object` + header words of every snapshot-reachable object and every object allocated during marking (also those dropped meanwhile) are checked, and the snapshots after InitialMark, FinalMark and a following full GC are compared with the shadow heap. Racing barriers (Model/SATBRace.lean, Props/C12Race.lean): any number of mutators store into ONE unlogged object, each store being unlog-bit load -> [field reads one by one into the mutator-local buffer -> unconditional unlog-bit store] -> store, freely interleaved; for every interleaving a snapshot value that was overwritten is in some SATB buffer (`racing_barriers_record_snapshot`), a logged object has all its snapshot referents recorded (`logged_implies_recorded`), at quiescence the object is logged (`quiescent_logged`), nothing spurious is recorded (`recorded_was_field_value`, `field_value_origin`); with the two halves of the slow path swapped a 9-step schedule loses the referent (`clear_first_loses_snapshot`, by `decide`). Tie to the code: hx_unit `satb` drives a real ConcurrentImmix MMTK<VerifVM> in the marking-active state — exact sequential differential of write/probable-write/buffer contents against the model, and real-thread races (2..8 OS threads, each with its own bound mutator, 1..16 fields, spin rendezvous + random stagger + seeded yield points, thousands of rounds per case) whose every distinct outcome (unlog bit, fields, every mutator's SATB buffer) is judged by the executable Lean verdict `Mmtk.SATBRace.verdict` (sound: `outcome_sound`) and by an independent Python oracle.",
    "note": "Level: proof of the model for all interleavings, partial w.r.t. the code (the real interleavings of barrier and marker, and of racing barriers, are sampled). The races need the add-only hooks verif::conc::satb (take/len of the mutator-local SATB buffer, set_concurrent_marking_state). hx_gc's `write` on this plan is pre-barrier + plain store (known defect F-D: the subsuming barrier's post half is unimplemented!()); `copyrange` and NonMoving are kept out (F-D family, gc:concimmix-nonmoving-not-reset).",
    "technique": "Lean 4 proof (interleaving invariants, unbounded threads) + run-time verification of real concurrent marking cycles by the snapshot monitor + exact sequential differential and real-thread races of the SATB barrier judged by a proved-sound Lean verdict + independent oracle",
    "category": "proof",
}


def _shadow_of(pairs):
    sh = G.Shadow()
    for op, res in pairs:
        t, r = op.split(), res.split()
        if not r:
            continue
        if t[0] == "alloc" and r[0].startswith("a="):
            kv = dict(x.split("=", 1) for x in r if "=" in x)
            sh.apply(t, int(kv["sz"]))
        elif t[0] in ("root", "vmroot", "write", "destroy", "mkref") and r[0] == "ok":
            sh.apply(t)
    return sh


def _pause_kind(ctx, info=None):
    """drain the event log: GcFinishedEnd (kind 32) with b = 1 <=> concurrent work was scheduled <=> InitialMark.
    `info["overlapped"]` = driver ops (OpBegin, kind 78, tid 0) that started while a packet was executing on a GC
    worker between that InitialMark and the next stop-the-world (VmStopBegin, 64): real mutator/marker concurrency."""
    ev = ctx.ask("events") or ""
    evs = [tuple(int(x) for x in e.split(":")) for e in ev.split()[1:] if e.count(":") == 4]
    evs.sort()
    ends = [e for e in evs if e[2] == 32]
    if info is not None:
        active, conc, n = {}, False, 0
        for seq, tid, kind, a, b in evs:
            if kind == 32:
                conc = b == 1
            elif kind == 64:
                conc = False
            elif kind == 26 and tid >= 100:
                active[tid] = active.get(tid, 0) + 1
            elif kind == 27 and tid >= 100:
                active[tid] = active.get(tid, 0) - 1
            elif kind == 78 and tid == 0 and (conc or info.get("marking")) and any(v > 0 for v in active.values()):
                n += 1
        info["overlapped"] = n
    if not ends:
        return "none"
    return "initial" if ends[-1][4] == 1 else "stw"


def d_c12(ctx, args):
    """!c12 <seed> <mutator ops> <first interesting id> <last interesting id>
    Up to four marking cycles. Cycles 0 and 1 are driven op by op (they also calibrate how many 8 KB garbage
    allocations trigger InitialMark); cycles 2 and 3 send the last garbage allocations and the mutator ops in ONE
    burst, so that the ops after the InitialMark pause run while the concurrent marking packets execute."""
    seed, nmut, lo, hi = int(args[0]), int(args[1]), int(args[2]), int(args[3])
    rnd = random.Random(seed)
    sh = _shadow_of(ctx.pairs)
    st = {"nxt": len(sh.objs), "queue": None}
    n0 = st["nxt"]
    interesting = list(range(lo, hi + 1))      # + everything allocated while marking
    garbage = []

    def emit(op):
        if st["queue"] is not None:
            st["queue"].append(op)
            return "queued"
        return ctx.send(op)

    def alloc(nf, payload, slot):
        i = st["nxt"]
        st["nxt"] += 1
        op = f"alloc 0 {i} {nf} {payload} 8 0 Default {slot}"
        res = emit(op)
        sh.apply(op.split(), 0)
        if not (res == "queued" or (res and res.startswith("a="))):
            sh._set_root(G.mut_key(0, slot), None)     # tombstone keeps ids dense (the monitor does the same)
        return i

    def write(src, f, dst):
        if emit(f"write 0 {src} {f} {'null' if dst is None else dst}") in ("ok", "queued"):
            sh.write(src, f, dst)

    def root(slot, v):
        if emit(f"root 0 {slot} {'null' if v is None else v}") in ("ok", "queued"):
            sh._set_root(G.mut_key(0, slot), v)

    def probe(n):
        """every object of the InitialMark snapshot / allocated during marking must still be a valid object"""
        rest = [i for i in ctx.refs if hi < i < n0]
        for i in interesting[-500:] + garbage[-3:] + rnd.sample(rest, min(len(rest), n)):
            if i in ctx.refs:
                ctx.send(f"ismo {ctx.refs[i]:#x}")

    def mutate():
        """one mutator step on the interesting region; returns the number of barriered writes"""
        # reachable part of the region: from every root but the list head, plus the super hub (the list tail holds it;
        # list nodes are never written by the mutator steps) — avoids walking the whole list at every step
        def reach_set():
            reach, stack = set(), [v for k, v in sh.roots.items() if k != ("vm", 1)] + [lo]
            while stack:
                y = stack.pop()
                if y not in reach:
                    reach.add(y)
                    stack += [f for f in sh.objs[y]["fields"] if f is not None]
            return reach
        reach = reach_set()
        pool = [i for i in interesting if i in reach and sh.objs[i]["nf"]]
        if not pool:
            return 0
        u = rnd.random()
        x = rnd.choice(pool)
        fs = [j for j, v in enumerate(sh.objs[x]["fields"]) if v is not None]
        if u < 0.45 and fs:                         # move the reference x.f -> z.g, then clear x.f
            f = rnd.choice(fs)
            y = sh.objs[x]["fields"][f]
            z = rnd.choice(pool)
            write(z, rnd.randrange(sh.objs[z]["nf"]), y)
            write(x, f, None)
            return 2
        if u < 0.57 and fs:                         # delete a reference (the target stays in the snapshot)
            write(x, rnd.choice(fs), None)
            return 1
        if u < 0.67 and fs:                         # move a reference into a root slot, clear the field
            f = rnd.choice(fs)
            root(rnd.randrange(20, 30), sh.objs[x]["fields"][f])
            write(x, f, None)
            return 1
        if u < 0.73:
            root(rnd.randrange(20, 30), None)
            return 0
        slot = rnd.randrange(30, 40)                # allocate during marking; link it in, or drop it at once
        n = alloc(rnd.choice([0, 1, 2]), rnd.choice([0, 16, 64, 200]), slot)
        # the allocation re-used root slot `slot`: if that slot held the only path to x, x (and what only x reaches) is
        # garbage now — hx_gc forgets garbage ids at the next pause (`err unknown-id`), so it must not be written any more
        live = reach_set()
        w = 0
        if sh.objs[n]["nf"] and fs:
            y = sh.objs[x]["fields"][rnd.choice(fs)]
            if y in live:
                write(n, 0, y)
                w += 1
        interesting.append(n)
        if rnd.random() < 0.5 and x in live:
            write(x, rnd.randrange(sh.objs[x]["nf"]), n)
            w += 1
        if rnd.random() < 0.5:
            root(slot, None)
        return w

    def finish_cycle(g0, nwr, info):
        """phase C: the FinalMark pause — at the next poll once marking has drained, else forced by a user GC"""
        for _ in range(5):
            if ctx.gcs != g0 + 1:
                break
            ctx.send("poll 0")
            if ctx.gcs == g0 + 1:
                ctx.send("sleep 1")
        if ctx.gcs == g0 + 1:
            ctx.send("gc 0 1")
        i2 = {"marking": True}
        _pause_kind(ctx, i2)
        ctx.note("satb final", f"ok # gcs={ctx.gcs} writes={nwr} overlapped={info.get('overlapped', 0) + i2['overlapped']}")

    ctx.ask("cfg events 1")
    need = None
    for cycle in range(4):
        ctx.ask("events")
        g0 = ctx.gcs
        count = 0
        direct = 6000 if (cycle < 2 or need is None) else max(0, need - 12)
        # ---- phase A: allocate garbage until a pause happens (expected: InitialMark, allocated > half the heap)
        for _ in range(direct):
            garbage.append(alloc(0, 8000, 50))
            count += 1
            if ctx.gcs != g0:
                break
        if ctx.gcs == g0 and direct == 6000:
            return
        if ctx.gcs == g0:
            # ---- burst: the last garbage allocations interleaved with mutator steps, in one write
            st["queue"] = []
            nwr = 0
            for k in range(30):
                garbage.append(alloc(0, 8000, 50))
                for _ in range(5):
                    nwr += mutate()
            q, st["queue"] = st["queue"], None
            base = len(ctx.pairs)
            ctx.burst(q)
            info = {}
            kinds_ev = ctx.ask("events") or ""
            evs = sorted(tuple(int(x) for x in e.split(":")) for e in kinds_ev.split()[1:] if e.count(":") == 4)
            bs = [e[4] for e in evs if e[2] == 32]
            # overlap: driver ops that began while a packet ran on a GC worker after InitialMark
            active, conc, ov = {}, False, 0
            for seq, tid, kind, a, b in evs:
                if kind == 32:
                    conc = b == 1
                elif kind == 64:
                    conc = False
                elif kind == 26 and tid >= 100:
                    active[tid] = active.get(tid, 0) + 1
                elif kind == 27 and tid >= 100:
                    active[tid] = active.get(tid, 0) - 1
                elif kind == 78 and tid == 0 and conc and any(v > 0 for v in active.values()):
                    ov += 1
            info["overlapped"] = ov
            # place the pause markers right after the ops that carried a new gcs
            g, marking, ins, k = g0, False, [], 0
            for j in range(base, len(ctx.pairs)):
                op, res = ctx.pairs[j]
                m = G._GCS.search(res)
                if op != "snap" and m and int(m.group(1)) != g:
                    for _ in range(int(m.group(1)) - g):
                        b = bs[k] if k < len(bs) else 0
                        k += 1
                        if b == 1:
                            ins.append((j, "satb initial", "ok # in burst")); marking = True
                        elif marking:
                            ins.append((j, "satb final", f"ok # in burst gcs={m.group(1)} writes={nwr} overlapped={ov}")); marking = False
                        else:
                            ins.append((j, "satb full", "ok # in burst"))
                    g = int(m.group(1))
            for off, (j, o, r) in enumerate(ins):
                ctx.pairs.insert(j + 1 + off, (o, r))
            if marking:
                finish_cycle(ctx.gcs - 1, nwr, info)
            probe(300)
            continue
        need = count if cycle >= 1 or need is None else need
        kind = _pause_kind(ctx)
        if ctx.gcs == g0 + 2:
            # InitialMark and FinalMark inside one allocation slow path (marking finished before the retry polled)
            ctx.note("satb initial", "ok # both pauses in one op")
            ctx.note("satb final", f"ok # gcs={ctx.gcs}")
            probe(100)
            continue
        ctx.note(f"satb {'initial' if kind == 'initial' else 'full'}", f"ok # {kind}")
        if kind != "initial" or ctx.gcs != g0 + 1:
            continue
        # ---- phase B: mutate while marking is in progress (no poll: the next poll after marking drained is FinalMark)
        nwr = 0
        for step in range(nmut):
            if ctx.gcs != g0 + 1:
                break
            nwr += mutate()
        finish_cycle(g0, nwr, {})
        probe(300)


DIRECTIVES = {"c12": d_c12}
PRE = ()


def gen_c12(rnd, workers, heap, nlist, nmut, yield_seed, wide=0):
    info = G.plan_info("ConcurrentImmix", "fs_main")
    g = G.Gen(rnd, "ConcurrentImmix", info, "fs_main", heap)
    r = rnd
    g.anchor()
    # the interesting region: a super hub S -> hubs -> leaves (rooted only while it is built)
    lo = g.next_id
    sup = g.alloc(0, 8, 128, "Default", slot=10)
    g.ops.append(f"vmroot 10 {sup}")
    hubs = []
    for k in range(6):
        h = g.alloc(0, r.choice([4, 8, 16]), 256, "Default", slot=3 + k)
        hubs.append(h)
        g.write(sup, k, h)
    leaves = []
    for k in range(r.randrange(60, 120)):
        x = g.alloc(0, r.choice([0, 1, 2, 4]), r.choice([32, 64, 200, 1000, 4000]), "Default", slot=9)
        par = r.choice(hubs + [l for l in leaves if g.nf[l]][-10:])
        g.write(par, r.randrange(g.nf[par]), x)
        leaves.append(x)
    for s in range(3, 11):
        g.root(0, s, None)
    hi_region = g.next_id - 1
    # optional wide fan-out (hangs off the list tail, outside the mutated region): ONE object with `wide` >= 16384 distinct
    # unmarked referents, each with a child of its own — the local queue of the concurrent tracing packet that scans it
    # overflows (CONCURRENT_TRACE_OVERFLOW) and the first 8192 queued objects are handed to a new packet
    wob = None
    if wide:
        wob = g.alloc(0, wide, 24 + 8 * wide + 8, "Los", slot=11)
        for k in range(wide):
            c = g.alloc(0, 1, 40, "Default", slot=9)
            gc_ = g.alloc(0, 0, 40, "Default", slot=8)
            g.write(c, 0, gc_)
            g.write(wob, k, c)
        g.root(0, 8, None); g.root(0, 9, None)
    # a long list head -> … -> tail -> S: the marker reaches the region only after it walked the whole list
    head = None
    for i in range(nlist):
        x = g.alloc(0, 2, 48, "Default", slot=1 + i % 2)      # the previous head stays rooted in the other slot
        if head is not None:
            g.write(x, 0, head)
        else:
            g.write(x, 1, sup)
            if wob is not None:
                g.write(x, 0, wob)
                g.root(0, 11, None)
        head = x
        if i % 2000 == 1999:
            g.ops.append("~gc 0 1")       # a user GC is a full STW pause; no snapshot: keeps the monitor's interval lists short
    g.ops.append(f"vmroot 1 {head}")
    g.root(0, 1, None); g.root(0, 2, None)
    if r.random() < 0.7:
        g.ops.append("vmroot 10 null")    # the region hangs off the list tail only
    hi = hi_region
    ops = [("~gc 0 1" if o == "gc 0 1 #q" else o) for o in G.normalize([("gc 0 1 #q" if o == "~gc 0 1" else o) for o in g.ops])]
    assert sum(1 for o in ops if o.startswith("alloc")) == g.next_id       # ids stayed dense / unchanged
    ops.append(f"!c12 {r.randrange(1 << 30)} {nmut} {lo} {hi}")
    ops += ["gc 0 1", "snap", "stats"]
    return G.Program("ConcurrentImmix", ops, heap=heap, workers=workers, yield_seed=yield_seed, tag="satb-wide" if wide else "satb",
                     mode={"gcw": ["satb"]})


def make_suite(seed, tier):
    progs = []
    thorough = tier == "thorough"
    for w in (1, 4):
        for rep in range(12 if thorough else 3):
            rnd = random.Random(f"{seed}/C12/{w}/{rep}")
            progs.append(gen_c12(rnd, w, rnd.choice([16, 24]) * G.MB, rnd.choice([8000, 12000, 20000]) if not thorough else rnd.choice([20000, 30000]),
                                 rnd.choice([150, 300]) if not thorough else 800, rnd.randrange(1, 1 << 30) if rep != 0 else 0,
                                 wide=rnd.choice([16500, 17000, 20000]) if rep % 3 == 1 and (thorough or w == 1) else 0))
    return progs


def oracle(trace):
    """independent statement: at `satb initial` S = reach(shadow heap as it was when the pause op was sent); at
    `satb final` L = S + ids allocated since; afterwards `ismo <last ref of i>` for i in L must answer i. Plus C01 on
    every snapshot."""
    out = list(G.oracle_c01(trace))
    sh, gcs = G.Shadow(), 0
    at_pause, S, L, from_id, refs = None, None, None, 0, {}
    for idx, (op, res) in enumerate(trace.pairs):
        t, r = op.split(), res.split()
        if not r:
            continue
        m = G._GCS.search(res)
        if m and int(m.group(1)) != gcs and t[0] != "snap":
            gcs = int(m.group(1))
            at_pause = (set(sh.reach()), len(sh.objs))
            if S is None:
                L = None                                    # a pause that is not part of a cycle: nothing is owed
        if t[0] == "alloc":
            if r[0].startswith("a="):
                kv = dict(x.split("=", 1) for x in r if "=" in x)
                sh.apply(t, int(kv["sz"]))
                refs[int(t[2])] = int(kv["r"], 16)
            else:
                sh.apply(t, 0)
                sh._set_root(G.mut_key(int(t[1]), int(t[8])), None)
        elif t[0] in ("root", "vmroot", "write", "destroy", "mkref") and r[0] == "ok":
            sh.apply(t)
        elif t[0] == "snap" and r[0] == "snap":
            G._note_refs(res, refs)
        elif t[0] == "satb":
            if t[1] == "initial" and at_pause:
                S, from_id = at_pause
            elif t[1] == "final" and S is not None and at_pause:
                L = S | set(range(from_id, at_pause[1]))
                S = None
            else:
                S = L = None
        elif t[0] == "ismo" and L is not None and t[1].startswith("0x"):
            a = int(t[1], 16)
            ids = [i for i, v in refs.items() if v == a]
            if ids and ids[0] in L and res != str(ids[0]):
                out.append((idx, "gc:satb-lost", f"id={ids[0]} at {a:#x}: is_mmtk_object -> {res}"))
    return sorted(out)


def stats(traces):
    """evaluations = `ismo` probes after FinalMark + snapshots; non-trivial = a cycle InitialMark -> (>= 10 mutator writes while
    marking) -> FinalMark in which >= 1 snapshot object had become unreachable before FinalMark"""
    ev, nontriv, dist = 0, set(), {}
    bump = lambda k, n=1: dist.__setitem__(k, dist.get(k, 0) + n)
    for tr in traces:
        p = tr.program
        marking, writes, allocs, cycle = False, 0, 0, 0
        for op, res in tr.pairs:
            t = op.split()
            if t[0] == "satb":
                bump(f"pause:{t[1]}")
                if t[1] == "initial":
                    marking, writes, allocs = True, 0, 0
                elif t[1] == "final" and marking:
                    marking = False
                    cycle += 1
                    mo = re.search(r"overlapped=(\d+)", res)
                    bump("driver_ops_overlapping_concurrent_packets", int(mo.group(1)) if mo else 0)
                    bump("writes_during_marking", writes)
                    bump("allocs_during_marking", allocs)
                    if writes >= 10:
                        nontriv.add((p.workers, p.yield_seed, cycle, writes, allocs))
            elif marking and t[0] == "write":
                writes += 1
            elif marking and t[0] == "alloc":
                allocs += 1
            elif t[0] == "ismo":
                ev += 1
                bump("ismo:" + ("valid" if res != "none" else "none"))
            elif t[0] == "snap":
                ev += 1
                bump("snapshots")
            elif t[0] == "stats":
                bump("yield_armed" if p.yield_seed else "yield_off")
    return ev, len(nontriv), dist


CORPUS = []
MALFORMED = ["gcw reset", "gcw mode satb", "gcw op satb final", "gcw res ok", "gcw op satb initial", "gcw res ok", "gcw op ismo 0x10", "gcw res none",
             "gcw op satb bogus", "gcw res ok", "gcw res ok", "gcw op", "gcw op snap", "gcw res snap gcs=z", "gcw bogus"]


# ================================================================================================================
# Racing SATB barriers: several mutators, each on its own OS thread with its own bound mutator, store into ONE
# unlogged object of a real ConcurrentImmix instance while "concurrent marking" is active (hx_unit component `satb`,
# harness/src/comp/conc/satb.rs). (1) exact sequential differential of the barrier against Model/SATBRace.lean;
# (2) real-thread races: every distinct outcome is judged by the executable Lean predicate `Mmtk.SATBRace.verdict`
# (`mmtk_model satb judge`, proved sound: outcome_sound) AND by the Python oracle below.
# ================================================================================================================
NVALS, MAXT, MAXK = 96, 8, 16


def _csv(xs):
    return ",".join(str(x) for x in xs) if xs else "-"


def _parse_csv(tok):
    """-> list of ints; a token that is no number (raw:<hex>) stays a string"""
    if tok == "-":
        return []
    return [int(x) if x.isdigit() else x for x in tok.split(",")]


class RaceCase:
    def __init__(self, nt, yseed, rounds, stagger, snap, writes):
        self.nt, self.yseed, self.rounds, self.stagger, self.snap, self.writes = nt, yseed, rounds, stagger, snap, writes

    def line(self):
        ws = " ".join(",".join(f"{f}={v}" for f, v in w) if w else "-" for w in self.writes)
        return f"satb race {self.nt} {self.yseed} {self.rounds} {self.stagger} {len(self.snap)} {_csv(self.snap)} {ws}"

    @staticmethod
    def parse(line):
        t = line.split()
        assert t[:2] == ["satb", "race"], line
        nt, k = int(t[2]), int(t[6])
        writes = [[] if w == "-" else [tuple(int(x) for x in p.split("=")) for p in w.split(",")] for w in t[8:8 + nt]]
        return RaceCase(nt, int(t[3]), int(t[4]), int(t[5]), _parse_csv(t[7]), writes)

    def all_writes(self):
        return [p for w in self.writes for p in w]


def parse_outcomes(line):
    """`<n>x@<round> u=<b> f=<csv> b0=<csv> … [p=<csv>] ;; …` -> [dict] or None (hang / crash / garbage)"""
    if not line or not re.match(r"^\d+x@\d+ u=", line):
        return None
    out = []
    for part in line.split(" ;; "):
        t = part.split()
        m = re.match(r"^(\d+)x@(\d+)$", t[0])
        kv = dict(x.split("=", 1) for x in t[1:])
        if not m or "u" not in kv or "f" not in kv:
            return None
        nb = sum(1 for key in kv if re.match(r"^b\d+$", key))
        out.append({"count": int(m.group(1)), "round": int(m.group(2)), "u": int(kv["u"]), "f": _parse_csv(kv["f"]),
                    "bufs": [_parse_csv(kv[f"b{i}"]) for i in range(nb)], "panicked": _parse_csv(kv.get("p", "-")), "text": part})
    return out


def race_oracle(rc, o):
    """The property's own statement on ONE observed outcome (independent of the Lean model): [(key, what)]"""
    bad = []
    snap, allw = rc.snap, rc.all_writes()
    union = [v for b in o["bufs"] for v in b]
    if o["panicked"]:
        bad.append(("race:satb:panic", f"threads {o['panicked']} panicked inside the barrier"))
    if len(o["f"]) != len(snap) or len(o["bufs"]) != rc.nt:
        bad.append(("race:satb:crash", f"outcome has the wrong shape: {o['text']}"))
        return bad
    if allw and o["u"] != 0:
        bad.append(("race:satb:not-logged", "stores were made through the barrier but the object's unlog bit is still set"))
    # the SATB rule: a snapshot referent whose field was overwritten (or whose holder is logged) is in some SATB buffer
    lost = [(j, x) for j, x in enumerate(snap) if x != 0 and x not in union and (o["u"] == 0 or o["f"][j] != x)]
    if lost:
        j, x = lost[0]
        bad.append(("race:satb:snapshot-lost",
                    f"snapshot referent {x} of field {j} (now {o['f'][j]}, object {'logged' if o['u'] == 0 else 'unlogged'}) is in NO mutator's SATB buffer "
                    f"(buffers {[_csv(b) for b in o['bufs']]}): nobody will mark it — it is reclaimed at FinalMark although reachable at InitialMark"))
    written = {v for _, v in allw}
    for t, b in enumerate(o["bufs"]):
        sp = [v for v in b if not isinstance(v, int) or v == 0 or (v not in snap and v not in written)]
        if sp:
            bad.append(("race:satb:spurious-record", f"mutator {t} recorded {sp[0]}, which never was a value of a field of the object"))
        if (not rc.writes[t] and b) or len(b) > len(snap) * len(rc.writes[t]):
            bad.append(("race:satb:buffer-shape", f"mutator {t} made {len(rc.writes[t])} stores into a {len(snap)}-field object but its buffer holds {len(b)} entries"))
    for j, x in enumerate(o["f"]):
        wj = [v for f, v in allw if f == j]
        if (wj and x not in wj) or (not wj and x != snap[j]):
            bad.append(("race:satb:field", f"field {j} ends as {x}; snapshot {snap[j]}, values stored into it {wj}"))
    return bad


def judge_line(rc, o):
    ws = ",".join(f"{f}={v}" for f, v in rc.all_writes()) or "-"
    return f"satb judge {_csv(rc.snap)} {ws} {o['u']} {_csv(o['f'])} {_csv([v for b in o['bufs'] for v in b])}"


def gen_races(rng, tier):
    thorough = tier == "thorough"
    rounds = 20000 if thorough else 2500
    cases = []

    def mk(nt, k, stagger, yseed, shape):
        snap = list(range(1, k + 1))
        if shape == "nulls":
            for j in rng.sample(range(k), max(1, k // 3)):
                snap[j] = 0
            if not any(snap):
                snap[0] = 1
        elif shape == "dups" and k > 1:
            snap[rng.randrange(1, k)] = snap[0]
        writes = []
        for t in range(nt):
            n = rng.choice([1, 1, 2, 3])
            w = []
            for i in range(n):
                f = rng.randrange(k) if rng.random() < 0.7 else k - 1          # late fields: the widest window
                u = rng.random()
                v = 0 if u < 0.12 else (rng.choice([x for x in snap if x] or [1]) if u < 0.22 else 20 + 8 * t + i)
                w.append((f, v))
            writes.append(w)
        if shape == "idle" and nt > 2:
            writes[rng.randrange(nt)] = []
        return RaceCase(nt, yseed, rounds, stagger, snap, writes)

    # the minimal shape of the lost-snapshot schedule first: 2 mutators, one store each
    for k, stagger, ys in ((1, 100, 0), (1, 400, 1), (2, 200, 0), (4, 300, 1), (8, 1000, 1), (16, 2000, 0)):
        cases.append(RaceCase(2, rng.randrange(1, 1 << 30) if ys else 0, rounds, stagger, list(range(1, k + 1)), [[(k - 1, 20)], [(k - 1, 28)]]))
    n = 40 if thorough else 14
    for i in range(n):
        nt = rng.choice([2, 2, 3, 4, 4, 8])
        k = rng.choice([1, 2, 3, 4, 8, 16])
        stagger = rng.choice([0, 60, 200, 600, 2000, 5000])
        yseed = 0 if i % 4 == 0 else rng.randrange(1, 1 << 30)
        cases.append(mk(nt, k, stagger, yseed, rng.choice(["plain", "plain", "nulls", "dups", "idle"])))
    return cases


def run_satb_races(tier, seed, violations, stats):
    exe, err, bs = E.cargo_build("hx_unit", fs="fs_main")
    if exe is None:
        violations.append(Violation("harness-build-failed", "hx_unit no longer builds: " + err[-1500:], found_input=False, broken="harness build (hooks/API changed)"))
        return
    rng = random.Random(seed * 6151 + 17)
    rcs = gen_races(rng, tier)
    cases = [Case([rc.line()], ["cfg debug 1"], "satb-race") for rc in rcs]
    t0 = time.time()
    outs = E.run_cases(exe, cases, timeout=1500, env={"VERIF_PLAN": "ConcurrentImmix"})
    stats["race_s"] = round(time.time() - t0, 1)
    parsed = [parse_outcomes(o[0] if o else "") for o in outs]
    jcases = [Case([judge_line(rc, o) for o in (po or [])] or ["satb state"], ["cfg debug 1"]) for rc, po in zip(rcs, parsed)]
    verdicts = E.run_cases(E.model_exe(), jcases, timeout=900)
    seen, nrej, nrounds, nout, overlapped = set(), 0, 0, 0, 0
    dist = {}
    bump = lambda key, n=1: dist.__setitem__(key, dist.get(key, 0) + n)
    for rc, c, raw, po, v in zip(rcs, cases, outs, parsed, verdicts):
        where = f"threads={rc.nt} yield_seed={rc.yseed} stagger={rc.stagger} fields={len(rc.snap)}: `{rc.line()}`"
        if po is None:
            key = "race:satb:crash"
            if key not in seen:
                seen.add(key)
                violations.append(Violation(key, f"the race did not finish / printed garbage: {str(raw)[:300]} [{where}]", c, raw, None, True))
            continue
        bump(f"race_threads:{rc.nt}"); bump(f"race_fields:{len(rc.snap)}"); bump("race_yield_armed" if rc.yseed else "race_yield_off")
        for o, lv in zip(po, v + ["missing"] * (len(po) - len(v))):
            nrounds += o["count"]
            nout += 1
            slow = sum(1 for b in o["bufs"] if b)
            bump(f"rounds_with_{min(slow, 3)}{'+' if slow >= 3 else ''}_mutators_in_slow_path", o["count"])
            # real overlap: a buffer holds a value ANOTHER thread stored in this round (its scan ran after that store), or a
            # mutator skipped the barrier (saw `logged`) although it was released together with the others
            stored = [{v for _, v in w} for w in rc.writes]
            if any(x in stored[u] and x not in rc.snap for t, b in enumerate(o["bufs"]) for x in b for u in range(rc.nt) if u != t and isinstance(x, int)) \
                    or any(not b and rc.writes[t] for t, b in enumerate(o["bufs"])):
                overlapped += o["count"]
            orc = race_oracle(rc, o)
            if lv != "ok":
                nrej += 1
                if not orc:
                    orc = [("race:satb:lean-verdict", f"outcome rejected by the executable Lean predicate ({lv}) but accepted by the Python oracle")]
            for key, what in orc:
                if key in seen:
                    continue
                seen.add(key)
                violations.append(Violation(key, f"{what} [race: {where}; round {o['round']} (and {o['count'] - 1} more rounds): {o['text']}; Lean verdict: {lv}]",
                                            c, [o["text"]], [lv], True))
    stats.update({"races": len(rcs), "race_rounds": nrounds, "race_distinct_outcomes": nout, "race_rejected_by_lean": nrej,
                  "race_rounds_with_observed_overlap": overlapped, "race_distribution": dist,
                  "race_samples": [{"case": rc.line(), "first_outcomes": [o["text"] for o in (po or [])[:3]], "lean_verdicts": v[:3]}
                                   for rc, po, v in list(zip(rcs, parsed, verdicts))[:3]]})


class SeqSpec(unit.UnitSpec):
    """exact sequential differential of the barrier (one mutator at a time) against Model/SATBRace.lean"""
    pid = "C12"
    component = "satb"
    relation = ("Mmtk.SATBRace.runToIdle (one mutator run alone to the end of its store) ≙ memory_manager::object_reference_write_pre + "
                "store / Barrier::object_probable_write on a ConcurrentImmix mutator; buffers via verif::conc::satb::take_satb_buffer")
    release_in_thorough = True

    def gen(self, rng, tier, debug):
        cases = []
        n = 400 if tier == "thorough" else 90
        for i in range(n):
            k = rng.choice([1, 1, 2, 3, 4, 8, 15, 16])
            unlog = 0 if rng.random() < 0.15 else 1
            vals = [0 if rng.random() < 0.2 else rng.randrange(1, NVALS + 1) for _ in range(k)]
            if rng.random() < 0.2 and k > 1:
                vals[-1] = vals[0]
            ops = [f"satb reset {k} {unlog} " + " ".join(map(str, vals))]
            for _ in range(rng.randrange(1, 25)):
                u = rng.random()
                t = rng.randrange(MAXT) if rng.random() < 0.8 else rng.choice([0, MAXT - 1])
                if u < 0.6:
                    ops.append(f"satb write {t} {rng.randrange(k)} {rng.choice([0, rng.randrange(1, NVALS + 1), NVALS, vals[0]])}")
                elif u < 0.7:
                    ops.append(f"satb probable {t}")
                elif u < 0.85:
                    ops.append(f"satb take {t}")
                elif u < 0.93:
                    ops.append("satb state")
                else:   # out-of-range arguments: both sides answer bad-op and keep their state
                    ops.append(rng.choice([f"satb write {MAXT} 0 1", f"satb write 0 {k} 1", f"satb write 0 0 {NVALS + 1}", f"satb probable {MAXT}",
                                           f"satb take {MAXT}", "satb write 1 2", "satb bogus", f"satb reset {k} 2 " + " ".join(["1"] * k),
                                           f"satb reset {k} 1 " + " ".join(["1"] * (k + 1)), "satb reset 0 1", f"satb reset {MAXK + 1} 1 " + " ".join(["1"] * (MAXK + 1))]))
            ops += [f"satb take {t}" for t in range(MAXT)] + ["satb state"]
            cases.append(Case(ops, tag="satb-seq"))
        return cases

    def corpus(self, debug):
        return [Case(["satb state", "satb write 0 0 1", "satb take 0", "satb", "satb reset 1 1 5", "satb write 0 0 0", "satb take 0", "satb state",
                      "satb reset 2 1 1 2 3", "satb state", "satb write 7 1 96", "satb write 6 0 1", "satb take 7", "satb take 6", "satb take 7"], tag="satb-malformed"),
                Case(["satb reset 16 1 " + " ".join(str(i) for i in range(1, 17)), "satb write 0 15 40", "satb write 1 0 41", "satb probable 2",
                      "satb take 0", "satb take 1", "satb take 2", "satb state"], tag="satb-seq")]

    def oracle(self, case, out):
        """the SATB rule on a sequential history that starts unlogged: after the first store the object is logged and every
        non-null snapshot referent has been handed out by some `take`; nothing else than field values is handed out"""
        bad, snap, unlog, written, taken, pending, nwrites = [], None, None, set(), [], {}, 0
        for op, res in zip(case.ops, out):
            t = op.split()
            if len(t) < 2 or res in ("bad-op", "unsupported") or res.startswith("panic"):
                continue
            if t[1] == "reset":
                if snap is not None:
                    bad += self._end(snap, unlog, written, taken, nwrites)
                snap, unlog, written, taken, pending, nwrites = [int(x) for x in t[4:]], int(t[3]), set(), [], {}, 0
            elif snap is None:
                continue
            elif t[1] in ("write", "probable"):
                kv = dict(x.split("=", 1) for x in res.split())
                if t[1] == "write":
                    nwrites += 1
                    written.add(int(t[4]))
                    if kv.get("u") != "0":
                        bad.append(("satb:seq:not-logged", f"`{op}` -> `{res}`: the object is still unlogged after a store through the barrier"))
                pending[int(t[2])] = int(kv.get("n", -1))
            elif t[1] == "take":
                b = _parse_csv(res.split("=", 1)[1]) if res.startswith("b=") else None
                if b is None or (int(t[2]) in pending and pending[int(t[2])] != len(b)):
                    bad.append(("satb:seq:buffer-count", f"`{op}` -> `{res}` but the previous op reported n={pending.get(int(t[2]))}"))
                pending.pop(int(t[2]), None)
                taken += b or []
        if snap is not None and case.ops[-1] == "satb state":
            bad += self._end(snap, unlog, written, taken, nwrites)
        return bad

    @staticmethod
    def _end(snap, unlog, written, taken, nwrites):
        bad = []
        if unlog == 1 and nwrites:
            lost = [x for x in snap if x and x not in taken]
            if lost:
                bad.append(("satb:seq:snapshot-lost", f"snapshot referents {lost} were never recorded although the object was written through the barrier"))
        sp = [v for v in taken if not isinstance(v, int) or v == 0 or (v not in snap and v not in written)]
        if sp:
            bad.append(("satb:seq:spurious-record", f"recorded {sp[:3]}: never a field value"))
        return bad

    def nontrivial(self, case, out):
        ts = {op.split()[2] for op, res in zip(case.ops, out) if op.startswith("satb write") and " n=" in res and not res.endswith("n=0")}
        return len(ts) >= 1 and case.ops[0].split()[3:4] == ["1"]

    def summarize(self, cases, outs):
        d = {}
        for c, o in zip(cases, outs):
            for op, res in zip(c.ops, o):
                t = op.split()
                key = "seq_op:" + (t[1] if len(t) > 1 else "-") + (":bad-op" if res == "bad-op" else "")
                d[key] = d.get(key, 0) + 1
                if len(t) > 1 and t[1] == "write" and " n=" in res:
                    k2 = "seq_write:slow_path" if not res.endswith(" n=0") else "seq_write:fast_path_or_all_null"
                    d[k2] = d.get(k2, 0) + 1
        return {"satb_sequential": d}


def replay_lines(lines):
    pre = [l for l in lines if l.startswith("cfg ")]
    ops = [l for l in lines if not l.startswith("cfg ")]
    if not any(l.startswith("satb race") for l in ops):
        return unit.replay(SeqSpec(), _tmp_replay(lines))
    exe, err, _ = E.cargo_build("hx_unit", fs="fs_main")
    E.run(["lake", "build", "mmtk_model"], cwd=E.LEAN_DIR)
    rc = RaceCase.parse(ops[0])
    for i in range(20):           # a race is a schedule sample: repeat it (each op already runs thousands of rounds)
        out = E.run_cases(exe, [Case(ops[:1], pre)], env={"VERIF_PLAN": "ConcurrentImmix"})[0]
        po = parse_outcomes(out[0] if out else "")
        if po is None:
            print("race did not finish:", out)
            print("REPLAY: violation reproduced")
            return 1
        v = E.run_cases(E.model_exe(), [Case([judge_line(rc, o) for o in po], pre)])[0]
        hits = [(o["text"], o["round"], race_oracle(rc, o), lv) for o, lv in zip(po, v) if lv != "ok" or race_oracle(rc, o)]
        if hits:
            txt, rnd, orc, lv = hits[0]
            print(f"race: {ops[0]}\n  round {rnd}: {txt}\n  oracle: {orc}\n  Lean verdict: {lv}")
            print("REPLAY: violation reproduced")
            return 1
    print("REPLAY: no longer reproduces (20 runs of the race)")
    return 0


def _tmp_replay(lines):
    os.makedirs(os.path.join(E.OUT, "replay"), exist_ok=True)
    path = os.path.join(E.OUT, "replay", "C12-seq-tmp.json")
    json.dump({"case": lines}, open(path, "w"))
    return path


RULE = ("one evaluation = one `ismo` probe of an object owed by the SATB rule (InitialMark snapshot or allocated during marking) after FinalMark, or one snapshot compared "
        "with the shadow heap, or one sequential barrier history (exact differential), or one round of a real-thread barrier race; non-trivial = a complete "
        "InitialMark -> FinalMark cycle with >= 10 barriered writes while marking was in progress (distinct by workers, yield seed, writes, allocations), a sequential history "
        "in which a slow path ran, or a distinct race outcome judged by Lean and by the oracle")
ASSUMPTIONS = ["the pause kinds are read from the event log (GcFinishedEnd b=1 <=> InitialMark); the pause after InitialMark is FinalMark (ConcurrentImmix::schedule_collection)",
               "ConcurrentImmix does not move objects in InitialMark / FinalMark pauses (addresses from alloc results / snapshots stay valid for `ismo`)",
               "hx_gc `write` = object_reference_write_pre + plain store on this plan (F-D)",
               "whole-collector runs: the driver thread is the only mutator; concurrency = driver vs. concurrent marking workers (yield points armed on half of the programs)",
               "barrier races (hx_unit `satb race`): the plan is put into the marking-active state by ConcurrentImmix::set_concurrent_marking_state(true) without a GC; "
               "a mutator's store = memory_manager::object_reference_write_pre, then SimpleSlot::store; the SATB buffers are read through the add-only accessor "
               "verif::conc::satb::take_satb_buffer (never full: <= 48 entries per round), so `flush_satb`/ProcessModBufSATB are not on the raced path; the schedules of the "
               "real threads are sampled (rendezvous + random stagger + seeded yield points), the theorem covers all of them",
               "a round's outcome corresponds to a quiescent state of Model/SATBRace.lean whose `started` = the round's stores (every thread completes its stores before the end rendezvous)"]


def main(argv=None):
    ap = argparse.ArgumentParser()
    ap.add_argument("--tier", default=os.environ.get("VERIF_TIER", "quick"))
    ap.add_argument("--seed", type=int, default=int(os.environ.get("VERIF_SEED", "20260921")))
    ap.add_argument("--replay")
    a = ap.parse_args(argv)
    t0 = time.time()
    if a.replay:
        d = json.load(open(a.replay))
        if isinstance(d.get("case"), list):
            return replay_lines(d["case"])
    r = W.run_parts("C12", a.tier, a.seed, MODULES, THEOREMS, KEYS, make_suite, oracle, CORPUS, stats, RULE, directives=DIRECTIVES,
                    malformed=MALFORMED, jobs=4, replay=a.replay)
    if isinstance(r, int):
        return r
    lean, corr, violations = r
    if not any(v.key == "harness-build-failed" for v in violations):
        st = {}
        spec = SeqSpec()
        unit.run_profile(spec, a.tier, a.seed, True, lean["ok"], violations, st)
        if a.tier == "thorough":
            unit.run_profile(spec, a.tier, a.seed, False, lean["ok"], violations, st)
        run_satb_races(a.tier, a.seed, violations, st)
        dist = corr.setdefault("distribution", {})
        dist.update(st.get("distribution", {}))
        dist.update(st.get("race_distribution", {}))
        seq_distinct = len(st.pop("_distinct", set()))
        corr["evaluations"] = corr.get("evaluations", 0) + st.get("evaluations", 0) + st.get("race_rounds", 0)
        corr["distinct_nontrivial"] = corr.get("distinct_nontrivial", 0) + seq_distinct + st.get("race_distinct_outcomes", 0)
        corr["traces_validated_against_impl"] = corr.get("traces_validated_against_impl", 0) + st.get("evaluations", 0) + st.get("race_rounds", 0)
        corr.update({"satb_sequential_cases": st.get("evaluations", 0), "satb_sequential_op_lines": st.get("op_lines", 0),
                     "satb_sequential_disagreements": st.get("disagreements", 0), "satb_real_thread_races": st.get("races", 0),
                     "satb_race_rounds": st.get("race_rounds", 0), "satb_race_distinct_outcomes_judged_by_lean_and_oracle": st.get("race_distinct_outcomes", 0),
                     "satb_race_outcomes_rejected_by_lean_predicate": st.get("race_rejected_by_lean", 0),
                     "satb_race_rounds_with_observed_overlap": st.get("race_rounds_with_observed_overlap", 0), "satb_race_s": st.get("race_s"),
                     "satb_samples": st.get("samples", [])[:2] + st.get("race_samples", [])[:2],
                     "verdict_keys": list(corr.get("verdict_keys", [])) + list(RACE_KEYS)})
    return E.finish("C12", a.tier, a.seed, t0, lean, corr, violations, level=W.LEVEL, assumptions=ASSUMPTIONS,
                    trusted=W.TRUSTED + ["hx_unit component `satb` (harness/src/comp/conc/satb.rs) + add-only accessors verif::conc::satb report real memory faithfully"])
