"""Shared machinery of the scheduler checks C14, C15, C16, C11 (package `sched`).

  programs (hx_gc input)  ->  real GCs with the event log on  ->  front end (this file: notify attribution,
  batch-move resolution, logging-skew windows; all of it re-checked by the Lean monitor)  ->  `mmtk_model schedm`
  (Lean: every event must be an enabled action of Model/Sched.lean, quiescence at every GC end)
  + outcome oracles in Python that only look at the implementation's log (independent of the model).
"""
import json, os, random, re, subprocess, sys, time, argparse
from concurrent.futures import ThreadPoolExecutor
from collections import defaultdict, deque
from vlib import engine as E
from vlib.engine import Violation

sys.path.insert(0, os.path.join(E.VERIF, "gen"))
import emit_stages

STW_PLANS = ["SemiSpace", "GenCopy", "GenImmix", "MarkSweep", "PageProtect", "Immix", "MarkCompact", "StickyImmix"]
ALL_PLANS = STW_PLANS + ["ConcurrentImmix", "Compressor"]
# MarkCompact + a NonMoving object that references the mark-compact space corrupts the malloc heap in ~8% of
# multi-worker runs (reported; program /var/tmp/w_sched/markcompact_nonmoving.txt) — kept out of the generators
NONMOVING_OK = {"Immix", "ConcurrentImmix"}

K = dict(GcRequest=1, GcClearRequest=2, MonMakeRequest=3, MonRequested=4, MonPark=5, MonLastParked=6, MonWait=7,
         MonWake=8, MonUnpark=9, MonExit=10, MonAllExited=11, MonNotify=12, BqPush=13, BqPushAll=14, BucketOpen=15,
         BucketClose=16, BucketSetEnabled=17, BucketSetSentinel=18, BucketSchedSentinel=19, BucketPollOk=20,
         WorkerLocalPush=21, WorkerLocalPop=22, DesignatedPush=23, DesignatedPop=24, WorkerSteal=25, PacketStart=26,
         PacketEnd=27, WorkerRun=28, WorkerLeave=29, GcFinishedBegin=30, GcBeforeResume=31, GcFinishedEnd=32,
         Surrender=33, SurrenderDone=34, Respawn=35, InitialSpawn=36, LastParkedEnter=37, GoalStarted=38,
         GoalCompleted=39, MutatorsPaused=40, SchedSentinels=41, UpdateBuckets=42, StopRequest=43, BucketPollBatch=44,
         VmStopBegin=64, VmStopEnd=65, VmScanMutator=66, VmScanVmRoots=67, VmResume=68, VmBlockEnter=69,
         VmBlockLeave=70, VmProcessWeak=72, VmForwardWeak=73, VmMisc=84)
KEEP = set(range(1, 45)) | {64, 65, 66, 67, 68, 69, 70, 72, 73}
BATCH_MOVE, SOLID, UNSOLID, OPEN_SOLID = 200, 202, 203, 204
# failures every scheduler check reports: the log is not a run of the model / the run did not finish
COMMON_KEYS = ("sched:hang", "sched:panic", "sched:crash", "sched:not-enabled", "sched:shape", "sched:monitor-crash",
               "sched:parse", "sched:unknown-packet", "sched:batch")
# a stop request (StopForFork / Shutdown) made while a collection is in progress: owned by C14 (no lost request) and C16
STOP_KEYS = ("sched:exit-during-gc", "sched:stop-request-lost", "sched:join-count", "sched:forkgc-vacuous")
# callback points of one GC at which hx_gc's `forkgc` / `shutdowngc` make the request (rt.rs PT_*)
STOP_POINTS = {0: "stop_all_mutators", 1: "scan_vm_specific_roots", 2: "process_weak_refs", 3: "resume_mutators"}
M40 = 1 << 40
# requester protocol (C11 last clause): the events the `reqm` monitor and the requester oracles look at.
# VmMisc(4, m) = mutator m's thread enters handle_user_collection_request, VmMisc(5, 2m + ret) = it returned `ret`,
# VmMisc(3, m) = a `gc2`/`gcn` helper thread entered its safe region after the call returned
REQ_KINDS = {1, 2, 65, 68, 69, 70, 84}
REQ_KEYS = ("gc:requester-not-blocked", "gc:request-not-served", "gc:merged-request-count", "gc:request-result",
            "gc:stop-with-running-requester", "req:not-enabled", "req:shape", "req:parse", "req:monitor-crash",
            "sched:gc2-vacuous")


# ------------------------------------------------------------------------------------------------
# translator: the stage table of the linked crate -> Generated/Stages.lean
# ------------------------------------------------------------------------------------------------

def regenerate_stages(fs="fs_main"):
    exe, err, bs = E.cargo_build("hx_consts", fs=fs)
    if exe is None:
        return None, err
    p = E.run([exe, "stages"], timeout=120)
    if p.returncode != 0:
        return None, p.stderr[-1500:]
    dump = json.loads(p.stdout.splitlines()[0])
    emit_stages.emit(dump, os.path.join(E.LEAN_DIR, "MmtkModel", "Generated", "Stages.lean"))
    return dump, ""


# ------------------------------------------------------------------------------------------------
# programs
# ------------------------------------------------------------------------------------------------

class Prog:
    def __init__(self, name, plan, workers, lines, yseed=0, heap=64 << 20, tags=(), watchdog=None):
        self.name, self.plan, self.workers, self.lines, self.yseed, self.heap = name, plan, workers, lines, yseed, heap
        self.tags = set(tags)
        self.watchdog = watchdog          # seconds; None = $SCHED_WATCHDOG or 60

    def text(self):
        pre = [f"cfg plan {self.plan}", f"cfg heap {self.heap}", f"cfg workers {self.workers}",
               f"cfg watchdog {os.environ.get('SCHED_WATCHDOG', str(self.watchdog or 60))}",
               "cfg events 1"]
        if self.yseed:
            pre.append(f"cfg yield {self.yseed}")
        return pre + ["init", "bind 0", "constraints"] + self.lines + ["events", "quit"]


def body_storm(rng, plan, n_wide, fields, depth, gcs, mutators=1, eph=0, fork=False, nonmoving=False, forks=1):
    """wide objects (packet storms from ProcessSlots splitting), deep lists, ephemeron chains, optional fork"""
    L = []
    p = L.append
    nid = [0]

    def alloc(m, nf, payload, slot, sem="Default"):
        nid[0] += 1
        p(f"alloc {m} {nid[0]} {nf} {payload} 8 0 {sem} {slot}")
        return nid[0]
    for m in range(1, mutators):
        p(f"bind {m}")
    # a deep list rooted in 0.60
    head = None
    for i in range(depth):
        x = alloc(0, 2, rng.choice([0, 16, 64]), 61)
        if head is not None:
            p(f"write 0 {x} 0 {head}")
        p(f"root 0 60 {x}")
        head = x
    # wide objects: every field points to a fresh leaf or to a shared node
    shared = alloc(0, 1, 8, 59)
    for k in range(n_wide):
        # objects above the plan's max_non_los_default_alloc_bytes must use the LOS (8 KB is below every plan's limit)
        w = alloc(0, fields, 0, 50 + (k % 8), "Los" if fields * 8 > 8000 else "Default")
        for j in range(fields):
            if rng.random() < 0.3:
                p(f"write 0 {w} {j} {shared}")
            else:
                leaf = alloc(k % mutators, rng.choice([0, 1]), rng.choice([0, 8, 200]), 62)
                p(f"write 0 {w} {j} {leaf}")
    if nonmoving:
        y = alloc(0, 1, 32, 58, "NonMoving")
        p(f"write 0 {y} 0 {head if head else shared}")
    # garbage from the other mutators
    for m in range(mutators):
        for _ in range(20):
            alloc(m, 1, rng.choice([16, 1024, 6000]), rng.randrange(0, 8))
    # ephemeron chain k1 -> v1 = k2 -> v2 ... (rounds of VMProcessWeakRefs)
    if eph:
        k = alloc(0, 1, 8, 40)
        for i in range(eph):
            v = alloc(0, 1, 8, 41)
            p(f"ephemeron {k} {v}")
            p("root 0 41 null")
            k = v
    for g in range(gcs):
        p(f"gc 0 {1 if g % 2 == 0 else 0}")
        p("events")
        for m in range(mutators):
            for _ in range(10):
                alloc(m, 1, rng.choice([16, 512]), rng.randrange(0, 8))
        if fork and g < forks:
            p("fork")
            p("events")
    return L


def body_forkgc(rng, plan, points, mutators=2, eph=1, n_wide=1, fields=100, depth=100, end=None):
    """A stop request made DURING a collection: `forkgc m exhaustive point` arms VerifVM so that the GC it triggers
    calls `prepare_to_fork()` at callback `point` (STOP_POINTS), waits for the pause to end, joins the GC threads
    (all must exit: watchdog otherwise) and calls `after_fork`.  One round per entry of `points`, interleaved with
    plain GCs, plain `fork` cycles (request between collections) and allocation; the program ends with a GC (later
    GCs complete) or with `end` = "shutdowngc" (Shutdown requested during the last GC) / "shutdown"."""
    L = body_storm(rng, plan, n_wide=n_wide, fields=fields, depth=depth, gcs=0, mutators=mutators, eph=eph)
    p = L.append
    nid = [100000]

    def garbage():
        for m in range(mutators):
            for _ in range(8):
                nid[0] += 1
                p(f"alloc {m} {nid[0]} 1 {rng.choice([16, 512, 4000])} 8 0 Default {rng.randrange(0, 8)}")
    for r, pt in enumerate(points):
        if r % 3 == 1:
            p(f"gc 0 {r % 2}")
            p("events")
        p(f"forkgc 0 {1 if r % 2 == 0 else 0} {pt}")
        p("events")
        garbage()
        if r % 3 == 2:
            p("fork")
            p("events")
    p("gc 0 1")
    p("events")
    if end == "shutdowngc":
        garbage()
        p(f"shutdowngc 0 1 {points[-1] if points else 0}")
    elif end == "shutdown":
        p("shutdown")
    return L


def forkgc_programs(rng, count, plans=None, prefix="g"):
    """fork-during-GC programs: all plans, 1..16 workers, yield seeds armed in 2 of 3, every callback point."""
    plans = plans or ALL_PLANS
    progs = []
    workers_pool = [4, 1, 2, 8, 3, 16]
    for i in range(count):
        plan = plans[i % len(plans)]
        w = workers_pool[(i // 2 + i) % len(workers_pool)]
        n_rounds = [2, 3, 4][i % 3]
        # rotate through the points so that every program starts at a different one; 3 of 4 are inside the GC
        points = [(i + k) % 4 for k in range(n_rounds)]
        end = "shutdowngc" if i % 4 == 3 else ("shutdown" if i % 8 == 6 else None)
        body = body_forkgc(rng, plan, points, mutators=rng.choice([1, 2, 3]), eph=i % 3, n_wide=rng.choice([1, 3]),
                           fields=rng.choice([64, 400]), depth=rng.choice([50, 300]), end=end)
        ys = 0 if i % 3 == 2 else rng.randrange(1, 1 << 30)
        tags = {"forkgc"} | {f"forkgc-at:{STOP_POINTS[q]}" for q in points} | ({"shutdown"} if end else set())
        # every op of these small programs takes milliseconds: a lost stop request shows after 25 s instead of 60 s
        progs.append(Prog(f"{prefix}{i}-{plan}-w{w}-pt{''.join(map(str, points))}{'-sd' if end else ''}", plan, w, body,
                          yseed=ys, tags=tags, watchdog=25))
    return progs


def body_gc2(rng, plan, rounds, mutators=2, n_wide=1, fields=64, depth=60, eph=0, gcn=True):
    """Several mutators request a collection at the same moment: `gc2 mA mB exhaustive force skewA skewB safeA safeB`
    (driver = mA, a helper mutator thread = mB; after a spin rendezvous each spins `skew` iterations, or — `safe` —
    sleeps `skew` microseconds inside a safe region, then calls handle_user_collection_request) and
    `gcn exhaustive force m:skew:safe ...` (more than two requesters), mixed with ordinary `gc`s and allocation."""
    mutators = max(2, mutators)
    L = body_storm(rng, plan, n_wide=n_wide, fields=fields, depth=depth, gcs=0, mutators=mutators, eph=eph)
    p = L.append
    nid = [200000]

    def garbage():
        for m in range(mutators):
            for _ in range(6):
                nid[0] += 1
                p(f"alloc {m} {nid[0]} 1 {rng.choice([16, 512, 4000])} 8 0 Default {rng.randrange(0, 8)}")
    spins = [0, 0, 50, 500, 3000, 20000, 100000]
    sleeps = [0, 100, 1000, 5000, 20000]
    for r in range(rounds):
        ma, mb = rng.sample(range(mutators), 2)
        shape = (r + rng.randrange(2)) % 6
        if shape == 0:      # dead heat
            sa, sb, fa, fb = 0, 0, 0, 0
        elif shape == 1:    # the driver is late
            sa, sb, fa, fb = rng.choice(spins[2:]), 0, 0, 0
        elif shape == 2:    # the helper is late
            sa, sb, fa, fb = 0, rng.choice(spins[2:]), 0, 0
        elif shape == 3:    # both random
            sa, sb, fa, fb = rng.choice(spins), rng.choice(spins), 0, 0
        elif shape == 4:    # the helper is in native code while the driver requests (may come back after the pause)
            sa, sb, fa, fb = rng.choice(spins[:4]), rng.choice(sleeps), 0, 1
        else:               # the driver is in native code while the helper requests
            sa, sb, fa, fb = rng.choice(sleeps), rng.choice(spins[:4]), 1, 0
        p(f"gc2 {ma} {mb} {r % 2} {0 if r % 5 == 4 else 1} {sa} {sb} {fa} {fb}")
        p("events")
        garbage()
        if r % 3 == 1:
            p(f"gc {rng.randrange(mutators)} {rng.randrange(2)}")
            p("events")
        if gcn and r % 3 == 2 and mutators >= 3:
            ms = rng.sample(range(mutators), rng.choice([3, mutators]))
            specs = []
            for m in ms:
                if rng.random() < 0.25:
                    specs.append(f"{m}:{rng.choice(sleeps)}:1")
                else:
                    specs.append(f"{m}:{rng.choice(spins)}:0")
            p(f"gcn {rng.randrange(2)} 1 " + " ".join(specs))
            p("events")
            garbage()
    p("gc 0 1")
    p("events")
    return L


def gc2_programs(rng, count, plans=None, prefix="q"):
    """`gc2` / `gcn` programs: all collecting plans, 1..8 workers, yield seeds (= seeded skew jitter) armed in 2 of 3."""
    plans = plans or ALL_PLANS
    progs = []
    workers_pool = [1, 2, 4, 8, 3, 6]
    for i in range(count):
        plan = plans[i % len(plans)]
        w = workers_pool[(i // len(plans) + i) % len(workers_pool)]
        muts = [2, 3, 4][i % 3]
        body = body_gc2(rng, plan, rounds=[5, 7, 6][i % 3], mutators=muts, n_wide=rng.choice([1, 2]),
                        fields=rng.choice([64, 300]), depth=rng.choice([40, 200]), eph=i % 2)
        ys = 0 if i % 3 == 2 else rng.randrange(1, 1 << 30)
        progs.append(Prog(f"{prefix}{i}-{plan}-w{w}-m{muts}", plan, w, body, yseed=ys, tags={"gc2"}, watchdog=25))
    return progs


def nogc_gc2_programs(rng, count):
    """The legitimate `false`: on NoGC (`collects_garbage = false`) the trigger refuses every user request, nobody blocks,
    no request is made (`en=0`, `false,0,…`): the only situation in which a requester may come back unblocked."""
    progs = []
    for i in range(count):
        L = ["bind 1", "bind 2"]
        for k in range(30):
            L.append(f"alloc {k % 3} {k + 1} 1 {rng.choice([16, 512])} 8 0 Default {k % 8}")
        for r in range(4):
            ma, mb = rng.sample(range(3), 2)
            L += [f"gc2 {ma} {mb} {r % 2} {(r + i) % 2} {rng.choice([0, 500])} {rng.choice([0, 500])} 0 {r % 2}", "events"]
        L += ["gc 0 1", f"gcn 1 1 0:0:0 1:{rng.choice([0, 100])}:1 2:50:0", "events"]
        progs.append(Prog(f"n{i}-NoGC-w{1 + i % 2}", "NoGC", 1 + i % 2, L, yseed=rng.randrange(1 << 20), tags={"gc2", "gc2-refused"},
                          watchdog=25))
    return progs


def gen_programs(rng, tier, want_fork=False, plans=None, count=None):
    progs = []
    plans = plans or ALL_PLANS
    n = count or (40 if tier == "quick" else 600)
    workers_pool = [1, 2, 3, 4, 8, 16]
    for i in range(n):
        plan = plans[i % len(plans)]
        w = workers_pool[(i // len(plans) + i) % len(workers_pool)]
        shape = i % 4
        ys = 0 if i % 3 == 0 else rng.randrange(1, 1 << 30)
        if shape == 0:
            body = body_storm(rng, plan, n_wide=rng.choice([2, 6]), fields=rng.choice([64, 1000, 3000]), depth=50, gcs=2,
                              mutators=rng.choice([1, 2, 3]))
        elif shape == 1:
            body = body_storm(rng, plan, n_wide=1, fields=16, depth=rng.choice([500, 3000]), gcs=2, mutators=2,
                              eph=rng.choice([0, 1, 3]))
        elif shape == 2:
            body = body_storm(rng, plan, n_wide=3, fields=200, depth=100, gcs=3, mutators=rng.choice([1, 4]),
                              eph=rng.choice([0, 2]), nonmoving=plan in NONMOVING_OK)
        else:
            body = body_storm(rng, plan, n_wide=2, fields=500, depth=200, gcs=2, mutators=2, eph=1, fork=want_fork)
        progs.append(Prog(f"p{i}-{plan}-w{w}-s{shape}", plan, w, body, yseed=ys,
                          tags={"fork"} if (shape == 3 and want_fork) else ()))
    return progs


# ------------------------------------------------------------------------------------------------
# running hx_gc
# ------------------------------------------------------------------------------------------------

def hx_gc_exe(plan):
    if plan == "Compressor":
        return E.cargo_build("hx_gc", fs="fs_main", extra_features=("unified_ref",))
    return E.cargo_build("hx_gc", fs="fs_main")


def run_prog(exe, prog, timeout=150):
    data = "\n".join(prog.text()) + "\n"
    t0 = time.time()
    try:
        p = subprocess.run([exe], input=data, capture_output=True, text=True, timeout=timeout,
                           env=dict(os.environ, RUST_BACKTRACE="0"))
        rc, out = p.returncode, p.stdout
    except subprocess.TimeoutExpired as e:
        rc, out = -9, (e.stdout or b"").decode() if isinstance(e.stdout, bytes) else (e.stdout or "")
    return rc, out.splitlines(), time.time() - t0


def parse_events(lines):
    evs = []
    for l in lines:
        if l.startswith("ev "):
            for t in l.split()[1:]:
                f = t.split(":")
                if len(f) == 5:
                    evs.append(tuple(int(x) for x in f))
    evs.sort()
    return evs


def constraints_of(lines):
    for l in lines:
        if "fwdafterliveness" in l:
            return dict(kv.split("=") for kv in l.split()[1:] if "=" in kv)
    return {}


# ------------------------------------------------------------------------------------------------
# front end: annotate the log for the Lean monitor
# ------------------------------------------------------------------------------------------------

def key_of(pid, tag):
    return (pid, (tag >> 8) & 0xffffffff)


SPIN = (K["MonPark"], K["LastParkedEnter"], K["MonLastParked"], K["MonNotify"], K["MonUnpark"])


def compress_spins(evs, keep=2):
    """While a worker with designated work has not been scheduled by the OS, the last parked worker spins:
    park (all parked) -> on_last_parked finds designated work -> WakeAll -> unpark -> poll nothing -> park ...
    Every such cycle (5 events of one thread, nothing else in between) returns the model to the same state.
    On a loaded machine this produces 10^5.. events; runs of more than 2*keep identical cycles are cut to the
    first and last `keep` cycles (the number of dropped cycles is reported)."""
    out, i, n, dropped = [], 0, len(evs), 0

    def is_cycle(j):
        if j + 5 > n:
            return False
        c = evs[j:j + 5]
        t = c[0][1]
        return (tuple(e[2] for e in c) == SPIN and all(e[1] == t for e in c) and c[0][4] == 1 and c[2][4] == 2
                and c[3][3] == 1)
    while i < n:
        if is_cycle(i):
            j = i
            while is_cycle(j) and evs[j][1] == evs[i][1]:
                j += 5
            cycles = (j - i) // 5
            if cycles > 2 * keep:
                out.extend(evs[i:i + 5 * keep])
                out.extend(evs[j - 5 * keep:j])
                dropped += cycles - 2 * keep
            else:
                out.extend(evs[i:j])
            i = j
        else:
            out.append(evs[i])
            i += 1
    return out, dropped


def annotate(evs, n):
    """Returns the token list for `schedm ev`.  Adds: notify targets (b of MonNotify(0), bits 8.. of
    MonRequested.b), BatchMove pseudo events, Solid/Unsolid pseudo events."""
    evs = [e for e in evs if e[2] in KEEP]
    evs, _dropped = compress_spins(evs)
    N = len(evs)
    # per-thread neighbours
    prev_of, next_of, last = [None] * N, [None] * N, {}
    for i, (seq, tid, k, a, b) in enumerate(evs):
        if tid in last:
            prev_of[i] = last[tid]
            next_of[last[tid]] = i
        last[tid] = i
    before, after = defaultdict(list), defaultdict(list)
    # ---- 1. notify attribution
    wait_since = {}          # worker -> index of MonWait (currently waiting, not yet attributed)
    wake_at = {}             # index of MonWait -> index of the MonWake that ends it
    # the model parks atomically at MonPark; a group that ends in MonWait makes the worker a waiter from there
    will_wait = set()
    for i, (seq, tid, k, a, b) in enumerate(evs):
        if k == K["MonPark"]:
            j = next_of[i]
            while j is not None and evs[j][2] not in (K["MonWait"], K["MonUnpark"], K["MonPark"]):
                j = next_of[j]
            if j is not None and evs[j][2] == K["MonWait"]:
                will_wait.add(i)
    pend = {}
    for i, (seq, tid, k, a, b) in enumerate(evs):
        if k == K["MonPark"] and i in will_wait:
            pend[a] = i
        elif k == K["MonWake"] and a in pend:
            wake_at[pend.pop(a)] = i
    # The attribution has to follow the monitor's linearisation, not the positions of the `MonNotify` events: a
    # mutex-protected group is ONE model action applied at its first event, so
    #  * the `notify_all` of a last-parked group that ends in WakeAll happens (for the model) at the group's `MonPark`.
    #    `on_gc_finished` resumes the mutators in the middle of that group; a resumed mutator (ConcurrentImmix: the SATB
    #    barrier flushing into the Concurrent bucket that `schedule_concurrent_packets` has just opened) may log its
    #    push and its `notify_one` before the worker reaches `MonLastParked`/`MonNotify(1)`.  In the model every waiter
    #    is already `woken` then: the mutator's notify_one finds nobody (it commutes with the rest of the group — the
    #    worker it really woke cannot leave `wait` before the group releases the mutex, and is woken either way);
    #  * the `notify_one` of `make_request` happens at `MonRequested` (a `WorkBucket::add` of another thread, which
    #    takes no mutex, may log its `MonNotify(0)` between `MonRequested` and the requester's `MonNotify(0)`).
    wakeall_group = set()
    for i, (seq, tid, k, a, b) in enumerate(evs):
        if k == K["MonPark"] and b == 1:
            j = next_of[i]
            while j is not None and evs[j][2] not in (K["MonLastParked"], K["MonWait"], K["MonUnpark"], K["MonPark"]):
                j = next_of[j]
            if j is not None and evs[j][2] == K["MonLastParked"] and evs[j][4] == 2:
                wakeall_group.add(i)
    target = {}

    def attribute(i):
        cands = sorted(wait_since.items(), key=lambda kv: wake_at.get(kv[1], 1 << 60))
        if cands:
            w = cands[0][0]
            target[i] = w + 1
            del wait_since[w]
        else:
            target[i] = 0
    for i, (seq, tid, k, a, b) in enumerate(evs):
        if k == K["MonPark"] and i in will_wait:
            wait_since[a] = i
        elif k == K["MonPark"] and i in wakeall_group:
            wait_since.clear()
        elif k == K["MonWake"]:
            wait_since.pop(a, None)
        elif k == K["MonRequested"] and b == 1:
            j = next_of[i]
            if j is not None and evs[j][2] == K["MonNotify"] and evs[j][3] == 0:
                attribute(j)
        elif k == K["MonNotify"]:
            if a == 1:
                wait_since.clear()
            elif i not in target:
                attribute(i)
    # ---- 2. packet instances: pair producers with consumers, resolve batch moves
    live = defaultdict(deque)        # key -> deque of instances (dict)
    insts = []
    batch_credit = {}                # worker -> [index of BucketPollBatch event, stage, remaining]
    moves = defaultdict(list)        # index of BucketPollBatch -> [(pid, tag)]
    early = defaultdict(list)        # index of a steal -> [(owner, (pid, tag))] moves whose poll is logged later
    sched_pending = {}               # tid -> stage of a BucketSchedSentinel(b=1) waiting for its BqPush
    for i, (seq, tid, k, a, b) in enumerate(evs):
        if k == K["BucketSchedSentinel"] and b == 1:
            sched_pending[tid] = a
        elif k in (K["BqPush"], K["WorkerLocalPush"], K["BucketSetSentinel"], K["DesignatedPush"]):
            tag = b & (M40 - 1) if k == K["DesignatedPush"] else b
            ky = key_of(a, tag)
            if k == K["BqPush"] and tid in sched_pending:
                # the sentinel moves into its bucket: same instance
                st = sched_pending.pop(tid)
                for ins in live[ky]:
                    if ins["loc"] == ("sent", st):
                        ins["loc"] = ("bkt", st)
                        break
                continue
            if k == K["BqPush"]:
                loc = ("bkt", tag & 0xff)
            elif k == K["WorkerLocalPush"]:
                loc = ("buf", tid - 100)
            elif k == K["BucketSetSentinel"]:
                loc = ("sent", tag & 0xff)
            else:
                loc = ("des", b >> 40)
            ins = dict(key=ky, pid=a, tag=tag, prod=i, cons=None, loc=loc, stage=tag & 0xff, batch=None)
            live[ky].append(ins)
            insts.append(ins)
        elif k == K["BucketPollBatch"]:
            batch_credit.setdefault(tid - 100, []).append([i, a, b])
        elif k in (K["BucketPollOk"], K["WorkerLocalPop"], K["DesignatedPop"], K["WorkerSteal"]):
            tag = b & (M40 - 1) if k == K["WorkerSteal"] else b
            ky = key_of(a, tag)
            w = tid - 100
            if k == K["BucketPollOk"]:
                want = [("bkt", tag & 0xff)]
            elif k == K["WorkerLocalPop"]:
                want = [("buf", w)]
            elif k == K["DesignatedPop"]:
                want = [("des", w)]
            else:
                want = [("buf", b >> 40)]
            found = None
            for ins in live[ky]:
                if ins["loc"] in want:
                    found = ins
                    break
            if found is None and k in (K["WorkerLocalPop"], K["WorkerSteal"]):
                owner = want[0][1]
                # moved by a steal_batch_and_pop of `owner`
                for ins in live[ky]:
                    if ins["loc"][0] == "bkt":
                        # the most recent batch poll of `owner` from that bucket, after the push, with credit left
                        # (the logged count is a lower bound when a thief steals concurrently: fall back to the most
                        # recent batch poll without credit)
                        cands = [c for c in reversed(batch_credit.get(owner, ())) if c[1] == ins["loc"][1] and c[0] > ins["prod"]]
                        cr = next((c for c in cands if c[2] > 0), cands[0] if cands else None)
                        mv = (ins["pid"], (ins["tag"] & ~0xff) | ins["loc"][1])
                        if cr:
                            cr[2] -= 1
                            moves[cr[0]].append(mv)
                            ins["batch"] = cr[0]
                        else:
                            # the owner's own BucketPollOk / BucketPollBatch is logged after this steal (consumer
                            # events are logged after the operation): the move is placed right before the steal
                            early[i].append((owner, mv))
                            ins["batch"] = i
                            ins["early"] = (owner, ins["loc"][1])
                        ins["loc"] = ("buf", owner)
                        found = ins
                        break
            if found is not None:
                found["cons"] = i
                live[ky].remove(found)
    # ---- 3. pseudo events
    for bi, lst in moves.items():
        seq, tid, _, _, _ = evs[bi]
        for pid, tag in lst:
            after[bi].append((seq, tid, BATCH_MOVE, pid, tag))
    # `WorkBucket::open` is logged before the store: until the opener's next event the bucket may still look closed
    for i, (seq, tid, k, a, b) in enumerate(evs):
        if (k == K["BucketOpen"] or (k == K["BucketSetEnabled"] and b == 1)) and next_of[i] is not None:
            before[next_of[i]].append((evs[next_of[i]][0], tid, OPEN_SOLID, a, 0))
    for ci, lst in early.items():
        seq = evs[ci][0]
        for owner, (pid, tag) in lst:
            before[ci].append((seq, 100 + owner, BATCH_MOVE, pid, tag))
    for ins in insts:
        pi, ci = ins["prod"], ins["cons"]
        nx = next_of[pi]
        # the consumer side window starts after the previous event of the thread that took it out of
        # the container it was pushed into (the batch poller, if it was batch-moved)
        take = ins["batch"] if ins["batch"] is not None else ci
        pv_owner = None
        if ins.get("early") is not None:
            # batch-moved by a poll of `owner` of which (at least) the BucketPollBatch is logged after the thief's
            # steal: the packet left its bucket inside that poll of the OWNER, i.e. after the owner's last event
            # before its BucketPollOk — not after the thief's previous events.  (The owner's BucketPollOk itself may be
            # logged before or after the steal; recorded log p158-ConcurrentImmix-w16: the owner was descheduled for
            # ~100 events between its steal_batch_and_pop and its BucketPollOk, another worker parked in between.)
            owner, st = ins["early"]
            t = 100 + owner
            j = next((x for x in range(take + 1, N) if evs[x][1] == t and evs[x][2] == K["BucketPollBatch"]
                      and evs[x][3] == st), None)
            if j is not None and prev_of[j] is not None:
                take = prev_of[j]                                   # the owner's BucketPollOk
            else:
                # the log ends before the owner's BucketPollBatch
                l = next((x for x in range(take - 1, -1, -1) if evs[x][1] == t), None)
                if l is not None and evs[l][2] == K["BucketPollOk"] and (evs[l][4] & 0xff) == st:
                    take = l
                elif l is not None:
                    pv_owner = l
        # BucketPollBatch directly follows BucketPollOk of the same thread: step back over it
        elif ins["batch"] is not None and prev_of[take] is not None:
            take = prev_of[take]
        pv = pv_owner if pv_owner is not None else (prev_of[take] if take is not None else None)
        if nx is None:
            continue
        if take is not None and (pv is None or pv < nx):
            continue                      # never solid
        seq, tid, _, _, _ = evs[pi]
        before[nx].append((evs[nx][0], tid, SOLID, ins["pid"], ins["tag"]))
        if pv is not None:
            after[pv].append((evs[pv][0], evs[pv][1], UNSOLID, ins["pid"], ins["tag"]))
    toks = []
    for i, (seq, tid, k, a, b) in enumerate(evs):
        for t in before.get(i, ()):
            toks.append(t)
        if k == K["MonNotify"] and a == 0:
            b = target.get(i, 0)
        elif k == K["MonRequested"] and b == 1:
            # the notify of make_request is the next event of this thread
            j = next_of[i]
            b = 1 | (target.get(j, 0) << 8) if j is not None else 1
        toks.append((seq, tid, k, a, b))
        for t in after.get(i, ()):
            toks.append(t)
    return toks


def lean_replay(model_exe, toks, n, mut_open, chunk=400):
    lines = [f"schedm new {n} {1 if mut_open else 0}"]
    for i in range(0, len(toks), chunk):
        lines.append("schedm ev " + " ".join(":".join(str(x) for x in t) for t in toks[i:i + chunk]))
    lines.append("schedm end")
    outs, rc, err = E.run_lines(model_exe, lines, timeout=600)
    if rc != 0 or len(outs) != len(lines):
        return "viol sched:monitor-crash rc=%s %s" % (rc, err[-300:]), None
    for o in outs[1:]:
        if o.startswith("viol"):
            return o, None
    stats = dict(kv.split("=") for kv in outs[-1].split()[1:] if "=" in kv)
    return outs[-1], {k: int(v) for k, v in stats.items()}


# ------------------------------------------------------------------------------------------------
# outcome oracles (implementation log only)
# ------------------------------------------------------------------------------------------------

def oracle(evs, rc, lines, stages, fwd_after_liveness):
    """Returns [(key, what)].  `stages` = the dump of hx_consts stages."""
    out = []
    if rc == 3 or rc == -9 or any(l.startswith("timeout") for l in lines):
        out.append(("sched:hang", "the watchdog fired: a requested GC (or stop request) did not complete"))
    if rc == 4:
        msg = next((l for l in lines if l.startswith("fatal panic")), "")
        out.append(("sched:panic", "a GC thread panicked: " + msg[:300]))
    if rc not in (0, 3, 4, -9):
        out.append(("sched:crash", f"hx_gc exited with {rc}"))
    rows = stages["stages"]
    is_seq = {r["index"]: r["is_sequentially_opened"] for r in rows}
    is_stw = {r["index"]: r["is_stw"] for r in rows}
    conc = next(r["index"] for r in rows if r["name"] == "Concurrent")
    vmref = next(r["index"] for r in rows if r["name"] == "VMRefClosure")
    evs = [e for e in evs if e[2] in KEEP]
    workers = sorted({e[1] - 100 for e in evs if e[2] == K["WorkerRun"]})
    parked = {w: False for w in workers}
    in_last = None
    running = {}                       # tid -> (pid, type)
    produced, started, ended = defaultdict(int), defaultdict(int), defaultdict(int)
    q = defaultdict(int)               # stage -> queued count (pushes - polls) for the emptiness check
    closed_at_end = True
    gc_scans, gc_mutators, gc_resumes, gc_stopped = [], None, 0, False
    after_initial = False              # the previous pause scheduled concurrent work (InitialMark): this pause is the FinalMark of
                                       # the SAME collection — StopMutators::new_no_scan_roots, the roots were scanned at InitialMark
    in_gc = False
    block = {}
    resumes_total = 0
    weak_rounds, fwd_calls = [], 0
    exits, surrenders = defaultdict(int), defaultdict(int)
    gc_goal, stop_pending = False, []          # a Gc goal is current; stop requests not yet served [(goal, during_gc)]
    sched_pending = set()
    stage_of = {}
    origin = defaultdict(list)
    open_b = {r["index"]: r["is_open_by_default"] for r in rows}
    for (seq, tid, k, a, b) in evs:
        w = tid - 100
        if k == K["MonPark"]:
            parked[a] = True
            if b == 1:
                in_last = a
            if b == 1 and not all(parked.get(x, False) for x in workers):
                out.append(("sched:all-parked-wrong", f"MonPark({a}) reports all_parked but some worker is not between park and unpark"))
        elif k == K["MonUnpark"]:
            parked[a] = False
        elif k == K["MonLastParked"]:
            in_last = None
        elif k == K["BucketOpen"]:
            open_b[a] = True
            if is_seq.get(a):
                if in_last is None or not all(parked.get(x, False) for x in workers):
                    out.append(("sched:open-while-unparked", f"bucket {a} opened while a worker is not parked"))
                for e2 in [s for s in is_seq if (is_seq[s] or rows[s]["is_first_stw"]) and s < a]:
                    if q[e2] != 0:
                        out.append(("sched:open-before-drained", f"bucket {a} opened while earlier bucket {e2} holds {q[e2]} packets"))
        elif k == K["BucketClose"]:
            open_b[a] = False
            if q[a] != 0 and a != conc:
                out.append(("sched:closed-nonempty", f"bucket {a} closed with {q[a]} packets"))
        elif k == K["BucketSchedSentinel"] and b == 1:
            sched_pending.add(tid)
        elif k == K["BqPush"]:
            q[b & 0xff] += 1
            origin[key_of(a, b)].append(("bkt", b & 0xff))
            if tid in sched_pending:
                sched_pending.discard(tid)
            else:
                produced[key_of(a, b)] += 1
                stage_of[key_of(a, b)] = b & 0xff
        elif k in (K["WorkerLocalPush"], K["BucketSetSentinel"]):
            produced[key_of(a, b)] += 1
            stage_of[key_of(a, b)] = b & 0xff
            if k == K["WorkerLocalPush"]:
                origin[key_of(a, b)].append(("loc", tid))
        elif k == K["DesignatedPush"]:
            produced[key_of(a, b & (M40 - 1))] += 1
        elif k == K["BucketPollOk"]:
            q[b & 0xff] -= 1
            og = origin[key_of(a, b)]
            if ("bkt", b & 0xff) in og:
                og.remove(("bkt", b & 0xff))
            if not open_b.get(b & 0xff, False):
                out.append(("sched:poll-closed-bucket", f"a packet was polled from closed bucket {b & 0xff}"))
        elif k in (K["WorkerLocalPop"], K["WorkerSteal"]):
            # a packet that was pushed into a bucket and shows up in a local deque was moved by a batch poll
            # (the logged batch size is only a lower bound): it leaves the bucket's count here
            og = origin[key_of(a, b & (M40 - 1))]
            if og:
                o = og.pop(0)
                if o[0] == "bkt":
                    q[o[1]] -= 1
                    if not open_b.get(o[1], False):
                        out.append(("sched:poll-closed-bucket", f"a packet was batch-polled from closed bucket {o[1]}"))
        elif k == K["PacketStart"]:
            ky = key_of(a, b)
            if tid in running:
                out.append(("sched:nested-start", "PacketStart while another packet runs on the same worker"))
            running[tid] = ky
            started[ky] += 1
            if started[ky] > produced[ky]:
                out.append(("sched:packet-twice", f"packet {a:#x} (type {ky[1]:#x}) started more often than it was added"))
        elif k == K["PacketEnd"]:
            ky = key_of(a, b)
            if running.get(tid) != ky:
                out.append(("sched:end-without-start", "PacketEnd without matching PacketStart"))
            running.pop(tid, None)
            ended[ky] += 1
        elif k == K["GcFinishedEnd"]:
            after_initial = (b == 1)
        elif k == K["VmStopBegin"]:
            gc_scans, gc_mutators, gc_resumes, gc_stopped, in_gc = [], None, 0, True, True
            weak_rounds, fwd_calls = [], 0
        elif k == K["VmStopEnd"]:
            gc_mutators = a
        elif k == K["VmScanMutator"]:
            if not gc_stopped:
                out.append(("gc:scan-before-stop", f"mutator {a} scanned outside a stop-the-world bracket"))
            st = stage_of.get(running.get(tid), 255)
            if not is_stw.get(st, False):
                out.append(("gc:scan-outside-stw-packet", f"mutator {a} scanned outside a stop-the-world packet"))
            if (st, a) in gc_scans:
                out.append(("gc:scan-twice", f"mutator {a} scanned twice in stage {st} of one GC"))
            gc_scans.append((st, a))
        elif k == K["VmProcessWeak"]:
            if weak_rounds and weak_rounds[-1] == 0:
                out.append(("gc:weak-after-false", "process_weak_refs called again after it returned false"))
            weak_rounds.append(a)
            for s in is_seq:
                if (is_seq[s] or rows[s]["is_first_stw"]) and s < vmref and q[s] != 0:
                    out.append(("gc:weak-before-closure", f"process_weak_refs while bucket {s} still holds packets"))
        elif k == K["VmForwardWeak"]:
            fwd_calls += 1
        elif k == K["VmResume"]:
            resumes_total += 1
            gc_resumes += 1
            if running:
                out.append(("gc:resume-while-running", "resume_mutators while a work packet is running"))
            if not gc_stopped:
                out.append(("gc:resume-without-stop", "resume_mutators without a preceding stop_all_mutators"))
            else:
                passes = defaultdict(int)
                for st, _ in gc_scans:
                    passes[st] += 1
                first = next(r["index"] for r in rows if r["is_first_stw"])
                if after_initial:
                    if passes:
                        out.append(("gc:scan-count", f"the final pause of a concurrent collection scanned mutator roots again: {dict(passes)}"))
                elif gc_mutators is not None and (passes.get(first, 0) != gc_mutators or any(v != gc_mutators for v in passes.values())):
                    out.append(("gc:scan-count", f"root-scanning passes {dict(passes)} for {gc_mutators} mutators"))
                if len(passes) > (2 if fwd_after_liveness else 1):
                    out.append(("gc:scan-passes", f"{len(passes)} root-scanning passes in one GC"))
                if weak_rounds and weak_rounds[-1] != 0:
                    out.append(("gc:weak-not-finished", "GC ended although the last process_weak_refs returned true"))
                if weak_rounds and fwd_after_liveness is not None and fwd_calls != (1 if fwd_after_liveness else 0):
                    out.append(("gc:forward-weak-count", f"forward_weak_refs called {fwd_calls} times"))
            gc_stopped = False
            for s in is_stw:
                if is_stw[s] and (open_b.get(s) or q[s] != 0):
                    out.append(("sched:stw-open-at-resume", f"bucket {s} open or non-empty at resume_mutators"))
        elif k == K["VmBlockEnter"]:
            block[a] = resumes_total
        elif k == K["VmBlockLeave"]:
            if a in block and resumes_total <= block[a]:
                out.append(("gc:unblocked-before-resume", f"mutator {a} left block_for_gc before resume_mutators"))
            block.pop(a, None)
        elif k == K["BucketPollOk"] and False:
            pass
        elif k == K["GoalStarted"]:
            if a == 0:
                gc_goal = True
            elif gc_goal:
                out.append(("sched:exit-during-gc", f"exit goal {a} started while the Gc goal is current"))
        elif k == K["GoalCompleted"] and a == 0:
            gc_goal = False
        elif k == K["StopRequest"]:
            stop_pending.append((a, gc_goal))
        elif k == K["MonAllExited"]:
            if not stop_pending:
                out.append(("sched:stop-request-lost", f"all workers exited for goal {a} without a stop request"))
            stop_pending = stop_pending[1:]
        elif k == K["MonExit"]:
            exits[a] += 1
            # the GC in progress completes first: nobody leaves its loop while the Gc goal is current
            if gc_goal:
                out.append(("sched:exit-during-gc", f"worker {a} exits (goal {b}) while the Gc goal is current"))
            if not stop_pending:
                out.append(("sched:stop-request-lost", f"worker {a} exits (goal {b}) although no stop request is outstanding"))
        elif k == K["SurrenderDone"]:
            surrenders[a] += 1
        elif k == K["Respawn"]:
            for x in workers:
                if exits[x] != 1 or surrenders[x] != 1:
                    out.append(("sched:exit-not-once", f"worker {x}: {exits[x]} exits, {surrenders[x]} surrenders before respawn"))
            if a != len(workers):
                out.append(("sched:respawn-count", f"respawn of {a} workers, {len(workers)} exist"))
            exits.clear(); surrenders.clear()
        if k == K["PacketStart"] and not gc_stopped:
            pass
    if rc == 0:
        # every stop request was served: hx_gc's `fork` / `forkgc` / `shutdown*` returned, i.e. the GC threads were joined
        if stop_pending:
            out.append(("sched:stop-request-lost", f"{len(stop_pending)} stop request(s) (goal {stop_pending[0][0]}, made "
                        f"{'during' if stop_pending[0][1] else 'outside'} a GC) never served: not all workers exited"))
        # Shutdown is not followed by a respawn: the exactly-once count is taken at the end of the log
        if exits or surrenders:
            for x in workers:
                if exits[x] != 1 or surrenders[x] != 1:
                    out.append(("sched:exit-not-once", f"worker {x}: {exits[x]} exits, {surrenders[x]} surrenders after the last stop request"))
        for l in lines:
            mj = re.search(r"# joined (\d+)", l)
            if mj and l.startswith("ok") and int(mj.group(1)) != len(workers):
                out.append(("sched:join-count", f"`{l}`: joined {mj.group(1)} GC threads, {len(workers)} workers exist"))
    # stop-before-trace: a packet polled from a stop-the-world bucket while mutators are not stopped
    stopped = False
    for (seq, tid, k, a, b) in evs:
        if k == K["VmStopEnd"]:
            stopped = True
        elif k == K["VmResume"]:
            stopped = False
        elif k == K["BucketPollOk"] and is_stw.get(b & 0xff) and not stopped:
            out.append(("gc:stw-packet-without-stop", f"a packet of bucket {b & 0xff} ran while mutators were not stopped"))
    seen, res = set(), []
    for key, what in out:
        if key not in seen:
            seen.add(key)
            res.append((key, what))
    return res


def stop_request_stats(evs):
    """how many stop requests the log contains, and how many of them were made while a Gc goal was current"""
    st = defaultdict(int)
    gc_goal = False
    for (seq, tid, k, a, b) in evs:
        if k == K["GoalStarted"] and a == 0:
            gc_goal = True
        elif k == K["GoalCompleted"] and a == 0:
            gc_goal = False
        elif k == K["StopRequest"]:
            st["total"] += 1
            st["goal:" + ("StopForFork" if a == 2 else "Shutdown")] += 1
            st["while_gc_goal_current" if gc_goal else "no_gc_goal_current"] += 1
            st["by_gc_worker" if tid >= 100 else "by_other_thread"] += 1
    return st


def never_run(evs, stages):
    """packets added to a non-concurrent stage that never started although a later GC completed"""
    rows = stages["stages"]
    conc = next(r["index"] for r in rows if r["name"] == "Concurrent")
    last_done = max([i for i, e in enumerate(evs) if e[2] == K["GoalCompleted"] and e[3] == 0], default=-1)
    produced, started = defaultdict(int), defaultdict(int)
    sched_pending = set()
    last_vmstop = max([i for i, e in enumerate(evs) if e[2] == K["VmStopBegin"]], default=-1)
    for i, (seq, tid, k, a, b) in enumerate(evs[:last_done + 1]):
        if k == K["BucketSchedSentinel"] and b == 1:
            sched_pending.add(tid)
        elif k == K["BqPush"]:
            if tid in sched_pending:
                sched_pending.discard(tid)
            elif (b & 0xff) != conc and (tid >= 100 or i < last_vmstop):
                produced[key_of(a, b)] += 1
        elif k in (K["WorkerLocalPush"], K["BucketSetSentinel"]) and (b & 0xff) != conc:
            produced[key_of(a, b)] += 1
        elif k == K["DesignatedPush"]:
            produced[key_of(a, b & (M40 - 1))] += 1
        elif k == K["PacketStart"]:
            started[key_of(a, b)] += 1
    missing = {ky: n - started[ky] for ky, n in produced.items() if started[ky] < n}
    return missing


# ------------------------------------------------------------------------------------------------
# requester protocol (C11: "a mutator that requested a GC is blocked until that GC has ended")
# ------------------------------------------------------------------------------------------------

def req_tokens(evs):
    return [e for e in evs if e[2] in REQ_KINDS]


def lean_req_replay(model_exe, toks, chunk=400):
    """`mmtk_model reqm`: the requester events must be a run of Model/Requesters.lean (code variant)."""
    lines = ["reqm new"]
    for i in range(0, len(toks), chunk):
        lines.append("reqm ev " + " ".join(":".join(str(x) for x in t) for t in toks[i:i + chunk]))
    lines.append("reqm end")
    outs, rc, err = E.run_lines(model_exe, lines, timeout=600)
    if rc != 0 or len(outs) != len(lines):
        return "viol req:monitor-crash rc=%s %s" % (rc, err[-300:]), None
    for o in outs[1:]:
        if o.startswith("viol"):
            return o, None
    stats = dict(kv.split("=") for kv in outs[-1].split()[1:] if "=" in kv)
    return outs[-1], {k: int(v) for k, v in stats.items()}


GC2_FIELD = re.compile(r"^(a|b|r\d+)=(true|false),(\d+),(\d+),(\d+)$")


def parse_gc2(op, out):
    """`gc2`/`gcn` answer -> dict(gcs, en, reqs=[(label, mutator, ret, blocked, before, after)]) or None"""
    t = op.split()
    if not t or t[0] not in ("gc2", "gcn") or not out.startswith("ok gcs="):
        return None
    f = out.split(" #")[0].split()
    d = {"gcs": int(f[1].split("=")[1]), "en": 1, "reqs": [], "op": op}
    ms = [int(t[1]), int(t[2])] if t[0] == "gc2" else [int(x.split(":")[0]) for x in t[3:]]
    k = 0
    for x in f[2:]:
        if x.startswith("en="):
            d["en"] = int(x[3:])
            continue
        m = GC2_FIELD.match(x)
        if m:
            d["reqs"].append((m.group(1), ms[k] if k < len(ms) else -1, m.group(2) == "true", int(m.group(3)),
                              int(m.group(4)), int(m.group(5))))
            k += 1
    d["force"] = (t[4] == "1") if (t[0] == "gc2" and len(t) > 4) else (t[0] == "gc2" or t[2] == "1")
    return d


def oracle_requesters(prog_lines, out_lines, evs, collects, concurrent):
    """The last clause of C11 evaluated on what the implementation printed / logged (independent of the Lean model).
    (1) on every `gc2`/`gcn` answer: each requester of an enabled request got `true`, entered block_for_gc and saw the
    pause counter advance (`gcs_at_return > gcs_before`); a `false` without blocking is legitimate only when hx_gc says
    that the trigger would refuse the request (`en=0`: plan does not collect, or not forced and ignored); all requests
    are served (`gcs` at the end above every `gcs_before`); k merged requests lead to 1..k collections.
    (2) on the event log: every thread that made a GcRequest inside a user-GC call (VmMisc 4 .. 5) logged VmBlockEnter
    afterwards and a VmResume happened between its request and its return."""
    out, st = [], defaultdict(int)
    for op, o in zip(prog_lines, out_lines):
        g = parse_gc2(op, o)
        if g is None:
            if op.split()[:1] and op.split()[0] in ("gc2", "gcn") and not o.startswith("err"):
                out.append(("gc:request-result", f"`{op}` answered `{o[:120]}`"))
            continue
        st["rounds"] += 1
        st[f"requesters:{len(g['reqs'])}"] += 1
        en = g["en"] == 1
        if en != collects:
            # hx_gc computes `en` with the trigger's own condition; the programs never set ignore_system_gc, so
            # a request is refused exactly when the plan does not collect (NoGC)
            out.append(("gc:request-result", f"`{op}`: en={g['en']} but the plan's collects_garbage is {collects}"))
        k = len(g["reqs"])
        if k == 0:
            out.append(("gc:request-result", f"`{op}` answered `{o[:120]}`: no requester reported"))
            continue
        lo = min(r[4] for r in g["reqs"])
        hi = max(r[4] for r in g["reqs"])
        for (lab, m, ret, blocked, before, after) in g["reqs"]:
            if en:
                if not ret or blocked == 0 or after <= before:
                    out.append(("gc:requester-not-blocked",
                                f"`{op}` -> `{o}`: mutator {m} ({lab}) requested a collection when {before} pauses had completed; "
                                f"its call returned {str(ret).lower()} with {after} pauses completed after {blocked} block_for_gc "
                                "calls: it was not blocked until a collection ended"))
            else:
                st["disabled"] += 1
                if ret or blocked:
                    out.append(("gc:request-result", f"`{op}` -> `{o}`: mutator {m} got {ret}/{blocked} although the request is refused"))
        if en:
            n = g["gcs"] - lo
            if g["gcs"] <= hi:
                out.append(("gc:request-not-served", f"`{op}` -> `{o}`: no collection completed after the last request"))
            cap = (2 * k + 1) if concurrent else k
            if n < 1 or n > cap:
                out.append(("gc:merged-request-count", f"`{op}` -> `{o}`: {k} simultaneous requests led to {n} pauses (expected 1..{cap})"))
            st[f"pauses:{min(n, 3)}{'+' if n >= 3 else ''}"] += 1
            if len({r[5] for r in g["reqs"]}) == 1 and n >= 1:
                st["all_requesters_saw_the_same_pause_count"] += 1
    # (2) log based
    open_call = {}            # tid -> dict(m, req=index of GcRequest or None, block=bool, resumes_at_req)
    resumes = 0
    order = []
    for (seq, tid, k, a, b) in evs:
        if k == K["VmResume"]:
            resumes += 1
        elif k == K["VmMisc"] and a == 4:
            open_call[tid] = dict(m=b, req=None, elided=None, block=False, resumes=None)
        elif k == K["GcRequest"] and tid in open_call and open_call[tid]["req"] is None:
            open_call[tid].update(req=seq, elided=a, resumes=resumes)
            others = [t for t, c in open_call.items() if t != tid and c["req"] is not None]
            st["log:requests"] += 1
            if a == 1:
                st["log:merged_requests"] += 1
            if others:
                st["log:requests_while_another_requester_in_flight"] += 1
                st["log:second_requester=" + ("helper" if tid != 0 else "driver")] += 1
        elif k == K["VmBlockEnter"] and tid in open_call:
            open_call[tid]["block"] = True
        elif k == K["VmMisc"] and a == 5 and tid in open_call:
            c = open_call.pop(tid)
            ret = b % 2 == 1
            if c["req"] is not None:
                if not c["block"] or resumes <= c["resumes"] or not ret:
                    out.append(("gc:requester-not-blocked",
                                f"event log: mutator {c['m']} (thread {tid}) made a GC request (request_flag already set: {c['elided']}) "
                                f"and its call returned {str(ret).lower()} — block_for_gc entered: {c['block']}, pauses ended meanwhile: "
                                f"{resumes - c['resumes']}"))
            elif ret:
                out.append(("gc:request-result", f"event log: mutator {c['m']} got `true` from a call that made no request"))
    seen, res = set(), []
    for key, what in out:
        if key not in seen:
            seen.add(key)
            res.append((key, what))
    return res, st


def req_log_mutants(evs):
    """Corrupted requester logs the `reqm` monitor must reject: the seeded regression's shape (a merged requester
    comes back without block_for_gc) and a requester that leaves block_for_gc before the pause ended."""
    rq = req_tokens(evs)
    out = []
    # a call that blocked: find (i4, i5) on one thread with VmBlockEnter inside
    for i, e in enumerate(rq):
        if e[2] == K["VmMisc"] and e[3] == 4:
            t = e[1]
            j = next((j for j in range(i + 1, len(rq)) if rq[j][1] == t and rq[j][2] == K["VmMisc"] and rq[j][3] == 5), None)
            if j is None:
                continue
            inner = [x for x in range(i, j) if rq[x][1] == t and rq[x][2] in (K["VmBlockEnter"], K["VmBlockLeave"])]
            if len(inner) == 2 and any(rq[x][1] == t and rq[x][2] == K["GcRequest"] for x in range(i, j)):
                e5 = rq[j]
                skip = [x for n, x in enumerate(rq) if n not in inner]
                skip = [((x[0], x[1], x[2], x[3], x[4] - 1) if x is e5 else x) for x in skip]
                # the return (now `false`) is moved to where the block was entered: before the pause
                skip.remove((e5[0], e5[1], e5[2], e5[3], e5[4] - 1))
                pos = next(n for n, x in enumerate(skip) if x[0] > rq[inner[0]][0])
                out.append(("requester-returns-false-without-blocking", skip[:pos] + [(rq[inner[0]][0], t, K["VmMisc"], 5, e5[4] - 1)] + skip[pos:]))
                # leaves block_for_gc right after entering it
                early = [x for n, x in enumerate(rq) if n != inner[1]]
                pos = next(n for n, x in enumerate(early) if x is rq[inner[0]]) + 1
                lv = rq[inner[1]]
                out.append(("requester-unblocked-before-pause-end", early[:pos] + [(rq[inner[0]][0], t, lv[2], lv[3], lv[4])] + early[pos:]))
                break
    return out


# ------------------------------------------------------------------------------------------------
# the common check driver
# ------------------------------------------------------------------------------------------------

class Result:
    pass


def run_all(progs, mut_open_plans=("ConcurrentImmix",), threads=6):
    """Run every program, replay its log in Lean, evaluate the oracles."""
    builds = {}
    exes = {}
    for uni in (False, True):
        if any((p.plan == "Compressor") == uni for p in progs):
            exe, err, bs = E.cargo_build("hx_gc", fs="fs_main", extra_features=("unified_ref",) if uni else ())
            builds["hx_gc" + ("+unified_ref" if uni else "")] = bs
            if exe is None:
                return None, err, builds
            exes[uni] = exe
    stages, err = regenerate_stages()
    if stages is None:
        return None, err, builds
    model = E.model_exe()

    def one(p):
        r = Result()
        r.prog = p
        r.rc, r.lines, r.secs = run_prog(exes[p.plan == "Compressor"], p)
        r.evs = parse_events(r.lines)
        cons = constraints_of(r.lines)
        r.fwd = cons.get("fwdafterliveness") in ("1", "true") if cons else None
        r.toks = annotate(r.evs, p.workers)
        r.verdict, r.stats = lean_replay(model, r.toks, p.workers, p.plan in mut_open_plans)
        r.oracle = oracle(r.evs, r.rc, r.lines, stages, r.fwd)
        r.req_verdict, r.req_stats = lean_req_replay(model, req_tokens(r.evs))
        collects = cons.get("collects", "1") in ("1", "true")
        orc2, r.gc2stats = oracle_requesters(p.text(), r.lines, r.evs, collects, cons.get("concurrent") in ("1", "true"))
        r.oracle += orc2
        r.stopstats = stop_request_stats(r.evs)
        miss = never_run(r.evs, stages) if r.rc == 0 else {}
        if miss:
            ky, n = next(iter(miss.items()))
            r.oracle.append(("sched:packet-never-run", f"{len(miss)} packet kinds added during a GC never ran, e.g. type {ky[1]:#x} x{n}"))
        return r
    with ThreadPoolExecutor(threads) as ex:
        results = list(ex.map(one, progs))
    return results, stages, builds


def std_args(argv):
    ap = argparse.ArgumentParser()
    ap.add_argument("--tier", default=os.environ.get("VERIF_TIER", "quick"))
    ap.add_argument("--seed", type=int, default=int(os.environ.get("VERIF_SEED", "20260921")))
    ap.add_argument("--replay")
    return ap.parse_args(argv)


def conc_programs(rng, count):
    """ConcurrentImmix with natural GCs: concurrent marking runs while the mutator keeps writing (SATB barrier
    pushes into the open Concurrent bucket)."""
    progs = []
    for i in range(count):
        w = [1, 2, 4, 1][i % 4]
        L = []
        p = L.append
        nid = [0]
        p("bind 1")
        def alloc(m, nf, payload, slot):
            nid[0] += 1
            p(f"alloc {m} {nid[0]} {nf} {payload} 8 0 Default {slot}")
            return nid[0]
        keep = []
        for k in range(40):
            x = alloc(0, 4, 64, 10 + k % 40)
            keep.append(x)
        # a large live structure so that concurrent marking takes a while
        head = None
        for k in range(6000):
            x = alloc(0, 2, 200, 61)
            if head is not None:
                p(f"write 0 {x} 0 {head}")
            p(f"root 0 9 {x}")
            head = x
            if k % 50 == 0:
                keep.append(x)
        for rounds in range(6):
            for k in range(700):
                y = alloc(k % 2, 2, rng.choice([2000, 6000, 12000]), 60)
                if k % 3 == 0:
                    src = rng.choice(keep)
                    p(f"write 0 {src} {rng.randrange(2)} {y}")
                    p("flush 0")
            p("events")
        progs.append(Prog(f"conc{i}-w{w}", "ConcurrentImmix", w, L, yseed=rng.randrange(1, 1 << 30) if i % 2 else 0,
                          heap=24 << 20, tags={"conc"}))
    return progs


def log_mutants(evs):
    """Corrupted versions of a valid log (the malformed stream): each must be rejected by the monitor."""
    evs = [e for e in evs if e[2] in KEEP]
    out = []

    def first(pred, start=0):
        return next((i for i in range(start, len(evs)) if pred(evs[i])), None)
    i = first(lambda e: e[2] == K["MonRequested"] and e[4] == 1)
    if i is not None:
        j = first(lambda e: e[2] == K["MonNotify"] and e[1] == evs[i][1], i)
        if j is not None:
            out.append(("drop-notify-after-request", evs[:j] + evs[j + 1:]))
    i = first(lambda e: e[2] == K["BucketClose"] and e[3] > 2)
    if i is not None:
        out.append(("drop-bucket-close", evs[:i] + evs[i + 1:]))
    i = first(lambda e: e[2] == K["PacketStart"])
    if i is not None:
        j = first(lambda e: e[2] == K["PacketEnd"] and e[1] == evs[i][1], i)
        if j is not None:
            out.append(("packet-runs-twice", evs[:j + 1] + [evs[i], evs[j]] + evs[j + 1:]))
            out.append(("drop-packet-end", evs[:j] + evs[j + 1:]))
    i = first(lambda e: e[2] == K["BucketOpen"] and e[3] > 3)
    if i is not None:
        g = max(j for j in range(i) if evs[j][2] == K["MonPark"] and evs[j][1] == evs[i][1])
        out.append(("open-before-park", evs[:g] + [evs[i]] + evs[g:i] + evs[i + 1:]))
    i = first(lambda e: e[2] == K["BqPush"] and e[1] >= 100 and (e[4] & 0xff) > 12)
    if i is not None:
        seq, tid = evs[i][0], evs[i][1]
        out.append(("notify-on-closed-bucket", evs[:i + 1] + [(seq, tid, K["MonNotify"], 0, 0)] + evs[i + 1:]))
    i = first(lambda e: e[2] == K["MonPark"] and e[4] == 1)
    if i is not None:
        e = evs[i]
        out.append(("all-parked-flag-flipped", evs[:i] + [(e[0], e[1], e[2], e[3], 0)] + evs[i + 1:]))
    i = first(lambda e: e[2] == K["VmResume"])
    if i is not None:
        j = max(k for k in range(i) if evs[k][2] == K["GcFinishedBegin"])
        out.append(("resume-before-closes", evs[:j + 1] + [evs[i]] + evs[j + 1:i] + evs[i + 1:]))
    # the last parked worker returns WakeAll but never calls notify_all
    i = first(lambda e: e[2] == K["MonLastParked"] and e[4] == 2)
    if i is not None:
        j = first(lambda e: e[1] == evs[i][1], i + 1)
        if j is not None and evs[j][2] == K["MonNotify"] and evs[j][3] == 1:
            out.append(("drop-notify-all-of-wake-all-group", evs[:j] + evs[j + 1:]))
    # the seeded regression of C14 / C16: at the end of a GC the last parker goes to sleep (ParkSelf) instead of
    # responding to the stop request that arrived during the GC
    for i, e in enumerate(evs):
        if e[2] == K["GoalCompleted"] and e[3] == 0:
            t = e[1]
            js = [j for j in range(i + 1, min(len(evs), i + 400)) if evs[j][1] == t][:5]
            if (len(js) == 5 and evs[js[0]][2] == K["GoalStarted"] and evs[js[0]][3] in (1, 2)
                    and evs[js[1]][2] == K["MonLastParked"]):
                seq, w, drop = evs[js[0]][0], t - 100, set(js)
                out.append(("last-parker-sleeps-on-pending-stop-request",
                            evs[:js[0]] + [(seq, t, K["MonLastParked"], w, 0), (seq, t, K["MonWait"], w, 0)]
                            + [x for j, x in enumerate(evs[js[0]:], js[0]) if j not in drop]))
                break
    return out


# Recorded logs of real runs (KEEP kinds, spin cycles compressed) in which a mutator resumed by `on_gc_finished` pushes a
# ProcessModBufSATB packet into the just-opened Concurrent bucket and calls `notify_one` while the last parked worker is
# still inside its mutex-protected group (before `MonLastParked` / `notify_all`): (name, workers, mutAddOpen)
FIXTURES = [("conc21-w2-resume-notify", 2, True, "resume-notify"), ("conc30-w4-resume-notify", 4, True, "resume-notify"),
            # a worker's steal_batch_and_pop empties a bucket, the thread is descheduled before it logs BucketPollOk /
            # BucketPollBatch; meanwhile another worker finds the bucket empty and parks, and a thief steals the
            # batch-moved packet from the poller's deque (WorkerSteal logged before the poller's BucketPollBatch)
            ("p158-concimmix-w16-late-poll-log", 16, True, "late-poll-log")]


def load_fixture(name):
    path = os.path.join(E.VERIF, "checks", "data", "sched", name + ".events")
    return [tuple(int(x) for x in l.split(":")) for l in open(path).read().split()]


def resume_notify_site(evs):
    """(g, p, i, lp, na): the MonPark of a last-parked group that ends in WakeAll, a mutator's BqPush and MonNotify(0)
    logged inside that group, the group's MonLastParked and MonNotify(1).  None if the log has no such site."""
    grp = {}
    for i, (seq, tid, k, a, b) in enumerate(evs):
        if k == K["MonPark"] and b == 1:
            grp[tid] = i
        elif k in (K["MonUnpark"], K["MonWait"]):
            grp.pop(tid, None)
        elif k == K["MonNotify"] and a == 0 and tid < 100 and grp:
            wt, g = next(iter(grp.items()))
            p = max((j for j in range(g, i) if evs[j][1] == tid and evs[j][2] == K["BqPush"]), default=None)
            lp = next((j for j in range(i, len(evs)) if evs[j][1] == wt and evs[j][2] == K["MonLastParked"]), None)
            if p is None or lp is None or evs[lp][4] != 2:
                continue
            na = next((j for j in range(lp, len(evs)) if evs[j][1] == wt and evs[j][2] == K["MonNotify"]), None)
            if na is not None and evs[na][3] == 1 and all(evs[j][1] != tid for j in range(p + 1, i)):
                return g, p, i, lp, na
    return None


def resume_notify_mutants(evs):
    """Corrupted versions of such a log: [(name, events, override)] — `override` = None, or (index, target) to replace
    the front end's attribution of the `MonNotify(0)` at that index (a dishonest front end)."""
    site = resume_notify_site(evs)
    if site is None:
        return []
    g, p, i, lp, na = site
    out = []
    out.append(("drop-notify-all-of-wake-all-group", evs[:na] + evs[na + 1:], None))
    # the mutator pushes and notifies BEFORE the group, i.e. before schedule_concurrent_packets enabled the bucket
    # (only where the log itself shows that the bucket was disabled before the group and enabled inside it)
    st = evs[p][4] & 0xff
    flags = [j for j in range(lp) if evs[j][2] == K["BucketSetEnabled"] and evs[j][3] == st]
    if [evs[j][4] for j in flags if j < g][-1:] == [0] and [evs[j][4] for j in flags if j > g] == [1]:
        rest = [e for j, e in enumerate(evs[g:], g) if j not in (p, i)]
        out.append(("mutator-notify-before-concurrent-bucket-enabled", evs[:g] + [evs[p], evs[i]] + rest, None))
    # the group ends in ParkSelf although concurrent work was scheduled
    e = evs[lp]
    un = next((j for j in range(na, len(evs)) if evs[j][1] == e[1] and evs[j][2] == K["MonUnpark"]), None)
    out.append(("wake-all-group-parks-instead", evs[:lp] + [(e[0], e[1], e[2], e[3], 0), (evs[na][0], e[1], K["MonWait"], e[3], 0)]
                + [x for j, x in enumerate(evs[lp + 1:], lp + 1) if j not in (na, un)], None))
    # the front end claims that the notify_one woke a worker which the group's notify_all has already woken
    w = next((evs[j][3] for j in range(g - 1, -1, -1) if evs[j][2] == K["MonWait"]), None)
    if w is not None:
        out.append(("front-end-attributes-notify-to-woken-worker", evs, (i, w + 1)))
    return out


def annotate_override(evs, n, override):
    toks = annotate(evs, n)
    if override is None:
        return toks
    idx, tgt = override
    seq, tid = evs[idx][0], evs[idx][1]
    return [(t[0], t[1], t[2], t[3], tgt) if (t[0], t[1], t[2]) == (seq, tid, K["MonNotify"]) else t for t in toks]


def late_poll_site(evs):
    """(pe, ok, st, mp): a worker `o` whose BucketPollOk (index ok, bucket st) is logged late — another worker's
    non-last MonPark (index mp) lies between o's previous event (index pe) and ok — and whose poll batch-moved a packet
    that a thief stole before o's BucketPollBatch was logged.  None if the log has no such site."""
    last = {}
    prev_of = [None] * len(evs)
    for i, e in enumerate(evs):
        prev_of[i] = last.get(e[1])
        last[e[1]] = i
    for j, (seq, tid, k, a, b) in enumerate(evs):
        if k != K["BucketPollBatch"] or tid < 100:
            continue
        ok = prev_of[j]
        if ok is None or evs[ok][2] != K["BucketPollOk"] or prev_of[ok] is None:
            continue
        pe = prev_of[ok]
        stolen = any(evs[x][2] == K["WorkerSteal"] and (evs[x][4] >> 40) == tid - 100 for x in range(ok, j))
        mp = next((x for x in range(pe + 1, ok) if evs[x][2] == K["MonPark"] and evs[x][4] == 0 and evs[x][1] != tid), None)
        if stolen and mp is not None and evs[pe][2] == K["PacketEnd"]:
            return pe, ok, a, mp
    return None


def late_poll_mutants(evs):
    """The parking worker can only have seen the bucket empty because the late logger had finished its previous packet
    (and so could already have polled).  If that PacketEnd comes after the other worker's park, the poll that emptied
    the bucket is later than the park: the worker parked with runnable work in an open bucket (sched:park-with-work)."""
    site = late_poll_site(evs)
    if site is None:
        return []
    pe, ok, st, mp = site
    w = next((x for x in range(mp + 1, ok) if evs[x][1] == evs[mp][1]), mp)       # the parker's MonWait
    return [("poller-still-running-when-other-worker-parks", evs[:pe] + evs[pe + 1:w + 1] + [evs[pe]] + evs[w + 1:], None)]


def fixture_selftest(model):
    """Recorded real logs must be accepted; their corrupted versions must be rejected."""
    stat, accepted, refused = defaultdict(lambda: [0, 0]), [], []
    for name, n, mut_open, kind in FIXTURES:
        evs = load_fixture(name)
        v, st = lean_replay(model, annotate(evs, n), n, mut_open)
        stat["recorded-log:" + name] = [1, 0 if v.startswith("viol") else 1]       # here "rejected" counts acceptance
        if v.startswith("viol"):
            refused.append(f"{name}: {v[:300]}")
        muts = resume_notify_mutants(evs) if kind == "resume-notify" else late_poll_mutants(evs)
        if not muts:
            refused.append(f"{name}: the log no longer contains its site ({kind})")
        for mname, evs2, ov in muts:
            v, st = lean_replay(model, annotate_override(evs2, n, ov), n, mut_open)
            stat[mname][0] += 1
            if v.startswith("viol"):
                stat[mname][1] += 1
            else:
                accepted.append(f"{mname} on recorded log {name}")
        if kind != "resume-notify":
            continue
        # mutators pushing into an open bucket are only accepted under mutAddOpen
        v, st = lean_replay(model, annotate(evs, n), n, False)
        stat["mutator-push-into-open-bucket-without-mutAddOpen"][0] += 1
        if v.startswith("viol"):
            stat["mutator-push-into-open-bucket-without-mutAddOpen"][1] += 1
        else:
            accepted.append(f"mutator-push-into-open-bucket-without-mutAddOpen on recorded log {name}")
    return stat, accepted, refused


def monitor_selftest(model, results):
    """The monitor must reject every corrupted log (otherwise it would be vacuous)."""
    stat, accepted = defaultdict(lambda: [0, 0]), []
    # live ConcurrentImmix logs: the WakeAll mutant, and any site of the resume/notify race that the run happened to hit
    conc_done = 0
    for r in results:
        if not r.stats or r.prog.plan != "ConcurrentImmix" or conc_done >= 3:
            continue
        conc_done += 1
        evs = [e for e in r.evs if e[2] in KEEP]
        muts = [(nm, e2, None) for nm, e2 in log_mutants(r.evs) if nm == "drop-notify-all-of-wake-all-group"]
        muts += [m for m in resume_notify_mutants(evs) if m[0] != "drop-notify-all-of-wake-all-group"]
        for name, evs2, ov in muts:
            v, st = lean_replay(model, annotate_override(evs2, r.prog.workers, ov), r.prog.workers, True)
            stat[name][0] += 1
            if v.startswith("viol"):
                stat[name][1] += 1
            else:
                accepted.append(f"{name} on {r.prog.name}")
    done, done_stop = 0, 0
    STOPM = "last-parker-sleeps-on-pending-stop-request"
    for r in results:
        if not r.stats or r.prog.plan == "ConcurrentImmix":
            continue
        full = done < 3
        # beyond the first three logs: the stop-request mutant on up to three logs that contain a request during a GC
        only_stop = (not full) and done_stop < 3 and r.stopstats.get("while_gc_goal_current", 0) > 0
        if not (full or only_stop):
            continue
        done += 1 if full else 0
        for name, evs2 in log_mutants(r.evs):
            if only_stop and name != STOPM:
                continue
            if name == STOPM:
                done_stop += 1
            v, st = lean_replay(model, annotate(evs2, r.prog.workers), r.prog.workers, False)
            stat[name][0] += 1
            if v.startswith("viol"):
                stat[name][1] += 1
            else:
                accepted.append(f"{name} on {r.prog.name}")
        if not full:
            continue
        v, st = lean_replay(model, [("garbage",)], r.prog.workers, False)
        stat["malformed-token"][0] += 1
        stat["malformed-token"][1] += 1 if v.startswith("viol") else 0
        for name, rq in req_log_mutants(r.evs) + [("reqm-malformed-token", [("garbage",)])]:
            v, st = lean_req_replay(model, rq)
            stat[name][0] += 1
            if v.startswith("viol"):
                stat[name][1] += 1
            else:
                accepted.append(f"{name} on {r.prog.name}")
    return {k: {"mutants": a, "rejected": b} for k, (a, b) in stat.items()}, accepted


def run_check(pid, modules, theorems, keys, build_programs, argv, meta, want_fork=False, extra=None):
    """Common main of C14/C15/C16/C11: Lean obligations, real GCs, monitor + oracles, evidence."""
    a = std_args(argv)
    t0 = time.time()
    violations = []
    if a.replay:
        return replay(pid, a.replay, keys)
    # translator first: the generated table is part of the Lean build
    stages, err = regenerate_stages()
    if stages is None:
        violations.append(Violation("harness-build-failed", "hx_consts no longer builds / runs: " + err[-1200:],
                                    found_input=False, broken="translator (stage table)"))
        return E.finish(pid, a.tier, a.seed, t0, {"obligations": len(theorems), "discharged": 0}, {}, violations)
    lean = E.lean_check(modules, theorems, fresh=(a.tier == "thorough"))
    lean["targets"] = modules
    rng = random.Random(a.seed * 7919 + sum(map(ord, pid)))
    progs = build_programs(rng, a.tier)
    results, stages2, builds = run_all(progs)
    if results is None:
        violations.append(Violation("harness-build-failed", "hx_gc no longer builds: " + str(stages2)[-1200:],
                                    found_input=False, broken="harness build"))
        return E.finish(pid, a.tier, a.seed, t0, lean, {}, violations)
    n_ok, total_events, gcs, distinct = 0, 0, 0, set()
    dist = defaultdict(int)
    agg = defaultdict(int)
    samples = []
    other = defaultdict(int)
    stop_agg = defaultdict(int)
    req_agg = defaultdict(int)
    for r in results:
        p = r.prog
        for k2, v in r.stopstats.items():
            stop_agg[k2] += v
        if "forkgc" in p.tags:
            stop_agg["forkgc_programs"] += 1
            stop_agg["forkgc_programs_with_request_during_gc"] += 1 if r.stopstats.get("while_gc_goal_current") else 0
        dist["plan:" + p.plan] += 1
        dist[f"workers:{p.workers}"] += 1
        dist["yield:" + ("armed" if p.yseed else "off")] += 1
        for t in p.tags:
            dist["tag:" + t] += 1
        total_events += len(r.toks)
        case = {"name": p.name, "program": p.text()}
        found = []
        if r.verdict.startswith("viol"):
            parts = r.verdict.split(" ", 2)
            found.append((parts[1], parts[2] if len(parts) > 2 else ""))
        if r.req_verdict.startswith("viol"):
            parts = r.req_verdict.split(" ", 2)
            found.append((parts[1], "requester monitor (Model/Requesters.lean): " + (parts[2] if len(parts) > 2 else "")))
        found += r.oracle
        for k2, v in (r.req_stats or {}).items():
            req_agg["monitor:" + k2] += v
        for k2, v in r.gc2stats.items():
            req_agg[k2] += v
        if "gc2" in p.tags:
            req_agg["gc2_programs"] += 1
        mine = [(k, w) for k, w in found if k in keys]
        for k, w in found:
            if k not in keys:
                other[k] += 1
        if mine:
            os.makedirs(os.path.join(E.OUT, "replay"), exist_ok=True)
            evf = os.path.join(E.OUT, "replay", f"{pid}-{p.name}-{a.seed}.events")
            with open(evf, "w") as f:
                f.write("\n".join(":".join(map(str, e)) for e in r.evs))
            case["events_file"] = evf
        for k, w in mine:
            violations.append(Violation(k, f"{w} [program {p.name}: plan {p.plan}, {p.workers} workers, yield seed {p.yseed}]",
                                        case, r.lines[-3:] + [r.verdict], None, True))
        if r.stats:
            n_ok += 1
            gcs += r.stats.get("gcs", 0)
            for k2, v in r.stats.items():
                agg[k2] += v
            distinct.add((p.plan, p.workers, r.stats.get("parks"), r.stats.get("lastparked"), r.stats.get("steals"),
                          r.stats.get("packets")))
            if len(samples) < 3:
                samples.append({"program": p.name, "head": p.text()[:8], "events": len(r.toks), "monitor": r.verdict[:300]})
    extra_cov = {}
    if extra is not None:
        ev, extra_cov = extra(rng, a.tier)
        violations += ev
    if stop_agg.get("forkgc_programs") and "sched:forkgc-vacuous" in keys and not any(v.found_input for v in violations) \
            and stop_agg["forkgc_programs_with_request_during_gc"] * 2 < stop_agg["forkgc_programs"]:
        violations.append(Violation("sched:forkgc-vacuous",
                                    f"only {stop_agg['forkgc_programs_with_request_during_gc']} of {stop_agg['forkgc_programs']} "
                                    "`forkgc` programs made their stop request while a Gc goal was current",
                                    None, None, None, False, broken="hx_gc `forkgc` (request during a collection)"))
    # the simultaneous-request programs must actually produce merged requests (otherwise the harness op is broken)
    if req_agg.get("gc2_programs") and "sched:gc2-vacuous" in keys and not any(v.found_input for v in violations) \
            and req_agg.get("log:requests_while_another_requester_in_flight", 0) * 2 < req_agg.get("rounds", 0):
        violations.append(Violation("sched:gc2-vacuous",
                                    f"only {req_agg.get('log:requests_while_another_requester_in_flight', 0)} requests were made while "
                                    f"another requester was in flight in {req_agg.get('rounds', 0)} `gc2`/`gcn` rounds",
                                    None, None, None, False, broken="hx_gc `gc2` (simultaneous requests)"))
    selftest, accepted = monitor_selftest(E.model_exe(), results)
    fstat, faccepted, frefused = fixture_selftest(E.model_exe())
    accepted += faccepted
    for k2, (a2, b2) in fstat.items():
        if k2.startswith("recorded-log:"):
            selftest[k2] = {"logs": a2, "accepted": b2}
        else:
            cur = selftest.setdefault(k2, {"mutants": 0, "rejected": 0})
            cur["mutants"] += a2
            cur["rejected"] += b2
    if frefused:
        violations.append(Violation("sched:recorded-log-refused",
                                    "a recorded log of a real run is no longer accepted by front end + monitor: " + "; ".join(frefused[:3]),
                                    None, None, None, False, broken="event-log front end / conformance monitor (false alarm on real behaviour)"))
    if accepted:
        violations.append(Violation("sched:monitor-accepts-corrupted-log",
                                    "the Lean monitor accepted corrupted event logs: " + "; ".join(accepted[:5]),
                                    None, None, None, False, broken="event-log conformance monitor (would no longer detect such logs)"))
    if not lean["ok"]:
        names = [f.get("theorem") or f.get("module") or f["kind"] for f in lean["failures"]]
        if not any(v.found_input for v in violations):
            violations.append(Violation("proof-broken", f"Lean obligations no longer check: {lean['failures']}",
                                        None, None, None, False, broken=f"theorems/modules: {names}"))
    corr = {
        "evaluations": len(results), "distinct_nontrivial": len(distinct),
        "rule": "one evaluation = one hx_gc process (a generated mutator program with 2-6 GCs on a real MMTk instance) whose "
                "complete event log is replayed by the Lean monitor and judged by the Python oracles; non-trivial = the "
                "monitor accepted at least one complete GC; distinct = distinct (plan, workers, parks, last-parked rounds, "
                "steals, packets) tuples",
        "samples": samples, "traces_validated_against_impl": n_ok, "gcs_replayed": gcs, "events_replayed": total_events,
        "monitor_totals": dict(agg), "distribution": dict(dist), "harness_build_s": builds, "lean_s": lean.get("lean_s"),
        "failures_owned_by_other_sched_properties": dict(other),
        "stop_requests": dict(stop_agg),
        "requesters": dict(req_agg),
        "monitor_selftest_corrupted_logs": selftest, **extra_cov,
    }
    return E.finish(pid, a.tier, a.seed, t0, lean, corr, violations, level="proof of the model; partial w.r.t. the code",
                    assumptions=meta.get("assumptions", [
                        "event-log conformance is sampled (programs x schedules), not exhaustive",
                        "Condvar / crossbeam deque semantics as modelled (notify_one wakes one current waiter or nobody; "
                        "spurious wake-ups allowed; steal_batch_and_pop moves packets atomically)",
                        "debug build (debug assertions are guards of the model)"]))


def replay(pid, path, keys):
    data = json.load(open(path))
    case = data["case"]
    lines = case["program"] if isinstance(case, dict) else case
    plan = next(l.split()[2] for l in lines if l.startswith("cfg plan"))
    workers = int(next(l.split()[2] for l in lines if l.startswith("cfg workers")))
    exe, err, _ = E.cargo_build("hx_gc", fs="fs_main", extra_features=("unified_ref",) if plan == "Compressor" else ())
    stages, err = regenerate_stages()
    E.run(["lake", "build", "mmtk_model"], cwd=E.LEAN_DIR)
    bad = 0

    def owned(verdict, orc, rv=""):
        # only the failure keys of this property count (as in `run_check`); the others are printed as `other`
        found = [tuple((verdict.split(" ", 2) + [""])[1:3])] if verdict.startswith("viol") else []
        found += [tuple((rv.split(" ", 2) + [""])[1:3])] if rv.startswith("viol") else []
        found += list(orc)
        return [(k, w) for k, w in found if k in keys], sorted({k for k, w in found if k not in keys})
    evf = case.get("events_file") if isinstance(case, dict) else None
    if evf and not os.path.exists(evf):
        evf = os.path.join(os.path.dirname(os.path.abspath(path)), os.path.basename(evf))    # moved with the replay file
    if evf and os.path.exists(evf):
        evs = [tuple(int(x) for x in l.split(":")) for l in open(evf).read().split()]
        verdict, st = lean_replay(E.model_exe(), annotate(evs, workers), workers, plan == "ConcurrentImmix")
        orc = oracle(evs, 0, [], stages, None)
        rv, _ = lean_req_replay(E.model_exe(), req_tokens(evs))
        orc += oracle_requesters([], [], evs, True, plan == "ConcurrentImmix")[0]
        mine, other = owned(verdict, orc, rv)
        print(f"recorded log: monitor: {verdict[:300]} requester monitor: {rv[:300]} {pid}: {mine} other properties: {other}")
        if mine:
            bad += 1
    for attempt in range(5):
        p = subprocess.run([exe], input="\n".join(lines) + "\n", capture_output=True, text=True, timeout=300)
        out = p.stdout.splitlines()
        evs = parse_events(out)
        verdict, st = lean_replay(E.model_exe(), annotate(evs, workers), workers, plan == "ConcurrentImmix")
        cons = constraints_of(out)
        orc = oracle(evs, p.returncode, out, stages, cons.get("fwdafterliveness") in ("1", "true"))
        rv, _ = lean_req_replay(E.model_exe(), req_tokens(evs))
        orc += oracle_requesters(lines, out, evs, cons.get("collects", "1") in ("1", "true"),
                                 cons.get("concurrent") in ("1", "true"))[0]
        mine, other = owned(verdict, orc, rv)
        print(f"run {attempt}: rc={p.returncode} monitor: {verdict[:300]} requester monitor: {rv[:300]} {pid}: {mine} other properties: {other}")
        if mine:
            bad += 1
    print("REPLAY:", "violation reproduced" if bad else "no longer reproduces (5 runs; schedules vary)")
    return 1 if bad else 0
