"""C11 — stop-the-world bracket: stop once, scan each mutator once, resume once."""
import sys
from checks import sched_common as S

PID = "C11"
MODULES = ["MmtkModel.Props.C11"]
THEOREMS = ["Mmtk.Sched.stop_before_trace", "Mmtk.Sched.stw_open_means_stopped", "Mmtk.Sched.stopped_only_in_gc",
            "Mmtk.Sched.one_stop_per_gc", "Mmtk.Sched.resume_once_after_all", "Mmtk.Sched.no_stw_after_resume",
            "Mmtk.Sched.generated_wf2", "Mmtk.Sched.step_invS", "Mmtk.Sched.onLastParked_stopped",
            "Mmtk.Sched.onLastParked_opens_first"]
KEYS = S.COMMON_KEYS + ("gc:scan-outside-stw-packet", "gc:scan-before-stop", "gc:scan-twice", "gc:scan-count",
                        "gc:scan-passes", "gc:resume-outside-gc-end", "gc:resume-while-running", "gc:resume-without-stop",
                        "gc:stw-packet-without-stop", "gc:unblocked-before-resume", "sched:stw-open-at-resume",
                        "sched:not-quiescent")

META = {
    "text": "Lean model Model/Sched.lean: stopAll (StopMutators calls stop_all_mutators), openFirst (notify_mutators_paused "
            "opens the first STW bucket, guard: mutators stopped), resume inside on_gc_finished. Proved for every reachable "
            "state / transition, all interleavings, all n >= 1, every stage table with Cfg.WF2 (the generated one has it): an "
            "open STW bucket implies the mutators are stopped, hence a packet can be taken out of a STW bucket or cached for a "
            "STW stage only after stop_all_mutators (stop_before_trace; the later buckets need the first one open and "
            "drained: loop invariant of update_buckets); stop_all_mutators only while a Gc goal is current and at most once "
            "per bracket; resume_mutators exactly in the transition that completes the Gc goal (resumes = gcDone), with all "
            "workers parked, no packet running, every STW bucket closed and empty, every local deque empty "
            "(resume_once_after_all); while mutators are not stopped every STW bucket is closed (no_stw_after_resume). Tie: "
            "event-log conformance of real GCs with 1-4 mutators on all plans; binding callbacks VmStopBegin/End, "
            "VmScanMutator, VmResume, VmBlockEnter/Leave are checked against the model state "
            "and by Python oracles on the log alone.",
    "note": "'Each mutator scanned exactly once' cannot be stated about abstract packets; it is checked on every replayed GC "
            "(per root-scanning pass: MarkCompact scans every mutator a second time in SecondRoots by design — the literal "
            "'exactly once per collection' does not hold for that plan). 'Requester blocked until resume' is a binding-side "
            "oracle.",
    "technique": "Lean 4 proof: inductive invariants of an n-thread model; event-log conformance monitor + binding-callback oracles",
    "category": "proof",
}


def build_programs(rng, tier):
    n = 40 if tier == "quick" else 500
    progs = []
    for i in range(n):
        plan = S.ALL_PLANS[i % len(S.ALL_PLANS)]
        w = [1, 2, 4, 3, 8, 16][(i // 2) % 6]
        muts = [1, 2, 3, 4][i % 4]
        body = S.body_storm(rng, plan, n_wide=2, fields=[64, 400][i % 2], depth=[50, 800][(i // 2) % 2], gcs=3,
                            mutators=muts, eph=[0, 1, 2, 4][(i // 3) % 4], nonmoving=plan in S.NONMOVING_OK)
        progs.append(S.Prog(f"b{i}-{plan}-w{w}-m{muts}", plan, w, body, yseed=0 if i % 3 == 0 else rng.randrange(1, 1 << 30)))
    return progs


def main(argv=None):
    return S.run_check(PID, MODULES, THEOREMS, KEYS, build_programs, argv, META)


if __name__ == "__main__":
    sys.exit(main(sys.argv[1:]))
