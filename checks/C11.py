"""C11 — stop-the-world bracket: stop once, scan each mutator once, resume once."""
import sys
from checks import sched_common as S

PID = "C11"
MODULES = ["MmtkModel.Props.C11"]
THEOREMS = ["Mmtk.Sched.stop_before_trace", "Mmtk.Sched.stw_open_means_stopped", "Mmtk.Sched.stopped_only_in_gc",
            "Mmtk.Sched.one_stop_per_gc", "Mmtk.Sched.resume_once_after_all", "Mmtk.Sched.no_stw_after_resume",
            "Mmtk.Sched.generated_wf2", "Mmtk.Sched.step_invS", "Mmtk.Sched.onLastParked_stopped",
            "Mmtk.Sched.onLastParked_opens_first",
            # last clause: a mutator that requested a GC is blocked until that GC has ended (Model/Requesters.lean)
            "Mmtk.Req.requester_blocked_until_gc_end", "Mmtk.Req.requester_leaves_only_after_gc_end",
            "Mmtk.Req.requester_returns_after_gc_end_mono", "Mmtk.Req.blocked_requester_has_pending_gc",
            "Mmtk.Req.requested_means_flag_set", "Mmtk.Req.merged_request_not_blocked",
            "Mmtk.Req.merged_request_not_blocked_refutes", "Mmtk.Req.skipBlock_not_in_code", "Mmtk.Req.step_inv",
            "Mmtk.Req.step_ret", "Mmtk.Req.step_mono", "Mmtk.Req.reachable_inv",
            "Mmtk.Sched.sched_gcDone_mono", "Mmtk.Sched.sched_gcDone_mono_run", "Mmtk.Sched.sched_request_merges",
            "Mmtk.Sched.sched_request_sets_flag"]
KEYS = S.COMMON_KEYS + ("gc:scan-outside-stw-packet", "gc:scan-before-stop", "gc:scan-twice", "gc:scan-count",
                        "gc:scan-passes", "gc:resume-outside-gc-end", "gc:resume-while-running", "gc:resume-without-stop",
                        "gc:stw-packet-without-stop", "gc:unblocked-before-resume", "sched:stw-open-at-resume",
                        "sched:not-quiescent") + S.REQ_KEYS

META = {
    "text": "Lean model Model/Sched.lean: stopAll (StopMutators calls stop_all_mutators), openFirst (notify_mutators_paused "
            "opens the first STW bucket, guard: mutators stopped), resume inside on_gc_finished. Proved for every reachable "
            "state / transition, all interleavings, all n >= 1, every stage table with Cfg.WF2 (the generated one has it): an "
            "open STW bucket implies the mutators are stopped, hence a packet can be taken out of a STW bucket or cached for a "
            "STW stage only after stop_all_mutators (stop_before_trace; the later buckets need the first one open and "
            "drained: loop invariant of update_buckets); stop_all_mutators only while a Gc goal is current and at most once "
            "per bracket; resume_mutators exactly in the transition that completes the Gc goal (resumes = gcDone), with all "
            "workers parked, no packet running, every STW bucket closed and empty, every local deque empty "
            "(resume_once_after_all); while mutators are not stopped every STW bucket is closed (no_stw_after_resume). Tie: "
            "event-log conformance of real GCs with 1-4 mutators on all plans; binding callbacks VmStopBegin/End, "
            "VmScanMutator, VmResume, VmBlockEnter/Leave are checked against the model state "
            "and by Python oracles on the log alone. Last clause (requester blocked until the GC has ended): Lean model "
            "Model/Requesters.lean of the mutator side (GCTrigger::request sets request_flag and says whether this call set "
            "it; MMTK::handle_user_collection_request then calls block_for_gc — in the code regardless of that — which waits "
            "until resume_mutators has been called; stop_all_mutators returns only when no requester is between request() "
            "and block_for_gc). Proved for any number of requesters and every interleaving with the collector and with "
            "allocation polls: a call returns only with `true` and only after a pause that began after the request has "
            "ended (requester_blocked_until_gc_end; transition form requester_leaves_only_after_gc_end); without the "
            "safepoint contract, under nothing but the monotonicity of gcDone (sched_gcDone_mono: proved of the scheduler "
            "model), a pause ended between request and return (requester_returns_after_gc_end_mono); a blocked requester "
            "always has a pending request or a pause in progress (blocked_requester_has_pending_gc); kernel-evaluated "
            "witness merged_request_not_blocked for the variant that blocks only if the call itself set the flag. Tie: hx_gc "
            "`gc2 mA mB` / `gcn` — the driver and helper mutator THREADS (counted by stop_all_mutators like the driver) call "
            "handle_user_collection_request after a spin rendezvous with skews in both directions (spinning, or sleeping "
            "in a safe region); the `reqm` monitor replays the requester events of every run against the Lean model, and "
            "Python oracles evaluate the clause on the answers (returned true, block_for_gc entered, gcs_at_return > "
            "gcs_before, every request served, k merged requests -> 1..k collections) and on the event log.",
    "note": "'Each mutator scanned exactly once' cannot be stated about abstract packets; it is checked on every replayed GC "
            "(per root-scanning pass: MarkCompact scans every mutator a second time in SecondRoots by design — the literal "
            "'exactly once per collection' does not hold for that plan). The requester clause is proved of the model of "
            "mmtk-core's side plus VerifVM's block_for_gc (the binding's part of the contract); which of two simultaneous "
            "requests is merged depends on the OS schedule (both orders are produced; the evidence counts them).",
    "technique": "Lean 4 proof: inductive invariants of an n-thread model; event-log conformance monitor + binding-callback oracles",
    "category": "proof",
}


def build_programs(rng, tier):
    n = 40 if tier == "quick" else 500
    progs = []
    for i in range(n):
        plan = S.ALL_PLANS[i % len(S.ALL_PLANS)]
        w = [1, 2, 4, 3, 8, 16][(i // 2) % 6]
        muts = [1, 2, 3, 4][i % 4]
        body = S.body_storm(rng, plan, n_wide=2, fields=[64, 400][i % 2], depth=[50, 800][(i // 2) % 2], gcs=3,
                            mutators=muts, eph=[0, 1, 2, 4][(i // 3) % 4], nonmoving=plan in S.NONMOVING_OK)
        progs.append(S.Prog(f"b{i}-{plan}-w{w}-m{muts}", plan, w, body, yseed=0 if i % 3 == 0 else rng.randrange(1, 1 << 30)))
    # two (or more) mutators request a collection at the same moment (seeded regression C11b: a merged request
    # returned false and its requester was not blocked)
    progs += S.gc2_programs(rng, 20 if tier == "quick" else 300)
    progs += S.nogc_gc2_programs(rng, 1 if tier == "quick" else 6)
    return progs


def main(argv=None):
    return S.run_check(PID, MODULES, THEOREMS, KEYS, build_programs, argv, META)


if __name__ == "__main__":
    sys.exit(main(sys.argv[1:]))
