"""C34 — Immix never hands out a line that holds a live object.

(1) Lean: Props/C34.lean — invariant of the ImmixSpace transition system for histories of any length
    (hole_avoids_live, live_lines_marked, stale_cleared across the wrap, blockState_roundtrip).
(2) constants regenerated from the linked crate (hx_consts immix -> Generated/ImmixConsts.lean).
(3) unit differential hx_unit `immix …` (the REAL get_next_available_lines / Block::sweep /
    Line::mark_lines_for_object on a block of a real ImmixSpace whose line table is overwritten,
    BlockState <-> u8 exhaustively) vs the compiled model + a Python oracle of the statement.
(4) GC runs: hx_gc programs on Immix / StickyImmix / GenImmix / ConcurrentImmix with small heaps and
    > 300 GCs (wrap of the mark state); before/after every user GC the real line tables are dumped,
    the Lean monitor `immixm` replays the model on them and answers the same `holes` queries as the
    real hole search; an independent Python oracle evaluates the property on the dumps.
"""
import argparse, json, os, random, subprocess, sys, time
from concurrent.futures import ThreadPoolExecutor
from vlib import engine as E
from vlib import unit as U
from vlib.engine import Case, Violation

sys.path.insert(0, os.path.join(E.VERIF, "gen"))
import emit_immixconsts as EC

THEOREMS = [
    "Mmtk.Immix.blockState_roundtrip", "Mmtk.Immix.ofByte_toByte", "Mmtk.Immix.toByte_ofByte",
    "Mmtk.Immix.holeSearch_some", "Mmtk.Immix.holeSearch_none",
    "Mmtk.Immix.stale_ne_next", "Mmtk.Immix.stale_sweep", "Mmtk.Immix.sweepBlock_state", "Mmtk.Immix.sweepBlock_keeps",
    "Mmtk.Immix.inv_init", "Mmtk.Immix.inv_step", "Mmtk.Immix.Reachable.inv",
    "Mmtk.Immix.live_lines_marked", "Mmtk.Immix.hole_avoids_live", "Mmtk.Immix.clean_block_avoids_live",
    "Mmtk.Immix.stale_cleared", "Mmtk.Immix.mark_state_range",
    "Mmtk.Immix.hole_avoids_live_partial", "Mmtk.Immix.conc_nonmoving_allocator_not_reset_witness",
]
LINES, MAXS, LINE_LOG, BLOCK_LOG = 128, 127, 8, 15   # overwritten from hx_consts in main()

META = {
    "text": "Lean: one ImmixSpace as a transition system (prepare with the mark-state wrap, mark_lines, release+sweep with the stale-mark reset, reusable pool, hole search with the allocator cursor, clean blocks, eager marking) with ghost sets of lines that may hold live objects; proved for every reachable state (histories of any length): hole search returns only lines whose mark is neither the current nor the unavailable state and that hold no marked / previously live / freshly allocated object (hole_avoids_live, clean_block_avoids_live), marked lines keep the current state and their block survives the sweep (live_lines_marked), a line carries the current state iff it was marked in this cycle, across the 127-state wrap (stale_cleared), block states round-trip through bytes (all bytes, all states with 1..253 lines). Tie: constants regenerated from the crate; the real get_next_available_lines / Block::sweep / mark_lines_for_object run on arbitrary line tables in a real ImmixSpace and are diffed exactly against the model; real GCs (4 Immix plans, > 300 collections each, small heaps) are dumped before/after each collection and the Lean monitor replays sweep/hole search on them.",
    "note": "Proof over the model; partial w.r.t. the code: the model is hand-transcribed and tied by sampling (unit differential on generated tables + sampled heap dumps). Allocator ownership of a popped block and the allocator reset at release are modelled as one cursor per block (BlockPool correctness is C19). Objects are assumed to be marked only where they were allocated (Step.markObject hypothesis). Trusted: Lean kernel, hx_gc/hx_unit harness, mmtk_verif accessors.",
    "technique": "Lean 4 proof (inductive invariant over an unbounded transition system) + exact unit differential + trace monitor on real GC dumps",
    "category": "proof",
}


# ------------------------------------------------------------------------------------------------
# unit differential
# ------------------------------------------------------------------------------------------------

def hexs(marks):
    return "".join(f"{m:02x}" for m in marks)


def gen_table(rng, cur, un):
    """structured line tables: runs of live / stale / free lines, boundary shapes."""
    shape = rng.randrange(10)
    alphabet = [0, cur, un, (cur - 1) % 256, (cur + 1) % 256, MAXS, MAXS - 1, 1, 255, rng.randrange(256)]
    if shape == 0:
        return [cur] * LINES
    if shape == 1:
        return [0] * LINES
    if shape == 2:
        return [un] * LINES
    if shape == 3:   # one hole at a boundary
        t = [cur] * LINES
        a = rng.choice([0, 1, LINES - 2, LINES - 1, rng.randrange(LINES)])
        for i in range(a, min(LINES, a + rng.choice([1, 2, 5, LINES]))):
            t[i] = rng.choice([0, (cur + 5) % 256])
        return t
    if shape == 4:   # alternating
        return [cur if i % 2 == 0 else rng.choice([0, un, 7]) for i in range(LINES)]
    if shape == 5:   # all but one marked (Reusable{127} / Unmarked boundary)
        t = [cur] * LINES
        t[rng.choice([0, LINES - 1, rng.randrange(LINES)])] = rng.choice([0, un, cur ^ 1])
        return t
    t = []
    while len(t) < LINES:
        v = rng.choice(alphabet)
        t += [v] * rng.choice([1, 1, 2, 3, 8, 20, 64])
    return t[:LINES]


def pick_state(rng):
    return rng.choice([1, 2, 3, 64, MAXS - 3, MAXS - 2, MAXS - 1, MAXS, MAXS + 1, 200, 255, 0, rng.randrange(256)])


class ImmixUnit(U.UnitSpec):
    pid = "C34"
    modules = ["MmtkModel.Props.C34"]
    theorems = THEOREMS
    component = "immix"
    relation = "Mmtk.Immix.{holeSearch, sweepBlock, markLines∘objLines, BlockState.ofByte/toByte} ≙ ImmixSpace::get_next_available_lines, Block::sweep, Line::mark_lines_for_object, From<u8>/From<BlockState>"
    release_in_thorough = True
    rule = ("unit: every byte / every (kind, n) for the block-state conversions; structured line tables (all marked, none, one hole at a "
            "block boundary, alternating, all-but-one, random runs over {0, cur, unavail, cur±1, MAX, MAX-1, random}) x states around 1, "
            "MAX-2..MAX+1, 255 x every kind of start line; malformed stream (bad hex, wrong length, out-of-range line/state); "
            "non-trivial = a hole / a partially marked block / a multi-line object. GC runs: see `gc_rule`")

    def pre(self, debug):
        return [f"cfg debug {1 if debug else 0}"]

    def corpus(self, debug):
        cs = [Case(["immix consts"])]
        cs += [Case([f"immix bstate {b}"]) for b in range(256)]
        cs += [Case([f"immix tobyte {k} {n}"]) for k in range(4) for n in (range(256) if k == 3 else [0, 1, 255])]
        z = [0] * LINES
        cs += [Case([f"immix holes 1 1 {LINES - 1} {hexs(z)}"]), Case([f"immix holes 1 1 0 {hexs([1] * LINES)}"]),
               Case([f"immix holes 2 1 0 {hexs([1] * 64 + [0] * 64)}"]), Case([f"immix holes 2 1 0 {hexs([2] * 64 + [0] * 63 + [1])}"]),
               Case([f"immix sweep {MAXS} {hexs([MAXS, 5, MAXS - 1, MAXS] + z[4:])}"]),
               Case([f"immix sweep {MAXS - 2} {hexs([MAXS - 2, 5, MAXS - 1, MAXS] + z[4:])}"]),
               Case([f"immix sweep {MAXS - 1} {hexs([MAXS - 2] * LINES)}"]),
               Case([f"immix sweep 9 {hexs([9] * LINES)}"]), Case([f"immix sweep 9 {hexs([9] * (LINES - 1) + [0])}"]),
               Case([f"immix marklines 5 248 32 {hexs(z)}"]), Case([f"immix marklines 5 256 256 {hexs(z)}"]),
               Case([f"immix marklines 5 0 {1 << BLOCK_LOG} {hexs(z)}"]), Case([f"immix marklines 5 {(1 << BLOCK_LOG) - 32} 32 {hexs(z)}"])]
        # malformed stream
        cs += [Case([l]) for l in ["immix holes 1 1 0 zz", "immix holes 1 1 0 00", f"immix holes 1 1 {LINES} {hexs(z)}",
                                   f"immix holes 256 1 0 {hexs(z)}", f"immix sweep 300 {hexs(z)}", "immix sweep 1 0", "immix bstate 256",
                                   "immix tobyte 4 1", f"immix marklines 1 4 32 {hexs(z)}", f"immix marklines 1 0 24 {hexs(z)}",
                                   f"immix marklines 1 {(1 << BLOCK_LOG) - 8} 32 {hexs(z)}", "immix nosuchop", f"immix holes 1 1 0 {hexs(z)}0"]]
        return cs

    def gen(self, rng, tier, debug):
        n = 2500 if tier == "quick" else 60000
        cases = []
        for _ in range(n):
            cur = pick_state(rng)
            un = cur if rng.random() < 0.4 else rng.choice([(cur - 1) % 256, pick_state(rng)])
            t = gen_table(rng, cur, un)
            r = rng.random()
            if r < 0.45:
                starts = [0, LINES - 1, rng.randrange(LINES)] + [i for i in range(1, LINES) if (t[i] in (cur, un)) != (t[i - 1] in (cur, un))][:6]
                cases.append(Case([f"immix holes {cur} {un} {rng.choice(starts)} {hexs(t)}"]))
            elif r < 0.8:
                cases.append(Case([f"immix sweep {cur} {hexs(t)}"]))
            else:
                size = rng.choice([32, 40, 248, 256, 264, 512, 1024, 8 * rng.randrange(4, 2048)])
                off = rng.choice([0, 8, 248, 256, 8 * rng.randrange(0, ((1 << BLOCK_LOG) - size) // 8 + 1), (1 << BLOCK_LOG) - size])
                cases.append(Case([f"immix marklines {cur} {off} {size} {hexs(t)}"]))
        return cases

    def oracle(self, case, impl_out):
        t = case.ops[0].split()
        out = impl_out[0] if impl_out else "crash"
        bad = []
        if out.startswith("bad-op") or len(t) < 2:
            return bad
        if out.startswith("panic") or out.startswith("crash"):
            return [(f"{t[1]}:panic", f"`{case.ops[0][:80]}` -> {out[:120]} (the real function panicked on a well-formed input)")]
        op = t[1]
        try:
            if op == "bstate":
                b = int(t[2]); kind, n, back, reu = out.split()
                if int(back) != b:
                    bad.append(("bstate:byte-roundtrip", f"u8::from(BlockState::from({b})) = {back}"))
                exp = {0: "unallocated", 255: "unmarked", 254: "marked"}.get(b, "reusable")
                if kind != exp or (kind == "reusable" and int(n) != b) or (reu == "true") != (exp == "reusable"):
                    bad.append(("bstate:decode", f"BlockState::from({b}) = {kind} {n} reusable={reu}"))
            elif op == "tobyte":
                k, n = int(t[2]), int(t[3]); byte, kind, n2 = out.split()
                if k == 3 and 1 <= n <= 253 and (kind != "reusable" or int(n2) != n or int(byte) != n):
                    bad.append(("bstate:state-roundtrip", f"Reusable{{{n}}} -> byte {byte} -> {kind} {n2}"))
                if k < 3 and kind != ["unallocated", "unmarked", "marked"][k]:
                    bad.append(("bstate:state-roundtrip", f"kind {k} -> byte {byte} -> {kind}"))
            elif op == "holes":
                cur, un, start = int(t[2]), int(t[3]), int(t[4]); m = list(bytes.fromhex(t[5]))
                una = lambda x: x == cur or x == un
                if out == "none":
                    if not all(una(x) for x in m[start:]):
                        bad.append(("holes:missed-hole", f"None although line {next(i for i in range(start, LINES) if not una(m[i]))} is available (cur={cur} unavail={un} start={start})"))
                else:
                    s, e = map(int, out.split("-"))
                    if not (start <= s < e <= LINES):
                        bad.append(("holes:range", f"returned {out} for start {start}"))
                    elif any(una(x) for x in m[s:e]):
                        bad.append(("holes:returns-unavailable-line", f"hole {out} contains line {next(i for i in range(s, e) if una(m[i]))} with mark {m[next(i for i in range(s, e) if una(m[i]))]} (cur={cur} unavail={un})"))
                    elif not all(una(x) for x in m[start:s]) or (e < LINES and not una(m[e])):
                        bad.append(("holes:not-first-maximal", f"hole {out} from start {start} is not the first maximal run of available lines"))
            elif op == "sweep":
                cur = int(t[2]); m = list(bytes.fromhex(t[3])); res, sb, hx, dfb = out.split(); m2 = list(bytes.fromhex(hx))
                cnt = sum(1 for x in m if x == cur)
                for i, (a, b) in enumerate(zip(m, m2)):
                    if a == cur and b != cur:
                        bad.append(("sweep:clears-marked-line", f"line {i} carried the current state {cur} and is {b} after sweep")); break
                    if a != cur and b == cur:
                        bad.append(("sweep:marks-line", f"line {i} was {a} and carries the current state after sweep")); break
                    if a != cur and b != (0 if cur > MAXS - 2 else a):
                        bad.append(("sweep:stale-reset", f"unmarked line {i} was {a}, is {b} after the sweep with state {cur} (reset expected iff state > {MAXS - 2})")); break
                exp = ("swept", 0) if cnt == 0 else (("noreuse", 255) if cnt == LINES else ("reused", cnt))
                if (res, int(sb)) != exp:
                    bad.append(("sweep:block-state", f"{cnt} marked lines: result {res} state byte {sb}, expected {exp}"))
            elif op == "marklines":
                cur, off, size = int(t[2]), int(t[3]), int(t[4]); m = list(bytes.fromhex(t[5])); n, hx = out.split(); m2 = list(bytes.fromhex(hx))
                lo, hi = off >> LINE_LOG, (off + size + (1 << LINE_LOG) - 1) >> LINE_LOG
                for i in range(LINES):
                    want = cur if lo <= i < hi else m[i]
                    if m2[i] != want:
                        bad.append(("marklines:extent", f"object [{off},{off + size}) spans lines [{lo},{hi}); line {i} is {m2[i]} after marking with {cur} (was {m[i]})")); break
        except Exception as ex:   # unparsable output
            bad.append(("unit:unparsable", f"{case.ops[0][:60]} -> {out[:80]} ({ex})"))
        return bad

    def nontrivial(self, case, out):
        if not out:
            return False
        t = case.ops[0].split()
        if t[1] == "holes":
            return out[0] not in ("none", "bad-op")
        if t[1] == "sweep":
            return out[0].startswith("reused")
        if t[1] == "marklines":
            return not out[0].startswith("bad") and (int(t[3]) + int(t[4]) - 1) >> LINE_LOG != int(t[3]) >> LINE_LOG
        return not out[0].startswith("bad")

    def summarize(self, cases, outs):
        h, k = {}, {}
        for c, o in zip(cases, outs):
            op = c.ops[0].split()[1]
            h[op] = h.get(op, 0) + 1
            r = (o[0].split()[0] if o else "crash")
            r = "hole" if "-" in r and op == "holes" else r
            if op in ("holes", "sweep"):
                k[f"{op}:{r}"] = k.get(f"{op}:{r}", 0) + 1
        return {"unit_op": h, "unit_outcome": k}


# ------------------------------------------------------------------------------------------------
# GC runs
# ------------------------------------------------------------------------------------------------

class Proc:
    """interactive hx_gc process: one answer line per input line."""

    def __init__(self, exe):
        self.p = subprocess.Popen([exe], stdin=subprocess.PIPE, stdout=subprocess.PIPE, stderr=subprocess.DEVNULL, text=True, bufsize=1 << 16)
        self.log = []

    def ask(self, lines):
        self.p.stdin.write("\n".join(lines) + "\n")
        self.p.stdin.flush()
        outs = []
        for l in lines:
            o = self.p.stdout.readline()
            if not o:
                raise EOFError(l)
            o = o.rstrip("\n")
            if o.startswith("fatal") or o.startswith("timeout"):
                self.log.append((l, o))
                raise EOFError(o)
            outs.append(o)
            self.log.append((l, o[:200]))
        return outs

    def close(self):
        try:
            self.p.stdin.close()
        except Exception:
            pass
        try:
            return self.p.wait(timeout=20)
        except Exception:
            self.p.kill()
            return -9


def parse_immix(line):
    """`immix space=.. cur=.. unavail=.. blocks=a:s:hex;… space=…` -> {name: (cur, unavail, {start: (state, marks)})}"""
    res = {}
    toks = line.split(" ")[1:]
    i = 0
    while i + 3 < len(toks) + 0 and i < len(toks):
        name = toks[i].split("=", 1)[1]; cur = int(toks[i + 1].split("=")[1]); un = int(toks[i + 2].split("=")[1])
        bl = toks[i + 3].split("=", 1)[1]
        blocks = {}
        for b in bl.split(";"):
            if b:
                a, s, hx = b.split(":")
                blocks[int(a, 16)] = (int(s), list(bytes.fromhex(hx)))
        res[name] = (cur, un, blocks)
        i += 4
    return res


def parse_snap(line, refoff):
    objs, corrupt = [], None
    body = E.canon(line)
    if " # dup-ids" in line:
        corrupt = "dup-ids"
    k = body.find("objs=")
    if k < 0:
        return objs, "no-objs"
    for o in body[k + 5:].split(";"):
        if not o:
            continue
        f = o.split(":")
        if len(f) < 6:
            corrupt = corrupt or f"bad-obj {o[:40]}"
            continue
        ref, size, letter, hashok = int(f[1], 16), int(f[2]), f[3], f[4]
        if hashok != "1" or "!" in f[5]:
            corrupt = corrupt or f"object {f[0]} hashok={hashok} fields={f[5][:40]}"
        objs.append((ref - refoff, size, letter, int(f[0])))
    if "!" in body[:k]:
        corrupt = corrupt or "root points to a non-object"
    return objs, corrupt


def gen_program(plan, seed, gcs, heap, workers, opts, nursery_ratio, nonmoving):
    """A program = header + rounds; a round = mutator ops followed by one user GC."""
    rng = random.Random(seed)
    head = [f"cfg plan {plan}", f"cfg heap {heap}", f"cfg workers {workers}", "cfg watchdog 100"] + [f"cfg opt {k} {v}" for k, v in opts] + ["init", "bind 0", "bind 1"]
    rounds, nid = [], 0
    slots = list(range(48))
    live_lists = {}     # slot -> last id of a chain rooted there
    for g in range(gcs):
        ops = []
        burst = rng.choice([3, 8, 8, 20, 40]) if g % 7 else rng.choice([60, 120])
        for _ in range(burst):
            nid += 1
            r = rng.random()
            if r < 0.55:
                payload = rng.choice([0, 8, 24, 100, 180])
            elif r < 0.85:
                payload = rng.choice([220, 232, 300, 500, 1000, 2000])     # around one line / a few lines
            elif r < 0.97:
                payload = rng.choice([4000, 8000, 12000, 16000])
            else:
                payload = rng.choice([20000, 40000])
            nf = rng.choice([0, 1, 2, 3])
            size = max(32, (8 + 24 + 8 * nf + payload + 7) // 8 * 8)
            sem = "Los" if size > 16384 else ("NonMoving" if nonmoving and rng.random() < 0.08 else "Default")
            m = rng.choice([0, 0, 0, 1])
            act = rng.random()
            if act < 0.35:       # garbage: scratch slot, overwritten by the next one
                ops.append(f"alloc {m} {nid} {nf} {payload} 8 0 {sem} 63")
            elif act < 0.7 or nf == 0:      # rooted, replacing whatever the slot held
                s = rng.choice(slots)
                ops.append(f"alloc 0 {nid} {nf} {payload} 8 0 {sem} {s}")
                live_lists[s] = (nid, nf)
            else:                # prepend to the chain rooted in a slot
                s = rng.choice(slots)
                old = live_lists.get(s)
                ops.append(f"alloc 0 {nid} {nf} {payload} 8 0 {sem} 62")
                if old and nf > 0:
                    ops.append(f"write 0 {nid} 0 {old[0]}")
                ops.append(f"root 0 {s} {nid}")
                live_lists[s] = (nid, nf)
        if rng.random() < 0.3:   # drop a few roots: fragmentation
            for s in rng.sample(slots, rng.choice([1, 4, 12])):
                ops.append(f"root 0 {s} null"); live_lists.pop(s, None)
        if g % 50 == 49:
            for s in slots:
                ops.append(f"root 0 {s} null")
            live_lists.clear()
        ops += ["root 0 63 null", "root 1 63 null", "root 0 62 null"]
        ex = 0 if rng.random() < nursery_ratio else 1
        rounds.append((ops, f"gc 0 {ex}"))
    return {"plan": plan, "seed": seed, "head": head, "rounds": rounds, "heap": heap, "workers": workers, "opts": opts}


def hole_queries(rng, post):
    """(block, line) queries: every start line of one reusable block per space, boundary lines of up to 3 more."""
    qs = []
    for name, (cur, un, blocks) in post.items():
        reus = [a for a, (s, m) in sorted(blocks.items()) if s not in (0, 254, 255)]
        if not reus:
            continue
        full = rng.choice(reus)
        qs += [(full, l) for l in range(LINES)]
        for a in rng.sample(reus, min(3, len(reus))):
            if a == full:
                continue
            m = blocks[a][1]
            ls = {0, LINES - 1} | {i for i in range(1, LINES) if (m[i] == cur) != (m[i - 1] == cur)} | {i - 1 for i in range(1, LINES) if (m[i] == cur) != (m[i - 1] == cur)}
            qs += [(a, l) for l in sorted(ls)]
    return qs


def run_program(exe, prog, upto=None):
    """Runs the program; returns dict(records=[...], error=None|str, log_tail=[...])."""
    rng = random.Random(prog["seed"] ^ 0x5eed)
    pr = Proc(exe)
    recs, err = [], None
    try:
        outs = pr.ask(prog["head"] + ["constraints", "spaces"])
        bad = [o for o in outs[:-2] if o != "ok"]
        if bad:
            raise EOFError(f"setup rejected: {bad[:2]}")
        cons = dict(kv.split("=") for kv in outs[-2].split()[1:])
        refoff = int(cons["refoff"])
        spaces = {}
        for s in outs[-1].split(" ", 1)[1].split(","):
            f = s.split(":")
            spaces[f[0]] = (int(f[1], 16), int(f[2], 16))
        for gi, (ops, gc) in enumerate(prog["rounds"]):
            if upto is not None and gi > upto:
                break
            o = pr.ask(ops)
            for l, x in zip(ops, o):
                if x.startswith("panic") or x.startswith("err") or x.startswith("bad-op"):
                    raise EOFError(f"op `{l}` answered `{x[:160]}`")
            pre, g, post, snap = pr.ask(["immix", gc, "immix", "snap"])
            if not g.startswith("ok"):
                raise EOFError(f"`{gc}` answered `{g[:160]}`")
            pre, post = parse_immix(pre), parse_immix(post)
            objs, corrupt = parse_snap(snap, refoff)
            qs = hole_queries(rng, post)
            ans = pr.ask([f"holes {a:#x} {l}" for a, l in qs]) if qs else []
            recs.append({"gi": gi, "gc": gc, "pre": pre, "post": post, "objs": objs, "corrupt": corrupt,
                         "holes": [(a, l, E.canon(x)) for (a, l), x in zip(qs, ans)], "spaces": spaces})
        pr.ask(["quit"])
    except EOFError as ex:
        err = str(ex)
    rc = pr.close()
    if err is None and rc not in (0,):
        err = f"exit code {rc}"
    return {"records": recs, "error": err, "rc": rc, "log_tail": pr.log[-6:]}


def modes_for(plan, rec):
    """per-space monitor mode, from what the real collector did to the mark state."""
    ms = {}
    for name, (cur, un, blocks) in rec["post"].items():
        p = rec["pre"].get(name)
        if p is None or plan == "ConcurrentImmix" and (p[0] != p[1]):
            ms[name] = "safe"
        elif cur != p[0]:
            ms[name] = "major"
        elif plan == "GenImmix" and name != "nonmoving":
            ms[name] = "nursery-nosweep"      # GenImmix nursery GC: ImmixSpace::prepare/release are not called
        else:
            ms[name] = "nursery-sweep"
    return ms


def monitor_script(plan, rec):
    ls = []
    for tag in ("pre", "post"):
        ls.append(f"immixm dump {tag}")
        for name, (cur, un, blocks) in rec[tag].items():
            ls.append(f"immixm space {name} {cur} {un}")
            for a, (s, m) in sorted(blocks.items()):
                ls.append(f"immixm block {a:#x} {s} {hexs(m)}")
    for (start, size, letter, oid) in rec["objs"]:
        ls.append(f"immixm obj {start:#x} {size}")
    nfeed = len(ls)
    ls.append("immixm check " + " ".join(f"{n}={m}" for n, m in sorted(modes_for(plan, rec).items())))
    for a, l, _ in rec["holes"]:
        ls.append(f"immixm holes {a:#x} {l}")
    return ls, nfeed


def oracle_record(rec):
    """C34's statement evaluated in Python on what the implementation dumped (independent of Lean)."""
    bad = []
    if rec["corrupt"]:
        bad.append(("gc:heap-corrupt", f"snapshot after GC #{rec['gi']} is corrupt: {rec['corrupt']}"))
    for name, (cur, un, blocks) in rec["post"].items():
        if not (1 <= cur <= MAXS) or un != cur:
            bad.append(("gc:mark-state-range", f"space {name}: cur={cur} unavail={un} after a GC"))
        ext = rec["spaces"].get(name)
        live = {}
        for (start, size, letter, oid) in rec["objs"]:
            if ext and ext[0] <= start < ext[0] + ext[1]:
                b = start >> BLOCK_LOG << BLOCK_LOG
                if b not in blocks:
                    bad.append(("gc:live-object-in-unallocated-block", f"object {oid} at {start:#x} is reachable but its block {b:#x} of {name} is unallocated")); continue
                lo, hi = (start - b) >> LINE_LOG, (start - b + size + (1 << LINE_LOG) - 1) >> LINE_LOG
                m = blocks[b][1]
                for l in range(lo, min(hi, LINES)):
                    live.setdefault(b, set()).add(l)
                    if m[l] != cur:
                        bad.append(("gc:live-line-unmarked", f"{name}: object {oid} [{start:#x}+{size}) is reachable after GC #{rec['gi']} but line {l} of block {b:#x} carries {m[l]}, not the current state {cur}")); break
        for a, (s, m) in blocks.items():
            st = {0: "U", 255: "unmarked", 254: "marked"}.get(s, "reusable")
            cnt = sum(1 for x in m if x == cur)
            if st == "reusable" and not (1 <= s <= 253 and s < LINES):
                bad.append(("gc:bstate-range", f"block {a:#x} state byte {s}"))
        for a, l, ans in rec["holes"]:
            if a not in blocks:
                continue
            m = blocks[a][1]
            if ans == "none":
                if any(x != cur and x != un for x in m[l:]):
                    bad.append(("gc:holes-missed", f"{name} block {a:#x} from line {l}: None but an available line exists"))
            elif "-" in ans:
                s_, e_ = map(int, ans.split("-"))
                if not (l <= s_ < e_ <= LINES) or any(x == cur or x == un for x in m[s_:e_]):
                    bad.append(("gc:hole-returns-marked-line", f"{name} block {a:#x} from line {l}: hole {ans} contains a line marked cur/unavail ({cur}/{un})"))
                hit = [x for x in range(s_, e_) if x in live.get(a, ())]
                if hit:
                    bad.append(("gc:hole-hits-live-object", f"{name} block {a:#x} from line {l}: hole {ans} contains line {hit[0]} which holds a reachable object"))
            else:
                bad.append(("gc:holes-answer", f"holes {a:#x} {l} -> {ans}"))
    return bad


def check_program(exe, prog):
    t0 = time.time()
    r = run_program(exe, prog)
    viol, stats = [], {"gcs": len(r["records"]), "holes": 0, "reusable": 0, "objs": 0, "modes": {}, "curs": set(), "nontrivial": 0}
    script, spans = ["immixm reset"], []
    for rec in r["records"]:
        ls, nfeed = monitor_script(prog["plan"], rec)
        spans.append((len(script), nfeed, len(ls)))
        script += ls
        for k, w in oracle_record(rec):
            viol.append((k, w, rec["gi"]))
        stats["holes"] += len(rec["holes"])
        nre = sum(1 for (_, _, bl) in rec["post"].values() for (s, _) in bl.values() if s not in (0, 254, 255))
        stats["reusable"] += nre
        stats["objs"] += len(rec["objs"])
        for n, m in modes_for(prog["plan"], rec).items():
            stats["modes"][m] = stats["modes"].get(m, 0) + 1
        for (cur, _, _) in rec["post"].values():
            stats["curs"].add(cur)
        if nre and rec["objs"]:
            stats["nontrivial"] += 1
    mout, rc, err = E.run_lines(E.model_exe(), script, timeout=900)
    if rc != 0 or len(mout) != len(script):
        viol.append(("monitor:crash", f"mmtk_model immixm failed rc={rc} ({len(mout)}/{len(script)} lines) {err[-200:]}", -1))
    else:
        for rec, (a, nfeed, n) in zip(r["records"], spans):
            feed = mout[a:a + nfeed]
            if any(x != "ok" for x in feed):
                viol.append(("monitor:feed", f"monitor rejected a dump line: {[x for x in feed if x != 'ok'][:2]}", rec["gi"])); continue
            chk = mout[a + nfeed]
            if not chk.startswith("ok"):
                key = chk.split()[1] if len(chk.split()) > 1 else "?"
                viol.append((f"monitor:{key}", f"{prog['plan']} GC #{rec['gi']} ({rec['gc']}; modes {modes_for(prog['plan'], rec)}): {chk}", rec["gi"]))
            for (blk, l, ans), mo in zip(rec["holes"], mout[a + nfeed + 1:a + n]):
                if ans != mo:
                    viol.append(("correspondence:holes", f"{prog['plan']} GC #{rec['gi']}: holes {blk:#x} {l}: get_next_available_lines = {ans}, model holeSearch = {mo}", rec["gi"])); break
    if r["error"]:
        viol.append((f"gc:run-failed:{prog['plan']}", f"hx_gc did not complete the program (after {len(r['records'])} GCs): {r['error']} rc={r['rc']} tail={r['log_tail'][-3:]}", len(r["records"])))
    stats["wall"] = round(time.time() - t0, 1)
    return viol, stats


def programs(tier, seed):
    rng = random.Random(seed)
    ps = []
    wrap = 330 if tier == "quick" else 700
    short = 45 if tier == "quick" else 200
    def P(plan, gcs, heap, workers, opts, nr, nm=False):
        ps.append(gen_program(plan, rng.getrandbits(32), gcs, heap, workers, opts, nr, nm))
    # the wrap programs: > 300 major collections each
    P("Immix", wrap, 3 << 20, 2, [], 0.0, True)
    P("StickyImmix", wrap + 90, 3 << 20, 2, [], 0.2)
    P("GenImmix", wrap, 8 << 20, 2, [("nursery", "Fixed:1048576")], 0.0)
    P("ConcurrentImmix", wrap, 3 << 20, 2, [], 0.0)     # no NonMoving here: see DEFECTS
    # shorter, differently configured ones
    P("Immix", short, 2 << 20, 4, [("immix_always_defrag", "true")], 0.0, True)
    P("Immix", short, 2 << 20, 1, [("immix_defrag_every_block", "true"), ("immix_always_defrag", "true")], 0.0)
    P("StickyImmix", short, 2 << 20, 4, [], 0.7)
    P("StickyImmix", short, 4 << 20, 1, [("immix_always_defrag", "true")], 0.5)
    P("GenImmix", short, 12 << 20, 3, [("nursery", "Fixed:2097152")], 0.6)
    P("GenImmix", short, 8 << 20, 1, [("nursery", "Fixed:1048576"), ("immix_always_defrag", "true")], 0.3)
    P("ConcurrentImmix", short, 2 << 20, 4, [], 0.0)
    P("ConcurrentImmix", short, 4 << 20, 1, [], 0.5)
    if tier != "quick":
        for plan in ["Immix", "StickyImmix", "GenImmix", "ConcurrentImmix"]:
            for k in range(6):
                P(plan, short, rng.choice([2, 3, 6, 12]) << 20 if plan != "GenImmix" else rng.choice([8, 12, 16]) << 20, rng.choice([1, 2, 4, 8]),
                  ([("nursery", "Fixed:1048576")] if plan == "GenImmix" else []) + ([("immix_always_defrag", "true")] if k % 2 else []), rng.choice([0, 0.3, 0.7]),
                  plan == "Immix")
    return ps


def defect_programs():
    """Genuine mmtk-core defects under C34, one dedicated program each, reported under a stable key."""
    head = ["cfg plan ConcurrentImmix", "cfg heap 4194304", "cfg workers 1", "cfg watchdog 60", "init", "bind 0"]
    return [("gc:conc-nonmoving-allocator-not-reset",
             "ConcurrentImmix never resets the NonMoving ImmixAllocator at a GC (concurrent_immix_mutator_release/prepare, "
             "src/plan/concurrent/immix/mutator.rs:25/:53, reset only the Default allocator and do not call common_release_func as "
             "plan/immix/mutator.rs:28 does): after a GC released the allocator's block, the stale bump pointer keeps handing out its lines",
             {"plan": "ConcurrentImmix", "seed": 1, "heap": 4194304, "workers": 1, "opts": [], "head": head,
              "rounds": [(["alloc 0 1 0 64 8 0 NonMoving 63", "root 0 63 null"], "gc 0 1"),
                         (["alloc 0 2 0 64 8 0 NonMoving 0"], "gc 0 1")]})]


GC_RULE = ("GC runs: per plan in {Immix, StickyImmix, GenImmix, ConcurrentImmix} one program of > 300 user-triggered collections on a 3-8 MB heap "
           "(mark state wraps 127 -> 1 at least twice) + differently configured shorter ones (1-4 workers, always-defrag, defrag-every-block, "
           "nursery/full mixes, NonMoving objects on Immix/ConcurrentImmix); allocation bursts of 3-120 objects of 32 B - 16 KB (+ LOS), rooted / chained / "
           "garbage, periodic root drops for fragmentation. An evaluation = one collection with both dumps, the snapshot and the hole queries "
           "(every start line of one reusable block per space + boundary lines of up to 3 more); non-trivial = at least one reusable block and one "
           "reachable object; distinct = distinct (plan, post-GC line tables).")


def main(argv=None):
    global LINES, MAXS, LINE_LOG, BLOCK_LOG
    ap = argparse.ArgumentParser()
    ap.add_argument("--tier", default=os.environ.get("VERIF_TIER", "quick"))
    ap.add_argument("--seed", type=int, default=int(os.environ.get("VERIF_SEED", "20260921")))
    ap.add_argument("--replay")
    a = ap.parse_args(argv)
    t0 = time.time()
    violations, stats = [], {}
    spec = ImmixUnit()
    lean0 = {"obligations": len(THEOREMS), "discharged": 0}
    # 0. harness (against the repo's working tree) and constants
    builds = {}
    exes = {}
    for b in ("hx_consts", "hx_gc"):
        exe, err, bs = E.cargo_build(b)
        builds[b] = bs
        if exe is None:
            violations.append(Violation("harness-build-failed", f"{b} no longer builds against the repo: {err[-1500:]}", found_input=False, broken="harness build"))
            return E.finish("C34", a.tier, a.seed, t0, lean0, {}, violations, level="proof of the model, partial w.r.t. the code")
        exes[b] = exe
    p = E.run([exes["hx_consts"], "immix"], timeout=120)
    consts = json.loads(p.stdout.strip().splitlines()[-1])
    regenerated = EC.emit(consts, os.path.join(E.LEAN_DIR, "MmtkModel", "Generated", "ImmixConsts.lean"))
    LINES, MAXS, LINE_LOG, BLOCK_LOG = consts["block_lines"], consts["max_mark_state"], consts["line_log_bytes"], consts["block_log_bytes"]
    if a.replay:
        return replay(a.replay, exes["hx_gc"], spec)
    # 1. Lean obligations
    lean = E.lean_check(spec.modules, THEOREMS, fresh=(a.tier == "thorough"))
    lean["targets"] = spec.modules
    # 2. unit differential
    U.run_profile(spec, a.tier, a.seed, True, lean["ok"], violations, stats)
    if a.tier == "thorough":
        U.run_profile(spec, a.tier, a.seed, False, lean["ok"], violations, stats)
    unit_evals = stats.get("evaluations", 0)
    # 3. GC runs
    progs = programs(a.tier, a.seed)
    with ThreadPoolExecutor(6) as ex:
        results = list(ex.map(lambda pg: check_program(exes["hx_gc"], pg), progs))
    gc_evals, distinct, ok_traces, seen_keys = 0, 0, 0, set()
    dist = {"gc_mode": {}, "per_plan_gcs": {}, "mark_states_seen": {}, "holes_queries": 0, "reusable_blocks": 0, "live_objects": 0}
    samples = []
    for pg, (viol, st) in zip(progs, results):
        gc_evals += st["gcs"]
        distinct += st["nontrivial"]
        ok_traces += 0 if viol else 1
        for m, n in st["modes"].items():
            dist["gc_mode"][m] = dist["gc_mode"].get(m, 0) + n
        dist["per_plan_gcs"][pg["plan"]] = dist["per_plan_gcs"].get(pg["plan"], 0) + st["gcs"]
        dist["mark_states_seen"][pg["plan"]] = max(dist["mark_states_seen"].get(pg["plan"], 0), len(st["curs"]))
        dist["holes_queries"] += st["holes"]; dist["reusable_blocks"] += st["reusable"]; dist["live_objects"] += st["objs"]
        if len(samples) < 3:
            samples.append({"plan": pg["plan"], "heap": pg["heap"], "workers": pg["workers"], "opts": pg["opts"], "gcs": st["gcs"],
                            "first_ops": pg["rounds"][0][0][:4], "wall_s": st["wall"]})
        for key, what, gi in viol:
            if key in seen_keys:
                continue
            seen_keys.add(key)
            spec_payload = {"program": {k: pg[k] for k in ("plan", "seed", "heap", "workers", "opts")}, "gcs": len(pg["rounds"]), "failing_gc": gi,
                            "tier": a.tier, "check_seed": a.seed, "index": progs.index(pg)}
            violations.append(Violation(key, what, spec_payload, None, None, found_input=not key.startswith("monitor:crash"),
                                        broken=("correspondence (Lean monitor ≠ implementation)" if key.startswith(("monitor:", "correspondence:")) else None)))
    for key, what, pg in defect_programs():
        viol, st = check_program(exes["hx_gc"], pg)
        gc_evals += st["gcs"]
        if viol:
            lines = pg["head"] + [l for ops, gc in pg["rounds"] for l in ops + ["immix", gc, "immix", "snap"]]
            violations.append(Violation(key, what + "; observed: " + viol[0][1], {"hx_gc_program": lines, "defect_index": 0, "tier": a.tier, "check_seed": a.seed},
                                        None, None, found_input=True))
    if not lean["ok"] and not any(v.found_input for v in violations):
        violations.append(Violation("proof-broken", f"Lean obligations no longer check: {lean['failures']}", None, None, None, False,
                                    broken=str([f.get('theorem') or f.get('module') or f['kind'] for f in lean['failures']])))
    udist = stats.get("distribution", {})
    udist.update(dist)
    corr = {
        "evaluations": unit_evals + gc_evals, "unit_cases": unit_evals, "gc_collections_checked": gc_evals,
        "distinct_nontrivial": len(stats.pop("_distinct", set())) + distinct,
        "rule": spec.rule, "gc_rule": GC_RULE,
        "samples": stats.get("samples", [])[:2] + samples,
        "traces_validated_against_impl": ok_traces, "programs": len(progs),
        "disagreements_checked": stats.get("disagreements", 0),
        "distribution": udist, "constants_regenerated": regenerated, "constants": consts,
        "harness_build_s": builds, "lean_s": lean.get("lean_s"),
    }
    return E.finish("C34", a.tier, a.seed, t0, lean, corr, violations, level="proof of the model, partial w.r.t. the code",
                    assumptions=["64-bit target; !BLOCK_ONLY (asserted from the regenerated constants)",
                                 "a block popped from the reusable pool is owned by one allocator until the next release (BlockPool: C19); allocators are reset at release",
                                 "objects are marked only in the lines they were allocated in (markObject hypothesis); objects never span blocks (MAX_IMMIX_OBJECT_SIZE = half a block)",
                                 "GC runs: user-triggered collections; reachable = live (no finalizers / weak references in the generated programs)"])


def replay(path, exe, spec):
    data = json.load(open(path))
    c = data["case"]
    if isinstance(c, list):
        return U.replay(spec, path)
    E.run(["lake", "build", "mmtk_model"], cwd=E.LEAN_DIR)
    if "defect_index" in c:
        pg = defect_programs()[c["defect_index"]][2]
    else:
        pg = programs(c.get("tier", "quick"), c.get("check_seed", 20260921))[c["index"]]
    viol, st = check_program(exe, pg)
    for k, w, gi in viol[:8]:
        print(f"  {k} (GC #{gi}): {w[:400]}")
    print(f"program: plan={pg['plan']} heap={pg['heap']} workers={pg['workers']} opts={pg['opts']} rounds={len(pg['rounds'])}")
    print("REPLAY:", "violation reproduced" if viol else "no longer reproduces")
    return 1 if viol else 0
