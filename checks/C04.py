"""C04 — non-moving, immortal and pinned objects never move; immortal ones never die."""
from checks import gcmon_common as C

THEOREMS = ["Mmtk.Heap.firstMoved_none_iff", "Mmtk.Heap.applyOp_sem_stable", "Mmtk.Heap.applyOp_pinned_stable",
            # the abstract algorithm (every schedule / every history), package algo
            "Mmtk.Trace.nonmoving_fixed", "Mmtk.Trace.nonmoving_slot_fixed", "Mmtk.Trace.pinned_fixed", "Mmtk.Trace.sem_fixed", "Mmtk.Trace.immortal_never_released", "Mmtk.Trace.immortal_later_alloc_disjoint", "Mmtk.Trace.nogc_never_released", "Mmtk.Trace.los_reachable_survive"]
META = {
    "text": "At every snapshot the monitor requires every object whose semantics is not Default, every pinned object, and every object of a plan that reports moves=0, to have the reference it had when last seen (allocation result or previous snapshot); dropped objects of immortal spaces (every object under NoGC) must still answer `is_mmtk_object` with their id after further exhaustive GCs (`ismo`, vo_bit builds). Proved: `firstMoved` answers none exactly when all such objects kept their reference (`firstMoved_none_iff`); no mutator op other than pin/unpin of that id changes an object's semantics or pinned flag (`applyOp_sem_stable`, `applyOp_pinned_stable`), so the monitor's `fixed` set is the program's. Real runs: the shared traces (programs `immortal`: pinned + non-moving objects among garbage, exhaustive and nursery GCs, then dropped and probed).",
    "note": "Level: proof of the verdict function, partial w.r.t. the code. Known F-G (pin on copying policies panics) is reported under gc:pin-panics by a dedicated corpus program; pin is only generated for Default objects of Immix / StickyImmix / ConcurrentImmix.",
    "technique": "Lean 4 proof + run-time verification of real GC runs by the proved monitor + independent oracle",
    "category": "proof",
}


def main(argv=None):
    return C.run_check("C04", argv, ["MmtkModel.Props.C04", "MmtkModel.Props.C04Algo"], THEOREMS, "common",
                       rule="one evaluation = one snapshot compared for fixed objects, or one `ismo` probe of a dropped immortal object; non-trivial = a snapshot after >= 1 pause with >= 2 objects",
                       assumptions=["feature sets without vo_bit skip the `ismo` probes (unsupported)"])
