"""C37 — Compressor forwarding addresses pack live objects in order."""
from vlib import unit
from vlib.engine import Case

BLOCK_W = 64            # words per 512-byte offset-vector block
REGION_W = 131072       # words per 1 MiB region


def wellformed(cb, objs):
    pos = 0
    for s, n in objs:
        if n < 2 or s < pos:
            return False
        pos = s + n
    return pos <= cb * BLOCK_W


def parse_run2(op):
    t = [int(x, 0) for x in op.split()[2:]]
    na = t[0]
    a = [(t[1 + 2 * i], t[2 + 2 * i]) for i in range(na)]
    cb, nb = t[1 + 2 * na], t[2 + 2 * na]
    b = [(t[3 + 2 * na + 2 * i], t[4 + 2 * na + 2 * i]) for i in range(nb)]
    return a, cb, b


def parse_case(op):
    if op.split()[1] != "run":
        raise ValueError("not a layout")
    t = [int(x, 0) for x in op.split()[2:]]
    cb, k = t[0], t[1]
    objs = [(t[2 + 2 * i], t[3 + 2 * i]) for i in range(k)]
    return cb, objs, t[2 + 2 * k:]


class Spec(unit.UnitSpec):
    pid = "C37"
    modules = ["MmtkModel.Props.C37"]
    theorems = ["Mmtk.Compressor.forward_eq_prefix_sum", "Mmtk.Compressor.forward_le_self",
                "Mmtk.Compressor.forward_nonoverlapping", "Mmtk.Compressor.forward_monotone",
                "Mmtk.Compressor.encode_decode", "Mmtk.Compressor.visit_norm", "Mmtk.Compressor.scan_objects",
                "Mmtk.Compressor.calcBlocks_getD"]
    component = "xducer"
    relation = ("Mmtk.Compressor.{visit, encode, decode, calculateOffsetVector, forward} ≙ policy::compressor::forwarding::"
                "{Transducer, ForwardingMetadata::{calculate_offset_vector, forward}} on the real COMPRESSOR_MARK / "
                "COMPRESSOR_OFFSET_VECTOR side metadata of a real 1 MiB region")
    assumptions = ["usize = 64 bit; words 8 bytes, blocks 512 bytes, regions 1 MiB (as compiled)",
                   "mark bits are set by the harness on the first and last word of each object (what test_and_mark / "
                   "mark_last_word_of_object do for a binding whose object reference is the object start — the Compressor "
                   "asserts such a 'unified object reference address model', which VerifVM does not have, so the plan itself "
                   "cannot be instantiated here; the two compressor side-metadata tables are mapped by an add-only hook)",
                   "region start and cursor are 512-byte aligned (cursor = allocation cursor rounded up by the page resource)",
                   "scan_non_zero_values is modelled as an ascending visit of marked words (its own correctness is C22's)"]
    rule = ("layouts of 0..60 objects in a real region, cursor 1..48 blocks (sometimes the full 2048): dense / sparse / "
            "block-edge aligned (objects ending or starting exactly at 512-byte edges) / multi-block objects (up to 20 blocks) "
            "/ one giant object; sizes boundary heavy (2, 3, 63, 64, 65, 127, 128, 129 words); every object start is "
            "forwarded, plus probes at interior words, last words, free words and block starts; malformed stream: 1-word "
            "objects, overlapping, unordered, duplicated, beyond the cursor; non-trivial = well-formed with an object that "
            "starts in a later block than an earlier live object; distinct = distinct (layout, output)")

    def layout(self, rng, cb):
        limit = cb * BLOCK_W
        style = rng.choice(["dense", "sparse", "edge", "multi", "mixed", "mixed"])
        objs, pos = [], 0
        nmax = rng.choice([1, 2, 3, 5, 10, 30, 60])
        while len(objs) < nmax:
            if style == "dense":
                gap = 0
            elif style == "sparse":
                gap = rng.choice([1, 5, 60, 64, 70, 130, rng.randrange(0, 300)])
            else:
                gap = rng.choice([0, 0, 1, 2, 7, rng.randrange(0, 80)])
            s = pos + gap
            if style == "edge" or (style == "mixed" and rng.random() < 0.3):
                # start or end exactly at a block edge
                if rng.random() < 0.5:
                    s = -(-s // BLOCK_W) * BLOCK_W
            n = rng.choice([2, 2, 3, 4, 8, 63, 64, 65, 127, 128, 129, rng.randrange(2, 40)])
            if style == "multi" or (style == "mixed" and rng.random() < 0.2):
                n = rng.choice([64, 100, 128, 192, 200, 64 * 5, 64 * 5 + 1, 64 * 20 - 1, rng.randrange(64, 64 * 20)])
            if style in ("edge", "mixed") and rng.random() < 0.4:
                e = -(-(s + n) // BLOCK_W) * BLOCK_W          # end exactly at a block edge
                n = e - s
            if n < 2 or s + n > limit:
                break
            objs.append((s, n))
            pos = s + n
        return objs

    def gen(self, rng, tier, debug):
        n = 1200 if tier == "quick" else 60000
        cases = []
        for i in range(n):
            cb = rng.choice([1, 2, 3, 4, 5, 8, 16, 32, 48, rng.randrange(1, 49)])
            if rng.random() < 0.02:
                cb = 2048
            objs = self.layout(rng, cb)
            r = rng.random()
            if r < 0.04 and cb >= 2:
                objs = [(rng.randrange(0, BLOCK_W), cb * BLOCK_W - BLOCK_W)]            # one giant object
            elif r < 0.16 and objs:
                # malformed stream
                k = rng.randrange(len(objs))
                s, m = objs[k]
                kind = rng.choice(["one-word", "overlap", "shuffle", "dup", "beyond"])
                if kind == "one-word":
                    objs[k] = (s, 1)
                elif kind == "overlap":
                    objs.insert(k + 1, (s + rng.randrange(0, m), rng.randrange(2, 20)))
                elif kind == "shuffle":
                    rng.shuffle(objs)
                elif kind == "dup":
                    objs.insert(k, objs[k])
                else:
                    objs.append((cb * BLOCK_W + rng.randrange(0, 10), rng.randrange(2, 10)))
                objs = [(s, m) for s, m in objs if s + m <= REGION_W]
            probes = []
            for s, m in objs[:20]:
                probes += [s + m - 1] + ([s + rng.randrange(1, m)] if m > 1 else [])
            probes += [rng.randrange(0, cb * BLOCK_W) for _ in range(4)] + [b * BLOCK_W for b in range(min(cb, 6))]
            probes = [p for p in probes if p < cb * BLOCK_W]
            flat = " ".join(f"{s} {m}" for s, m in objs)
            cases.append(Case([f"xducer run {cb} {len(objs)} {flat} {' '.join(map(str, probes))}".replace("  ", " ").strip()]))
        # two adjacent regions: A full (cursor = A.end), B calculated BEFORE A (added after seeded change C37: a
        # calculation that writes one entry beyond its cursor corrupts the neighbour's first block)
        for i in range(n // 20):
            a = self.layout(rng, 2048)
            if rng.random() < 0.7:       # make A really full: last object ends at the region end
                last_end = a[-1][0] + a[-1][1] if a else 0
                if REGION_W - last_end >= 2:
                    a.append((rng.choice([last_end, REGION_W - rng.choice([2, 3, 64, 65, 200])]), 0))
                    a[-1] = (max(a[-1][0], last_end), REGION_W - max(a[-1][0], last_end))
            cb = rng.choice([1, 2, 3, 8, rng.randrange(1, 49)])
            b = self.layout(rng, cb)
            if b and rng.random() < 0.7 and b[0][0] >= BLOCK_W:
                b = [(rng.randrange(0, 40), 2)] + b          # something in B's first block
            fa = " ".join(f"{s} {m}" for s, m in a)
            fb = " ".join(f"{s} {m}" for s, m in b)
            cases.append(Case([" ".join(f"xducer run2 {len(a)} {fa} {cb} {len(b)} {fb}".split())]))
        cases += [Case(["xducer run 3"]), Case(["xducer walk 1 0"]), Case(["xducer run 4097 0"]), Case(["xducer run 2 1 0 0"]),
                  Case(["xducer run 2 1 131071 2"])]
        return cases

    def corpus(self, debug):
        return [Case(["xducer run 5 4 2 4 62 130 192 2 255 3 0 2 3 5 62 70 191 192 193 255 257 300"]),
                Case(["xducer run 2 1 0 2"]), Case(["xducer run 1 0"]),
                Case(["xducer run 4 3 0 64 64 64 128 128 63 64 127 128 255"]),          # block-edge to block-edge
                Case(["xducer run 2048 2 0 2 131070 2 131070 131071 5"]),
                Case(["xducer run 3 2 10 1 20 5 10 11 20 24 25"]),
                Case(["xducer run2 2 0 8 131064 8 2 3 4 4 20 2 70 6"]), Case(["xducer run2 0 1 1 0 2"])]

    # -- the property's own statement ---------------------------------------------------------------
    def oracle(self, case, impl_out):
        out = impl_out[0] if impl_out else "crash"
        if case.ops[0].split()[1:2] == ["run2"]:
            return self.oracle2(case, out)
        try:
            cb, objs, probes = parse_case(case.ops[0])
        except Exception:
            return []
        if not wellformed(cb, objs) or cb * BLOCK_W > REGION_W:
            return []
        try:
            f = dict(kv.split("=", 1) for kv in out.split())
            fwd = [] if f["fwd"] == "-" else [int(x) for x in f["fwd"].split(",")]
            assert len(fwd) == len(objs)
        except Exception:
            return [("xducer:garbage", f"well-formed layout → {out[:100]!r}")]
        bad, live = [], 0
        for i, ((s, n), got) in enumerate(zip(objs, fwd)):
            if got != live:
                bad.append(("xducer:forward-not-prefix-sum",
                            f"object {i} at word {s} ({n} words): forward = region+{got}, live bytes before it = {live} "
                            f"(layout {objs[:8]}{'…' if len(objs) > 8 else ''}, cursor {cb} blocks)"))
                break
            if got > 8 * s:
                bad.append(("xducer:forward-above-self", f"object {i} moved up: {8*s} → {got}"))
            live += 8 * n
        return bad

    def oracle2(self, case, out):
        try:
            a, cb, b = parse_run2(case.ops[0])
        except Exception:
            return []
        if not wellformed(2048, a) or not wellformed(cb, b) or cb * BLOCK_W > REGION_W:
            return []
        try:
            f = dict(kv.split("=", 1) for kv in out.split())
            got = {k: [] if f[k] == "-" else [x for x in f[k].split(",")] for k in ("fwdA", "fwdB")}
            assert len(got["fwdA"]) == len(a) and len(got["fwdB"]) == len(b)
        except Exception:
            return [("xducer:garbage", f"well-formed two-region layout → {out[:100]!r}")]
        bad = []
        for name, objs in (("A", a), ("B", b)):
            live = 0
            for i, ((s, n), g) in enumerate(zip(objs, got["fwd" + name])):
                if g != str(live):
                    bad.append(("xducer:forward-not-prefix-sum:adjacent-regions",
                                f"region {name} (A full, B = next region, B calculated before A): object {i} at word {s} "
                                f"({n} words): forward = region+{g}, live bytes before it in its region = {live}"))
                    break
                live += 8 * n
        return bad

    def nontrivial(self, case, out):
        if case.ops[0].split()[1:2] == ["run2"]:
            return True
        try:
            cb, objs, _ = parse_case(case.ops[0])
        except Exception:
            return False
        return wellformed(cb, objs) and len(objs) >= 2 and objs[-1][0] // BLOCK_W > objs[0][0] // BLOCK_W

    def summarize(self, cases, outs):
        h = {"well-formed": 0, "malformed": 0, "unparsable": 0}
        nobj, feat = {}, {"object spans ≥2 blocks": 0, "object spans ≥4 blocks": 0, "object ends at block edge": 0,
                          "object starts at block edge": 0, "full region cursor": 0, "empty layout": 0}
        for c in cases:
            try:
                cb, objs, _ = parse_case(c.ops[0])
            except Exception:
                h["unparsable"] += 1
                continue
            h["well-formed" if wellformed(cb, objs) else "malformed"] += 1
            k = len(objs)
            b = "0" if k == 0 else "1" if k == 1 else "2-5" if k <= 5 else "6-20" if k <= 20 else "21+"
            nobj[b] = nobj.get(b, 0) + 1
            feat["empty layout"] += k == 0
            feat["full region cursor"] += cb == 2048
            feat["object spans ≥2 blocks"] += any((s + n - 1) // BLOCK_W > s // BLOCK_W for s, n in objs)
            feat["object spans ≥4 blocks"] += any((s + n - 1) // BLOCK_W >= s // BLOCK_W + 3 for s, n in objs)
            feat["object ends at block edge"] += any((s + n) % BLOCK_W == 0 for s, n in objs)
            feat["object starts at block edge"] += any(s % BLOCK_W == 0 for s, n in objs)
        return {"layout": h, "objects": nobj, "cases_with": feat}


META = {
    "text": ("Lean theorem forward_eq_prefix_sum for ANY layout of word-aligned non-overlapping ≥2-word objects in a region "
             "(objects spanning any number of 512-byte blocks, ending/starting exactly at block edges): forward(start) = "
             "region start + Σ sizes of earlier objects; corollaries order-preserving, non-overlapping, ≤ self, in region; "
             "encode/decode parity trick proved equivalent to carrying the state. Exact differential on real mark bits and "
             "the real offset vector of a real region."),
    "note": ("Trusted: Lean kernel + standard axioms; hand-transcribed model (bitmap scan = ascending visit of marked "
             "words); the Compressor plan itself is not instantiated (VerifVM lacks the unified object-reference model it "
             "asserts); mark bits set by the harness."),
    "technique": "Lean 4 proof (range-split + re-basing lemma + induction over the object list) + exact differential",
}


def main(argv=None):
    return unit.main(Spec(), argv)
