"""C02 — new allocations never overlap live objects (interval monitor on real GC runs)."""
from checks import gcmon_common as C

THEOREMS = ["Mmtk.Heap.firstOverlap_none_iff", "Mmtk.Heap.noOverlap_sound", "Mmtk.Heap.pairwise_insert",
            "Mmtk.Heap.allocClash_sound", "Mmtk.Heap.adjacentOk_sorted_pairwise",
            # the abstract algorithm (every schedule / every history), package algo
            "Mmtk.AllocModel.inv_step", "Mmtk.AllocModel.alloc_disjoint_since_gc", "Mmtk.AllocModel.alloc_avoids_live", "Mmtk.AllocModel.free_avoids_live", "Mmtk.AllocModel.bump_guard", "Mmtk.AllocModel.refill_guard", "Mmtk.AllocModel.nextHole_spec", "Mmtk.AllocModel.immix_alloc_avoids_live", "Mmtk.AllocModel.immix_release_guard", "Mmtk.AllocModel.cell_guard", "Mmtk.AllocModel.cell_seq", "Mmtk.AllocModel.los_guard", "Mmtk.AllocModel.write_guard", "Mmtk.AllocModel.setRoot_guard", "Mmtk.AllocModel.publish_guard", "Mmtk.AllocModel.sweep_guard", "Mmtk.AllocModel.fromspace_release_guard"]
META = {
    "text": "The monitor keeps the interval set {objects of the last snapshot} + {allocations since the last pause}; at every `alloc` result [a, a+sz) must not intersect any allocation since the pause, nor any snapshot object still reachable in the shadow heap (reach computed lazily); at every snapshot all real objects must be pairwise disjoint. Proved: the linear scan is exact (`firstOverlap_none_iff`), the sort-and-compare-neighbours check implies pairwise disjointness of the whole list (`noOverlap_sound`), checked insertion keeps a pairwise-disjoint set (`pairwise_insert`), and an accepted allocation is disjoint from every fresh interval and from every snapshot interval whose object is Reachable (`allocClash_sound`, through reach_iff). Real runs: as C01 (same cached traces), biased to small heaps and memory reuse right after GCs.",
    "note": "Level: proof of the monitor's model, partial w.r.t. the code (allocators are sampled, not modelled). NEW defect gc:concimmix-nonmoving-not-reset (ConcurrentImmix never resets the NonMoving Immix allocator) is reported by a dedicated corpus program; NonMoving is kept out of ConcurrentImmix's random stream.",
    "technique": "Lean 4 proof (interval-set lemmas) + run-time verification of real GC runs by the proved monitor + independent oracle",
    "category": "proof",
}


def main(argv=None):
    return C.run_check("C02", argv, ["MmtkModel.Props.C02", "MmtkModel.Props.C02Algo"], THEOREMS, "common",
                       rule="one evaluation = one successful `alloc` checked against the interval set; non-trivial = an allocation made after >= 1 pause (memory may be recycled); distinct by (plan, workers, address)",
                       assumptions=["a pause is visible as a change of `gcs=` in some result line before memory is reused (hx_gc prints gcs in every alloc result)",
                                    "objects not reachable at the last snapshot and not allocated since the last pause are not tracked (weaker, never unsound)"])
