"""C32 — space descriptors encode and decode their heap range."""
from vlib import unit
from vlib.engine import Case
from checks import layoutlib

W = 1 << 64
CH = 1 << 22
HEAP_END = {"32": 0xd000_0000, "64": 0x2200_0000_0000}
LOG_EXT = 41


def admissible(start, chunks):
    """The encoding's limits (Lean: `Mmtk.Desc.Admissible`)."""
    return 0 < start and start % CH == 0 and start % (1 << 50) != 0 and 1 <= chunks < 1024 and start + chunks * CH < W


def rand_start(rng, he):
    r = rng.random()
    if r < 0.25:     # odd multiple of 2^k: every exponent 0..45
        k = rng.randrange(18, 64)
        m = rng.getrandbits(rng.choice([1, 2, 5, 14, 15, 30, 46])) | 1
        return (m << k) % W
    if r < 0.45:     # around the exponent-field boundary 2^49 / 2^50 and the word end
        b = rng.choice([1 << 49, 1 << 50, 3 << 49, 1 << 51, 5 << 50, (1 << 50) + CH, (1 << 50) - CH, W - (1 << 50), W - (1 << 32)])
        return (b + rng.choice([0, 0, CH, -CH, 1 << 30])) % W
    if r < 0.7:      # inside / next to the heap of the layout
        return (he - rng.randrange(0, 2048) * CH) % W
    if r < 0.9:
        return (rng.randrange(1, 1 << 25) * CH)
    return rng.getrandbits(64) & ~(CH - 1)


class Spec(unit.UnitSpec):
    pid = "C32"
    modules = ["MmtkModel.Props.C32"]
    theorems = ["Mmtk.Desc.descriptor_roundtrip", "Mmtk.Desc.descriptor_roundtrip_layout",
                "Mmtk.Desc.descriptor64_roundtrip", "Mmtk.Desc.discontig_distinct_noncontiguous",
                "Mmtk.Desc.discontig_ne_contiguous", "Mmtk.Desc.discontig_wraps",
                "Mmtk.Desc.exponent_overflows_witness", "Mmtk.Desc.normLoop_spec"]
    component = "desc"
    relation = "Mmtk.Desc.* ≙ util::heap::space_descriptor::SpaceDescriptor (via verif::layout::desc)"
    assumptions = ["usize = 64 bit",
                   "32-bit-style encoding limits = Mmtk.Desc.Admissible: start ≠ 0, chunk-aligned, not a multiple of 2^50 "
                   "(5-bit exponent field), 1 ≤ chunks < 1024, end < 2^64",
                   "the VM layout is process-global: the 32-bit-style layout (cfg layout 32 = VMLayout::new_32bit constants) "
                   "and the default 64-bit layout are exercised in separate processes",
                   "discontiguous descriptors: distinctness holds for the first 2^62-1 descriptors of a process (counter wrap)"]
    rule = ("(start, chunks) pairs: odd mantissas of 1..46 bits × every exponent, neighbourhoods of 2^49/2^50/2^64 and of "
            "heap_end, chunk counts {1,2,1022,1023} + random; 15% malformed (unaligned, zero, chunks 0/≥1024, end<start); raw "
            "decode of random words; discontiguous counter incl. the 2^64 wrap; both layouts. non-trivial = result is not a "
            "panic and not the default; distinct = distinct (call, result)")
    which = "32"

    def __init__(self, which="32"):
        self.which = which
        self.variant = f"layout{which}"

    def pre(self, debug):
        return [f"cfg debug {1 if debug else 0}", f"cfg layout {self.which}"]

    def gen(self, rng, tier, debug):
        n = 3000 if tier == "quick" else 150000
        he = HEAP_END[self.which]
        cases = []
        for i in range(n):
            r = rng.random()
            if r < 0.62:
                s = rand_start(rng, he)
                c = rng.choice([1, 1, 2, 3, 10, 512, 1022, 1023, rng.randrange(1, 1024)])
                if rng.random() < 0.3 and he > s and (he - s) // CH < 1024:
                    e = he                     # top-of-heap flag
                else:
                    e = s + c * CH
                if e >= W:
                    e = s + CH if s + CH < W else s
                cases.append(Case([f"desc range {s:#x} {e:#x}"]))
            elif r < 0.77:   # malformed stream
                s = rand_start(rng, he)
                kind = rng.randrange(6)
                if kind == 0: s, e = 0, rng.randrange(0, 3) * CH
                elif kind == 1: e = s                                  # chunks = 0
                elif kind == 2: e = (s + rng.choice([1024, 1025, 4096, 1 << 20]) * CH) % W   # chunks ≥ 1024 (or wrapped)
                elif kind == 3: e = (s - rng.randrange(1, 5) * CH) % W  # end < start
                elif kind == 4: s = (s + rng.choice([1, 8, 4096, 1 << 18, 1 << 21, (1 << 18) - 1])) % W; e = (s + CH) % W
                else: s, e = rng.getrandbits(64), rng.getrandbits(64)
                cases.append(Case([f"desc range {s:#x} {e:#x}"]))
            elif r < 0.92:
                raw = rng.choice([rng.getrandbits(64), rng.getrandbits(32), rng.getrandbits(17), rng.randrange(0, 64),
                                  (rng.getrandbits(14) << 17) | (rng.randrange(32) << 12) | (rng.randrange(1024) << 2) | rng.choice([0, 1, 2, 3])])
                cases.append(Case([f"desc decode {raw:#x}"]))
            elif r < 0.985:
                c = rng.choice(["-", "-", "4", hex(W - 4 * rng.randrange(1, 6)), hex(4 * rng.randrange(1, 1 << 40)),
                                hex(rng.getrandbits(64))])
                cases.append(Case([f"desc discontig {c} {rng.choice([0, 1, 2, 5, 17])}"]))
            else:
                # real threads creating descriptors at once (spin start line): every create must be one atomic step, so the
                # descriptors handed out are exactly those of threads*per sequential creates (no duplicate, no gap)
                c = hex(4 * rng.randrange(1, 1 << 40))
                cases.append(Case([f"desc discrace {c} {rng.choice([2, 4, 8])} {rng.choice([20, 50, 200])}"]))
        return cases

    def corpus(self, debug):
        he = HEAP_END[self.which]
        ls = [f"desc range 0x80000000 0x80c00000", f"desc range {he - CH:#x} {he:#x}",
              "desc range 0x4000000000000 0x4000000400000", "desc range 0x3fffffc00000 0x400000000000",
              "desc range 0x2000000000000 0x20000ffc00000", "desc range 0 0x400000", "desc decode 0",
              "desc discontig - 4", "desc discontig 0xfffffffffffffff8 3",
              "desc range 0x20000000000 0x20000400000", "desc range 0x220000000000 0x220000400000",
              "desc range 0x220000400000 0x220000800000"]
        return [Case([l]) for l in ls]

    def oracle(self, case, impl_out):
        """C32's statement evaluated on what the implementation printed."""
        t = case.ops[0].split()
        out = impl_out[0] if impl_out else "crash"
        he = HEAP_END[self.which]
        bad = []
        if t[1] == "range":
            s, e = int(t[2], 0), int(t[3], 0)
            if self.which == "32":
                if e < s or (e - s) % CH:
                    return []
                chunks = (e - s) // CH
                if not admissible(s, chunks):
                    return []
                f = out.split()
                if len(f) != 7:
                    return [("desc:roundtrip-panic", f"create/decode of admissible range [{s:#x},{e:#x}) did not return: {out}")]
                raw, empty, contig, hi, st, ext, idx = f
                if empty != "false" or contig != "true":
                    bad.append(("desc:contiguity", f"[{s:#x},{e:#x}): empty={empty} contiguous={contig}"))
                if st != str(s):
                    bad.append(("desc:start", f"[{s:#x},{e:#x}): get_start = {st}, expected {s}"))
                if ext != str(e - s):
                    bad.append(("desc:extent", f"[{s:#x},{e:#x}): get_extent = {ext}, expected {e - s}"))
                if (hi == "true") != (e == he):
                    bad.append(("desc:top-flag", f"[{s:#x},{e:#x}): is_contiguous_hi = {hi}, heap_end = {he:#x}"))
            else:
                if s > he:
                    return []
                f = out.split()
                if len(f) != 7:
                    return [("desc:roundtrip-panic", f"64-bit descriptor of [{s:#x},{e:#x}) did not return: {out}")]
                raw, empty, contig, hi, st, ext, idx = f
                if empty != "false" or contig != "true":
                    bad.append(("desc:contiguity", f"[{s:#x},{e:#x}): empty={empty} contiguous={contig}"))
                if st != str(s >> LOG_EXT << LOG_EXT) or idx != str(s >> LOG_EXT):
                    bad.append(("desc:start", f"[{s:#x},{e:#x}): get_start = {st} index = {idx}, expected {s >> LOG_EXT << LOG_EXT} / {s >> LOG_EXT}"))
                if ext != str(1 << LOG_EXT):
                    bad.append(("desc:extent", f"[{s:#x},{e:#x}): get_extent = {ext}, expected 2^41"))
                if (hi == "true") != (e == he):
                    bad.append(("desc:top-flag", f"[{s:#x},{e:#x}): is_contiguous_hi = {hi}"))
        elif t[1] in ("discontig", "discrace"):
            c = 4 if t[2] == "-" else int(t[2], 0)
            n = int(t[3], 0) * (int(t[4], 0) if t[1] == "discrace" else 1)
            if c % 4 or c == 0 or c + 4 * n > W or n == 0:
                return []
            try:
                ds = [x.split(":") for x in out.split(";")]
                raws = [int(d[0]) for d in ds]
            except Exception:
                return [("desc:discontig-panic", f"create_descriptor failed: {out}")]
            if len(set(raws)) != n:
                bad.append(("desc:discontig-distinct", f"descriptors not distinct: {raws}"))
            if any(d[1] != "false" or d[2] != "false" or d[3] != "false" for d in ds):
                bad.append(("desc:discontig-flags", f"a discontiguous descriptor is empty or contiguous: {out}"))
        return bad

    def nontrivial(self, case, out):
        return bool(out) and not out[0].startswith("panic") and out[0] not in ("-", "bad-op")

    def summarize(self, cases, outs):
        h, k, ex = {}, {}, {}
        for c, o in zip(cases, outs):
            t = c.ops[0].split()
            op = t[1]
            h[f"{self.variant}:{op}"] = h.get(f"{self.variant}:{op}", 0) + 1
            kind = o[0].split()[0] if o and o[0].startswith("panic") else "value"
            k[kind] = k.get(kind, 0) + 1
            if op == "range":
                s, e = int(t[2], 0), int(t[3], 0)
                if e >= s and (e - s) % CH == 0 and admissible(s, (e - s) // CH):
                    tz = (s & -s).bit_length() - 1 - 18
                    b = f"admissible:exp{tz // 8 * 8}-{tz // 8 * 8 + 7}"
                else:
                    b = "inadmissible"
                ex[b] = ex.get(b, 0) + 1
        return {"op": h, "outcome": k, "range_class": ex}


META = {
    "text": 'Lean theorems over all admissible (start, chunks) — admissible = explicit decidable predicate (start ≠ 0, chunk-aligned, not a multiple of 2^50, 1 ≤ chunks < 1024, end < 2^64): the created descriptor decodes to the same start and extent, is contiguous, non-empty, top flag iff end = heap_end; boundary witness at start = 2^50 (exponent field overflow); 64-bit branch (index<<2|flags) round trip for every start ≤ heap_end; discontiguous descriptors pairwise distinct, non-empty, non-contiguous for the first 2^62-1 of a process. Model compared exactly with the real SpaceDescriptor under both layouts.',
    "note": 'Trusted: Lean kernel + {propext, Classical.choice, Quot.sound}; hand-transcribed model (usize as Nat, 64-bit shifts written out) tied to the code by sampling differential in two processes (cfg layout 32 via MMTKBuilder::set_vm_layout, and the default 64-bit layout); hook sets the global discontiguous counter.',
    "technique": 'Lean 4 proof (induction on the normalisation loop, positional-field arithmetic via omega) + exact differential hx_unit vs compiled Lean model',
}


def main(argv=None):
    return layoutlib.multi_main([Spec("32"), Spec("64")], argv)
