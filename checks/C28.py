"""C28 — Page resources hand out disjoint in-space pages with exact accounting.

(1) Lean: Props/C28.lean — one page resource shared by any number of threads, every atomic counter
    step interleaved: accounting_exact, no_underflow, granted_disjoint_aligned_in_space.
(2) unit differential: a REAL contiguous MonotonePageResource (cursor, PageAccounting, commit_pages,
    clear_request, reset, reset_cursor) driven through hx_unit `pages …` vs the compiled model.
(3) GC runs of every plan of the default build (event log on): the Pr* events are replayed by the Lean
    monitor `pagem` through the transcribed accounting; at every `stats` the model's counters must equal
    the real reserved/committed pages of every space and the pages currently granted; every grant must be
    page aligned, inside the space's extent and disjoint from the live grants. An independent Python
    oracle recomputes "counters == pages currently granted" from the grant/release events alone.
(4) real threads: T threads released by a barrier ask a REAL private BlockPageResource for one block each while its
    block pool is empty (hx_unit `bpr race`): they meet in alloc_pages_slow_sync (one grows the space, the others are
    served by its retry branch; yield point before the mutex); reserved == committed == 8 x live blocks is judged at
    the two quiescent points of every op — the quiescent case of accounting_exact, which is proved for all interleavings.
(5) discontiguous monotone spaces (Map32): Props/C28Mono.lean — MonotonePageResource::alloc_pages (growth through
    grow_discontiguous_space, the growth-FAILURE special case, new_chunk), the Space::acquire protocol and reset() over the
    shared-pool model of C29, proved for every protocol-respecting history of any number of monotone and free-list-side
    resources; REAL MonotonePageResource::new_discontiguous instances over the private Map32 of hx_unit `dpr` (they share
    its 32-chunk pool with the CommonPageResources of C29) are diffed exactly against the model on histories that exhaust the
    pool from either side, fragment it, retry after failures, release and reset; the statement oracle reads the dumps.
"""
import argparse, json, os, random, sys, time
from concurrent.futures import ThreadPoolExecutor
from vlib import engine as E
from vlib import unit as U
from vlib.engine import Case, Violation
from checks.C34 import Proc
from checks import layoutlib

THEOREMS = ["Mmtk.Pages.accounting_exact", "Mmtk.Pages.accounting_exact_quiescent", "Mmtk.Pages.reserved_eq_committed_plus_pending",
            "Mmtk.Pages.no_underflow", "Mmtk.Pages.granted_disjoint_aligned_in_space", "Mmtk.Pages.page_granted_once",
            "Mmtk.Pages.monoAlloc_grantable", "Mmtk.Pages.inv_init", "Mmtk.Pages.inv_step", "Mmtk.Pages.Reachable.inv"]
MONO_THEOREMS = ["Mmtk.Map32.finish_spec", "Mmtk.Map32.allocPages_spec", "Mmtk.Map32.acquire_spec", "Mmtk.Map32.grow_zero_same",
                 "Mmtk.Map32.monoOK_frame", "Mmtk.Map32.frame_grow", "Mmtk.Map32.frame_release", "Mmtk.Map32.frame_releaseAll", "Mmtk.Map32.frame_pstep",
                 "Mmtk.Map32.minv_init", "Mmtk.Map32.minv_malloc", "Mmtk.Map32.minv_fl", "Mmtk.Map32.minv_reset", "Mmtk.Map32.minv_step",
                 "Mmtk.Map32.mono_history_inv", "Mmtk.Map32.mono_grant_in_space", "Mmtk.Map32.mono_grant_ne_zero", "Mmtk.Map32.mono_grants_disjoint",
                 "Mmtk.Map32.mono_counters_exact", "Mmtk.Map32.mono_fail_changes_nothing_partial",
                 "Mmtk.Map32.growth_failure_without_special_case_grants_zero", "Mmtk.Map32.failed_growth_forgets_current_region",
                 "Mmtk.Map32.reset_after_failed_growth_keeps_chunks", "Mmtk.Map32.debug_self_deadlock_after_two_chunk_grant"]
PAGE = 4096
PLANS = ["NoGC", "SemiSpace", "GenCopy", "GenImmix", "MarkSweep", "PageProtect", "Immix", "MarkCompact", "StickyImmix", "ConcurrentImmix"]

META = {
    "text": "Lean: a page resource shared by any number of threads, one transition per ATOMIC action (reserve_pages, the grant under the acquire_lock, the two counter updates of commit_pages, clear_request, the two fetch_subs of accounting.release, reset); proved for every reachable state, i.e. every interleaving: reserved = granted + pending of every thread, committed = granted + not-yet-subtracted releases, both equal the granted pages at quiescence (accounting_exact*), no counter update underflows (no_underflow), live grants are pairwise disjoint, inside the space and page aligned (granted_disjoint_aligned_in_space); the monotone cursor bump is shown to be a legal page supplier. Tie: a real contiguous MonotonePageResource is diffed exactly against the model on generated histories; T real threads race for blocks of a real private BlockPageResource with an empty pool (slow path + retry branch) and the counters are judged at quiescence; GC runs of 10 plans with the event log on are replayed by the Lean monitor (every get_new_pages / release_pages / release_block / reset / reset_cursor / reserve / clear_request event) and the model's counters are compared with the real per-space counters at every `stats`.",
    "note": "Proof over the model; partial w.r.t. the code (hand transcription tied by sampling). The free-list / block-pool / chunk supplier is abstract (`free` page set: its correctness is C26/C19/C29); discontiguous MONOTONE spaces are covered by Props/C28Mono.lean (MonotonePageResource::alloc_pages / reset over the Map32 model of C29, any number of resources sharing the pool: mono_grant_in_space, mono_grants_disjoint, mono_counters_exact for every protocol-respecting history; `a failed request changes nothing` only as mono_fail_changes_nothing_partial — the code zeroes cursor/sentinel/current chunk on a failed growth, after which reset() releases no chunk: known findings mono:failed-growth-forgets-region, mono:reset-keeps-chunks, and debug builds self-deadlock after a grant of >= 2 chunks: mono:debug-self-deadlock-after-multichunk-grant) and tied by an exact differential of real MonotonePageResource::new_discontiguous instances over a private Map32 (pool exhausted from either side, fragmented, retried, reset); discontiguous free-list spaces in GC runs and the Compressor (needs the unified_ref build) are not run; FreeListPageResource is tied through the GC runs only, BlockPageResource through the GC runs and the real-thread race (oracle only: the grants of a race are schedule dependent, the counters at quiescence are not). Trusted: Lean kernel, hx_gc event log (HX_GC_EVENTS.md), mmtk_verif accessors.",
    "technique": "Lean 4 proof (inductive invariant over all interleavings of atomic counter steps) + exact unit differential + event-log monitor on real GC runs",
    "category": "proof",
}


# ------------------------------------------------------------------------------------------------
# unit differential: real MonotonePageResource
# ------------------------------------------------------------------------------------------------

class PagesUnit(U.UnitSpec):
    pid = "C28"
    modules = ["MmtkModel.Props.C28"]
    theorems = THEOREMS
    component = "pages"
    relation = "Mmtk.Pages.{Acct.*, commitPages, monoAlloc, resetCursorPages} ≙ PageAccounting, PageResource::commit_pages/reserve_pages/clear_request, MonotonePageResource::{alloc_pages, reset, reset_cursor}"
    release_in_thorough = False   # the driver models the debug profile (assertions / overflow checks)
    rule = ("unit: histories new; (reserve n; alloc n n | alloc n m>n | clear n)*; reset / resetcursor at random points on spaces of 1..64 pages, "
            "requests around the remaining capacity (exact fit, one page too many), at most one panicking op (clear_request underflow, "
            "commit_pages with actual < reserved) as the last op; malformed stream; non-trivial = at least one grant and one failure/reset")

    def pre(self, debug):
        return [f"cfg debug {1 if debug else 0}"]

    def corpus(self, debug):
        b = 0x700000000000
        return [Case([f"pages new {b:#x} 65536", "pages reserve 4", "pages alloc 4 4", "pages reserve 20", "pages alloc 20 20", "pages clear 20",
                      "pages reserve 12", "pages alloc 12 12", "pages reserve 1", "pages alloc 1 1", "pages clear 1", "pages reset", "pages reserve 16", "pages alloc 16 16"]),
                Case([f"pages new {b:#x} 8192", "pages clear 1"]), Case([f"pages new {b:#x} 8192", "pages reserve 2", "pages alloc 2 1"]),
                Case([f"pages new {b:#x} 8192", "pages reserve 1", "pages alloc 1 2", f"pages resetcursor {b + 1:#x}", f"pages resetcursor {b:#x}"]),
                Case(["pages new 0x1000 4096"]), Case(["pages new 0x700000000000 100"]), Case(["pages nosuch 1"]), Case(["pages alloc x y"]),
                Case([f"pages new {b:#x} 4096", "pages alloc 0 1", "pages alloc 0 1"])]

    def gen(self, rng, tier, debug):
        n = 600 if tier == "quick" else 20000
        cases = []
        for _ in range(n):
            base = 0x700000000000 + (rng.randrange(64) << 22)
            cap = rng.choice([1, 2, 8, 16, 64, rng.randrange(1, 2100)])
            ops = [f"pages new {base:#x} {cap * PAGE}"]
            cursor, res = 0, 0
            for _ in range(rng.choice([2, 5, 12, 30])):
                left = cap - cursor
                r = rng.random()
                if r < 0.55:
                    k = rng.choice([1, 1, 2, 8, max(1, left), left + 1, rng.randrange(1, cap + 2)])
                    m = k if rng.random() < 0.85 else k + rng.choice([1, 3])
                    ops += [f"pages reserve {k}", f"pages alloc {k} {m}"]
                    res += k
                    if cursor + m <= cap:
                        cursor += m; res += m - k
                    elif rng.random() < 0.8:
                        ops.append(f"pages clear {k}"); res -= k
                elif r < 0.7:
                    ops.append("pages reset"); cursor, res = 0, 0
                elif r < 0.85:
                    top = base + rng.choice([0, 1, PAGE - 1, PAGE, cursor * PAGE, max(0, cursor * PAGE - 1), rng.randrange(0, cap * PAGE + 1)])
                    ops.append(f"pages resetcursor {top:#x}")
                    cursor = (top - base + PAGE - 1) // PAGE; res = cursor
                elif r < 0.93:
                    k = rng.choice([1, res, res + 1]) if res else 1
                    ops.append(f"pages clear {k}")
                    if k > res:
                        break             # debug_assert panic: last op of the case
                    res -= k
                else:
                    k = rng.choice([2, 5]); ops += [f"pages reserve {k}", f"pages alloc {k} {k - 1}"]
                    if cursor + k - 1 <= cap:
                        break             # `actual - reserved` underflows: panic while the PR's mutex is held
                    res += k
            cases.append(Case(ops))
        return cases

    def oracle(self, case, impl_out):
        """statement on the implementation's answers: grants aligned / in the space / disjoint; after every op
        without pending request the counters equal the granted pages."""
        bad = []
        base = cap = None
        grants, pending = [], 0
        for op, out in zip(case.ops, impl_out):
            t = op.split(); f = out.split()
            if out.startswith(("bad-op", "err", "panic", "crash")):
                if out.startswith("crash"):
                    bad.append(("pages:crash", f"{op} -> {out}"))
                break
            try:
                kv = dict(x.split("=") for x in f if "=" in x)
                res, com = int(kv["res"]), int(kv["com"])
                if t[1] == "new":
                    base, cap = int(t[2], 0), int(t[3], 0) // PAGE; grants, pending = [], 0
                elif t[1] == "reserve":
                    pending += int(t[2])
                elif t[1] == "clear":
                    pending -= int(t[2])
                elif t[1] == "reset":          # both counters restart: outstanding requests are forgotten
                    grants, pending = [], 0
                elif t[1] == "resetcursor":
                    n = (int(t[2], 0) - base + PAGE - 1) // PAGE
                    grants, pending = ([(base, n)] if n else []), 0
                elif t[1] == "alloc" and f[0] != "fail":
                    s, n = int(f[0], 0), int(f[1])
                    pending -= int(t[2])
                    if s % PAGE:
                        bad.append(("pages:grant-unaligned", f"{op} -> {out}"))
                    if not (base <= s and s + n * PAGE <= base + cap * PAGE):
                        bad.append(("pages:grant-outside-space", f"{op} -> {out} (space {base:#x}+{cap} pages)"))
                    if any(not (s + n * PAGE <= a or a + k * PAGE <= s) for a, k in grants):
                        bad.append(("pages:grant-overlaps", f"{op} -> {out} overlaps a live grant {grants[:3]}"))
                    grants.append((s, n))
                tot = sum(k for _, k in grants)
                if com != tot:
                    bad.append(("pages:committed-ne-granted", f"after `{op}`: committed={com}, pages granted={tot}"))
                if res != tot + pending:
                    bad.append(("pages:reserved-ne-granted-plus-pending", f"after `{op}`: reserved={res}, granted={tot}, pending={pending}"))
            except Exception as ex:
                bad.append(("pages:unparsable", f"{op} -> {out[:80]} ({ex})")); break
            if bad:
                break
        return bad

    def nontrivial(self, case, out):
        return any(o and o[0] == "0" for o in out) and any(o.startswith("fail") or "reset" in c for c, o in zip(case.ops, out))

    def summarize(self, cases, outs):
        h = {}
        for c, o in zip(cases, outs):
            for op, x in zip(c.ops, o):
                k = op.split()[1] + (":fail" if x.startswith("fail") else ":panic" if x.startswith("panic") else "")
                h[k] = h.get(k, 0) + 1
        return {"unit_op": h}


# ------------------------------------------------------------------------------------------------
# unit differential: real discontiguous MonotonePageResources over the private Map32 of `dpr`
# ------------------------------------------------------------------------------------------------

class MonoUnit(U.UnitSpec):
    pid = "C28"
    modules = ["MmtkModel.Props.C28Mono"]
    theorems = MONO_THEOREMS
    component = "dpr"
    relation = ("Mmtk.Map32.Mono.{allocPages, acquire, reset} over Mmtk.Map32.PR ≙ MonotonePageResource::{alloc_pages (discontiguous), reset / "
                "release_pages} + PageResource::{reserve_pages, get_new_pages, commit_pages, clear_request} over a private Map32 via verif::layout::dpr")
    release_in_thorough = True
    rule = ("dpr/mono: 1..3 REAL MonotonePageResource::new_discontiguous and 0..2 CommonPageResources over ONE private Map32 (pool = chunks 100..131); "
            "histories of 6..80 ops: malloc (= reserve_pages, get_new_pages, clear_request on failure) of 1..33793 pages (page, half chunk, chunk +-1, "
            "2 chunks +-1, what is left in the current region +0/+1, the whole pool +0/+1), grow / release / release_all on the free-list side, "
            "reset(); scenarios: pool exhausted from the monotone side, from the free-list side (0..3 chunks left), fragmented (no run of 2 chunks), "
            "random; retries after a refusal, reset after a refusal; after EVERY op the full dump (heads, lists, descriptors, avail + per monotone "
            "resource cursor, sentinel, current chunk, reserved, committed, head, region list, live grants) is compared with the Lean model and "
            "judged by the statement oracle; malformed stream (0 pages: debug assertion, bad index, non-numeric, 2^32 pages, a 5th resource, ops "
            "after a panic). debug profile: no request follows a grant of >= 2048 pages before the reset (known self-deadlock, probed separately under "
            "a timeout). non-trivial = a history with a grant and a refusal")

    def gen(self, rng, tier, debug):
        return layoutlib.mono_gen(rng, 500 if tier == "quick" else 20000, debug)

    def corpus(self, debug):
        return [Case(list(c.ops)) for c in layoutlib.MONO_CORPUS]

    def oracle(self, case, impl_out):
        return layoutlib.mono_oracle(case, impl_out)

    def nontrivial(self, case, out):
        return layoutlib.mono_nontrivial(case, out)

    def summarize(self, cases, outs):
        h = {}
        layoutlib.mono_summarize(cases, outs, h)
        return {"mono_op": h}


DEADLOCK_CASE = ["cfg debug 1", "dpr new 0", "dpr mnew 40", "dpr malloc 0 2048", "dpr malloc 0 1"]


def mono_deadlock_probe(violations):
    """Debug builds only: the first request after a grant of >= 2 chunks makes alloc_pages call log_chunk_fields, which locks
    the mutex alloc_pages already holds. The model answers `deadlock`; the implementation must not answer at all."""
    exe, err, _ = E.cargo_build("hx_unit")
    if exe is None:
        return {}
    t0 = time.time()
    outs, rc, err_ = E.run_lines(exe, DEADLOCK_CASE, timeout=8, env={"VERIF_NO_DEADLOCK_GUARD": "1"})
    mouts, mrc, _ = E.run_lines(E.model_exe(), DEADLOCK_CASE, timeout=60)
    hung = rc == -9
    if hung:
        violations.append(Violation("mono:debug-self-deadlock-after-multichunk-grant",
                                    "`dpr malloc 0 1` after a grant of 2048 pages never returns (8 s timeout): MonotonePageResource::alloc_pages calls "
                                    "log_chunk_fields (sync.lock()) while holding the sync mutex", DEADLOCK_CASE, outs, mouts, True))
    if (mouts[-1:] == ["deadlock"]) != hung:
        violations.append(Violation("correspondence:dpr:deadlock-probe", f"model answers {mouts[-1:]}, implementation {'hangs' if hung else outs[-1:]}",
                                    DEADLOCK_CASE, outs, mouts, False, broken="correspondence Mono.allocPages debug-assertion block"))
    return {"deadlock_probe": {"hung": hung, "model": mouts[-1:], "wall_s": round(time.time() - t0, 1)}}


# ------------------------------------------------------------------------------------------------
# GC runs with the event log
# ------------------------------------------------------------------------------------------------

def fnv32(s):
    h = 0x811c9dc5
    for b in s.encode():
        h = ((h ^ b) * 0x01000193) & 0xffffffff
    return h


def gen_program(plan, seed, rounds, heap, workers, opts):
    rng = random.Random(seed)
    head = [f"cfg plan {plan}", f"cfg heap {heap}", f"cfg workers {workers}", "cfg watchdog 100", "cfg events 1"] + [f"cfg opt {k} {v}" for k, v in opts] + ["init", "bind 0", "bind 1"]
    rs, nid = [], 0
    slots = list(range(40))
    nm_ok = plan == "Immix"      # F-A/F-B, the ConcurrentImmix allocator defect (C34) and the MarkCompact double release (DEFECTS)
    ops0 = []
    if plan == "MarkCompact":                     # F-H: keep one survivor in the mark-compact space
        nid += 1; ops0.append(f"alloc 0 {nid} 0 64 8 0 Default 60")
    budget = heap // 3 if plan != "NoGC" else heap // (rounds + 2) // 2
    for g in range(rounds):
        ops = list(ops0) if g == 0 else []
        used = 0
        for _ in range(rng.choice([4, 10, 25, 60])):
            nid += 1
            r = rng.random()
            payload = rng.choice([0, 24, 100, 500]) if r < 0.5 else rng.choice([1000, 3000, 6000, 14000]) if r < 0.85 else rng.choice([20000, 40000, 70000, 150000])
            nf = rng.choice([0, 1, 2])
            size = (8 + 24 + 8 * nf + payload + 7) // 8 * 8
            if used + size > budget:
                break
            used += size
            sem = "Los" if size > 4000 and (size > 16000 or rng.random() < 0.3) else "Default"
            q = rng.random()
            if sem == "Default" and q < 0.06:
                sem = "Immortal"
            elif sem == "Default" and q < 0.12 and nm_ok:
                sem = "NonMoving"
            if plan == "NoGC" and sem in ("Los",):
                pass
            m = rng.choice([0, 0, 1])
            s = rng.choice(slots) if rng.random() < 0.5 else 63
            ops.append(f"alloc {m} {nid} {nf} {payload} 8 0 {sem} {s}")
        if rng.random() < 0.4:
            for s in rng.sample(slots, rng.choice([2, 10, 30])):
                ops.append(f"root {rng.choice([0, 1])} {s} null")
        ops += ["root 0 63 null", "root 1 63 null"]
        gc = None if plan == "NoGC" else f"gc 0 {rng.choice([0, 1, 1])}"
        rs.append((ops, gc))
    return {"plan": plan, "seed": seed, "head": head, "rounds": rs, "heap": heap, "workers": workers, "opts": opts}


def gen_pressure_program(plan, seed, rounds, heap, workers, opts):
    """FULL-heap rounds: requests made with alloc_with_options(at_safepoint = false) that FAIL (Space::acquire ->
    not_acquiring -> clear_request, no block_for_gc), many of them, between collections. Large-object fillers keep the heap
    full of live data; then small / medium requests of every semantics fail one after the other (each failure also
    requests a GC, which runs before the next op). What was reserved for a failed request must be handed back at once:
    the REAL per-space counters read by `stats` must stay equal to the pages granted (oracle) and to the ledger the
    Lean monitor derives from the Pr* events — the PrClearRequest event is logged at the call site, so a clear_request
    that is skipped / delayed / sized wrongly shows as `stats` != ledger."""
    rng = random.Random(seed)
    head = [f"cfg plan {plan}", f"cfg heap {heap}", f"cfg workers {workers}", "cfg watchdog 100", "cfg events 1"] + [f"cfg opt {k} {v}" for k, v in opts] + ["init", "bind 0", "bind 1"]
    rs, nid = [], 0
    fill_slots = list(range(20, 60))
    ops0 = []
    if plan == "MarkCompact":                     # F-H: keep one survivor in the mark-compact space
        nid += 1; ops0.append(f"alloc 0 {nid} 0 64 8 0 Default 60")
    for g in range(rounds):
        ops = list(ops0) if g == 0 else []
        # some ordinary allocation first (garbage + a few survivors)
        for _ in range(rng.choice([0, 5, 20])):
            nid += 1
            ops.append(f"alloc {rng.choice([0, 1])} {nid} {rng.choice([0, 1, 2])} {rng.choice([24, 500, 3000, 6000])} 8 0 Default {rng.choice([rng.randrange(0, 20), 63])}")
        # fill: live large objects, not at a safepoint; asks for 1.2-1.6 x heap in total, so the last ones fail
        want, got = int(heap * rng.choice([1.2, 1.4, 1.6])), 0
        rng.shuffle(fill_slots)
        for s in fill_slots:
            if got >= want:
                break
            nid += 1
            payload = heap // rng.choice([10, 12, 16, 20, 28]) + rng.randrange(0, 4096)
            got += payload
            ops.append(f"alloco {rng.choice([0, 0, 1])} {nid} 0 {payload} 8 0 Los {s} 0 0 {rng.choice([0, 1])}")
        # the heap is full: requests that fail
        for _ in range(rng.choice([8, 20, 40])):
            nid += 1
            r = rng.random()
            m = rng.choice([0, 0, 1])
            if r < 0.55:
                sem, payload = "Default", rng.choice([0, 24, 100, 500, 1000, 3000, 6000])
            elif r < 0.65:
                sem, payload = "Immortal", rng.choice([24, 500, 3000])
            elif r < 0.75 and plan == "Immix":
                sem, payload = "NonMoving", rng.choice([24, 500, 3000])
            else:
                sem, payload = "Los", rng.choice([20000, 40000, 70000, 150000, heap // 3])
            q = rng.random()
            if q < 0.85:
                ops.append(f"alloco {m} {nid} {rng.choice([0, 1])} {payload} 8 0 {sem} 63 0 0 {rng.choice([0, 1])}")
            elif q < 0.93 and sem == "Default" and payload <= 1000:
                ops.append(f"alloco {m} {nid} 0 {payload} 8 0 {sem} 63 1 0 {rng.choice([0, 1])}")      # overcommit: granted
            elif q < 0.97:
                ops.append(f"alloco {m} {nid} 0 {payload} 8 0 {sem} 63 0 1 0")      # at a safepoint: blocks, collects, gives up quietly
            else:
                ops.append(f"alloc {m} {nid} 0 {payload} 8 0 {sem} 63")              # default options: out_of_memory
        ops += ["root 0 63 null", "root 1 63 null"]
        # let part of the fillers go
        for s in rng.sample(fill_slots, rng.choice([0, 5, 20, 40])):
            ops += [f"root 0 {s} null", f"root 1 {s} null"]
        gc = rng.choice([None, "gc 0 0", "gc 0 1", "gc 0 1"])
        rs.append((ops, gc))
    return {"plan": plan, "seed": seed, "head": head, "rounds": rs, "heap": heap, "workers": workers, "opts": opts, "kind": "pressure"}


def run_program(exe, prog):
    """returns (script for the monitor, expectations, error). One monitor line per event / stats entry."""
    pr = Proc(exe)
    items, err, nev = [], None, 0
    try:
        outs = pr.ask(prog["head"] + ["spaces"])
        bad = [o for o in outs[:-1] if o != "ok"]
        if bad:
            raise EOFError(f"setup rejected: {bad[:2]}")
        spaces, byhash = {}, {}
        for s in outs[-1].split(" ", 1)[1].split(","):
            f = s.split(":")
            spaces[f[0]] = (int(f[1], 16), int(f[2], 16), f[3])
            byhash[fnv32(f[0])] = f[0]
        items.append(("spaces", spaces))

        def add_events(ev):
            nonlocal nev
            if "# dropped" in ev:
                raise EOFError("event log overflowed: " + ev[-40:])
            k = 0
            for e in E.canon(ev).split()[1:]:
                seq, tid, kind, a, b = (int(x) for x in e.split(":"))
                if 50 <= kind <= 58:
                    name = byhash.get(a >> 32)
                    if name is None:
                        raise EOFError(f"event {e}: unknown space hash")
                    items.append(("ev", kind, name, a & 0xffffffff, b, tid)); nev += 1; k += 1
            return k

        def drain():
            """events; then (stats; events) until the second drain shows no page-resource action: a collection that
            was only REQUESTED by the last op (a failed non-safepoint request does not wait for it) runs when the driver
            parks between two ops, possibly between `events` and `stats`; the accepted `stats` is one with no
            page-resource event on either side of it since the ledger was last updated."""
            add_events(pr.ask(["events"])[0])
            for _ in range(40):
                st, ev = pr.ask(["stats", "events"])
                if add_events(ev) == 0:
                    d = dict(kv.split("=", 1) for kv in st.split())
                    items.append(("stats", [(x.split(":")[0], int(x.split(":")[1]), int(x.split(":")[2])) for x in d["spaces"].split(",")]))
                    return
            raise EOFError("the page resources never became quiescent between two ops")

        drain()
        for gi, (ops, gc) in enumerate(prog["rounds"]):
            for i in range(0, len(ops), 12):
                o = pr.ask(ops[i:i + 12])
                for l, x in zip(ops[i:i + 12], o):
                    if x.startswith(("panic", "err", "bad-op")):
                        raise EOFError(f"op `{l}` answered `{x[:160]}`")
                drain()
            if gc:
                g = pr.ask([gc])[0]
                if not g.startswith("ok"):
                    raise EOFError(f"`{gc}` answered `{g[:160]}`")
                drain()
        pr.ask(["quit"])
    except EOFError as ex:
        err = str(ex)
    rc = pr.close()
    if err is None and rc != 0:
        err = f"exit code {rc}"
    return items, err, rc, pr.log[-4:]


def oracle(items):
    """C28's statement from the grant / release events alone."""
    bad, spaces, grants = [], {}, {}
    for it in items:
        if it[0] == "spaces":
            spaces = it[1]; grants = {n: {} for n in spaces}
        elif it[0] == "ev":
            _, kind, name, n, b, tid = it
            g = grants[name]; s0, ext, _ = spaces[name]
            if kind == 50:
                if b % PAGE:
                    bad.append(("pr:grant-unaligned", f"{name}: grant at {b:#x}"))
                if not (s0 <= b and b + n * PAGE <= s0 + ext):
                    bad.append(("pr:grant-outside-space", f"{name}: grant {b:#x}+{n} pages outside [{s0:#x},{s0 + ext:#x})"))
                for a, k in g.items():
                    if not (b + n * PAGE <= a or a + k * PAGE <= b):
                        bad.append(("pr:grant-overlaps", f"{name}: grant {b:#x}+{n} overlaps the live grant {a:#x}+{k}")); break
                g[b] = n
            elif kind in (52, 53):
                if b not in g:
                    bad.append(("pr:release-of-ungranted", f"{name}: release of {b:#x} which is not a live grant"))
                g.pop(b, None)
            elif kind == 54:
                g.clear()
            elif kind == 58:
                g.clear()
                k = (b - s0 + PAGE - 1) // PAGE
                if k:
                    g[s0] = k
        elif it[0] == "stats":
            for name, r, c in it[1]:
                tot = sum(grants.get(name, {}).values())
                if r != tot or c != tot:
                    bad.append(("pr:counters-ne-granted", f"space {name}: reserved={r} committed={c} but {tot} pages are currently granted ({len(grants.get(name, {}))} grants)"))
        if len(bad) > 3:
            break
    return bad


def check_program(exe, prog):
    t0 = time.time()
    items, err, rc, tail = run_program(exe, prog)
    viol = [(k, f"{prog['plan']}: {w}") for k, w in oracle(items)]
    script, kinds = ["pagem reset"], {}
    for it in items:
        if it[0] == "spaces":
            script += [f"pagem space {n} {s:#x} {e:#x}" for n, (s, e, _) in it[1].items()]
        elif it[0] == "ev":
            script.append(f"pagem ev {it[1]} {it[2]} {it[3]} {it[4]}"); kinds[it[1]] = kinds.get(it[1], 0) + 1
        else:
            script += [f"pagem stats {n} {r} {c}" for n, r, c in it[1]]
    mout, mrc, merr = E.run_lines(E.model_exe(), script, timeout=900)
    nstats = sum(1 for l in script if l.startswith("pagem stats"))
    if mrc != 0 or len(mout) != len(script):
        viol.append(("monitor:crash", f"mmtk_model pagem failed rc={mrc} ({len(mout)}/{len(script)}) {merr[-200:]}"))
    else:
        for l, o in zip(script, mout):
            if not o.startswith("ok"):
                key = o.split()[1] if o.startswith("viol") and len(o.split()) > 1 else "answer"
                viol.append((f"monitor:{key}", f"{prog['plan']}: `{l}` -> {o}"))
                break
    if err:
        viol.append((f"gc:run-failed:{prog['plan']}", f"hx_gc did not complete the program: {err} rc={rc} tail={tail[-2:]}"))
    tids = {it[5] for it in items if it[0] == "ev"}
    return viol, {"events": sum(kinds.values()), "kinds": kinds, "stats": nstats, "threads": len(tids), "wall": round(time.time() - t0, 1),
                  "grants": kinds.get(50, 0), "releases": kinds.get(52, 0) + kinds.get(53, 0) + kinds.get(54, 0) + kinds.get(58, 0)}


# ------------------------------------------------------------------------------------------------
# real-thread race on a private BlockPageResource (hx_unit `bpr race`, harness/src/comp/gcfix/bpr.rs)
# ------------------------------------------------------------------------------------------------

def bpr_lines(tier, seed):
    """op lines, grouped per hx_unit process (one page resource per process: 2048 chunks of address range, every
    round uses one)"""
    rng = random.Random(f"{seed}/bpr")
    nproc, nops = (2, 14) if tier == "quick" else (6, 60)
    groups = []
    for _ in range(nproc):
        ls = []
        for _ in range(nops):
            t = rng.choice([2, 2, 3, 4, 4, 8, 8, 16])
            ls.append(f"bpr race {t} {rng.choice([1, 2, 4, 8])} {rng.getrandbits(31)} {rng.choice([0, 0, 25, 50, 100])}")
        groups.append(ls)
    return groups


def bpr_oracle(line, out):
    """C28's statement on one answer: every grant is one block of 8 pages, block aligned, inside the space, granted
    once; at both quiescent points reserved == committed == 8 x (blocks granted and not released)."""
    if not out.startswith("granted="):
        return [("bpr:" + out.split()[0].split(":")[0], f"`{line}` answered `{out[:200]}`")]
    kv = {k: int(v) for k, v in (x.split("=") for x in out.split())}
    bad = []
    for f, key in (("failed", "bpr:request-refused"), ("dup", "bpr:block-granted-twice"), ("misaligned", "bpr:grant-unaligned"),
                   ("outside", "bpr:grant-outside-space"), ("badpages", "bpr:grant-wrong-size")):
        if kv[f]:
            bad.append((key, f"`{line}`: {f}={kv[f]} ({out})"))
    for f, key in (("com_mid", "bpr:committed-ne-granted"), ("res_mid", "bpr:reserved-ne-granted"),
                   ("com_end", "bpr:committed-ne-granted-after-release"), ("res_end", "bpr:reserved-ne-granted-after-release")):
        if kv[f]:
            bad.append((key, f"`{line}`: after {kv['granted']} grants by racing threads ({kv['retry']} served by the retry branch of alloc_pages_slow_sync) "
                             f"{f}={kv[f]} pages (counter - 8 x live blocks; must be 0): {out}"))
    return bad


def run_bpr(tier, seed, groups=None):
    exe, err, _ = E.cargo_build("hx_unit")
    if exe is None:
        return [("harness-build-failed", f"hx_unit no longer builds: {err[-800:]}", None)], {}
    viol, st = [], {"ops": 0, "grants": 0, "released": 0, "slow_path_entries": 0, "retry_branch": 0, "threads": {}}
    for ls in groups or bpr_lines(tier, seed):
        outs, rc, err_ = E.run_lines(exe, ls, timeout=600, env={"VERIF_PANIC_DETAIL": "1"})
        outs += [f"crash:rc={rc}"] * (len(ls) - len(outs))
        for l, o in zip(ls, outs):
            st["ops"] += 1
            for k, w in bpr_oracle(l, o):
                viol.append((k, w, ls[:ls.index(l) + 1]))
            if o.startswith("granted="):
                kv = {k: int(v) for k, v in (x.split("=") for x in o.split())}
                st["grants"] += kv["granted"]; st["released"] += kv["released"]; st["slow_path_entries"] += kv["slow"]; st["retry_branch"] += kv["retry"]
                t = l.split()[2]
                st["threads"][t] = st["threads"].get(t, 0) + 1
    if not viol and st["retry_branch"] == 0:
        viol.append(("coverage:bpr-retry-branch-not-reached", "no racing request was served by the retry branch of alloc_pages_slow_sync", None))
    return viol, st


def programs(tier, seed):
    rng = random.Random(seed)
    ps = []
    rounds = 14 if tier == "quick" else 60
    reps = 2 if tier == "quick" else 8
    for plan in PLANS:
        for k in range(reps):
            heap = rng.choice([6, 8, 16]) << 20 if plan not in ("GenImmix", "GenCopy") else rng.choice([12, 16]) << 20
            if plan == "NoGC":
                heap = 64 << 20
            opts = [("nursery", "Fixed:2097152")] if plan in ("GenImmix", "GenCopy") else []
            if plan in ("Immix", "StickyImmix") and k % 2:
                opts.append(("immix_always_defrag", "true"))
            ps.append(gen_program(plan, rng.getrandbits(32), rounds, heap, rng.choice([1, 2, 4]), opts))
    # full-heap programs (failing non-safepoint requests); drawn after the classic ones, which stay as they were
    for plan in PLANS:
        if plan == "NoGC":
            continue                # a GC request panics NoGC by design
        for k in range(1 if tier == "quick" else 4):
            heap = rng.choice([6, 8, 16]) << 20 if plan not in ("GenImmix", "GenCopy") else rng.choice([12, 16]) << 20
            opts = [("nursery", "Fixed:2097152")] if plan in ("GenImmix", "GenCopy") else []
            ps.append(gen_pressure_program(plan, rng.getrandbits(32), 8 if tier == "quick" else 30, heap, rng.choice([1, 2, 4]), opts))
    return ps


def defect_programs():
    """Genuine mmtk-core defects under C28, one dedicated program each, reported under a stable key."""
    head = ["cfg plan MarkCompact", "cfg heap 16777216", "cfg workers 1", "cfg watchdog 60", "cfg events 1", "init", "bind 0", "bind 1"]
    return [("gc:markcompact-nonmoving-double-release",
             "MarkCompact releases the common spaces twice per GC (UpdateReferences::do_work, src/plan/markcompact/gc_work.rs: `plan_mut.common.release(..); "
             "plan_mut.common.prepare(..)` before the second trace, then Plan::release again): the nonmoving ImmixSpace queues its SweepChunk packets twice in the "
             "Release bucket, so a dead block is swept and `release_block`ed twice: BlockPageResource::release_block subtracts its pages twice (debug assertion "
             "`pages <= committed`, blockpageresource.rs:171, counter underflow in release builds) or SweepChunk hits `chunk_map.get(chunk).unwrap()` on the freed chunk",
             {"plan": "MarkCompact", "seed": 1, "heap": 16777216, "workers": 1, "opts": [], "head": head,
              "rounds": [(["alloc 0 1 1 100 8 0 NonMoving 63", "alloc 0 2 1 24 8 0 Default 63"], "gc 0 1")]})]


GC_RULE = ("GC runs: plans %s (default build; the Compressor needs the unified_ref build and is not run), 2 programs per plan in the quick tier, heaps 6-16 MB "
           "(64 MB NoGC), 1-4 GC workers, two mutators; rounds of 4-60 allocations of 40 B - 150 KB over Default / Los / Immortal (/ NonMoving on Immix and "
           "MarkCompact) followed by root drops and a user GC (nursery or full); the event log is drained and `stats` read after every 12 ops and after every "
           "GC. An evaluation = one `stats` point (every space's counters checked) ; non-trivial = a program with grants and releases/resets; distinct = distinct "
           "(plan, event-kind histogram). Full-heap programs (1 per collecting plan quick / 4 thorough, 8 / 30 rounds): large-object fillers requested with "
           "alloc_with_options(at_safepoint=false) for 1.2-1.6 x the heap (the last ones fail), then 8-40 requests of Default / Immortal / NonMoving / Los that "
           "fail off a safepoint (a few with allow_overcommit, at a safepoint without the OOM call, or with default options), part of the fillers dropped, "
           "natural / nursery / full GC: ~200 PrClearRequest per program, the REAL counters of `stats` must equal the granted pages and the ledger after every "
           "12 ops. A `stats` point is accepted only between two `events` drains of which the second shows no page-resource action (a GC that a failed request "
           "only asked for runs between two ops)." % ", ".join(PLANS))


def main(argv=None):
    ap = argparse.ArgumentParser()
    ap.add_argument("--tier", default=os.environ.get("VERIF_TIER", "quick"))
    ap.add_argument("--seed", type=int, default=int(os.environ.get("VERIF_SEED", "20260921")))
    ap.add_argument("--replay")
    a = ap.parse_args(argv)
    t0 = time.time()
    violations, stats = [], {}
    spec = PagesUnit()
    exe, err, bs = E.cargo_build("hx_gc")
    if exe is None:
        violations.append(Violation("harness-build-failed", f"hx_gc no longer builds against the repo: {err[-1500:]}", found_input=False, broken="harness build"))
        return E.finish("C28", a.tier, a.seed, t0, {"obligations": len(THEOREMS), "discharged": 0}, {}, violations, level="proof of the model, partial w.r.t. the code")
    if a.replay:
        return replay(a.replay, exe, spec)
    mono = MonoUnit()
    lean = E.lean_check(spec.modules + mono.modules, THEOREMS + MONO_THEOREMS, fresh=(a.tier == "thorough"))
    lean["targets"] = spec.modules + mono.modules
    U.run_profile(spec, a.tier, a.seed, True, lean["ok"], violations, stats)
    U.run_profile(mono, a.tier, a.seed + 104729, True, lean["ok"], violations, stats)
    if a.tier == "thorough":
        U.run_profile(mono, a.tier, a.seed + 104729, False, lean["ok"], violations, stats)
    stats.setdefault("distribution", {}).update(mono_deadlock_probe(violations))
    unit_evals = stats.get("evaluations", 0)
    progs = programs(a.tier, a.seed)
    with ThreadPoolExecutor(6) as ex:
        results = list(ex.map(lambda pg: check_program(exe, pg), progs))
    evals, ok_traces, seen, distinct = 0, 0, set(), set()
    dist = {"event_kinds": {}, "per_plan_stats_points": {}, "max_event_threads": 0, "events": 0}
    samples = []
    for pg, (viol, st) in zip(progs, results):
        evals += st["stats"]
        ok_traces += 0 if viol else 1
        if st["grants"] and st["releases"]:
            distinct.add((pg["plan"], tuple(sorted(st["kinds"].items()))))
        for k, n in st["kinds"].items():
            dist["event_kinds"][str(k)] = dist["event_kinds"].get(str(k), 0) + n
        dist["per_plan_stats_points"][pg["plan"]] = dist["per_plan_stats_points"].get(pg["plan"], 0) + st["stats"]
        dist["max_event_threads"] = max(dist["max_event_threads"], st["threads"]); dist["events"] += st["events"]
        if len(samples) < 3:
            samples.append({"plan": pg["plan"], "heap": pg["heap"], "workers": pg["workers"], "opts": pg["opts"], "events": st["events"], "kinds": st["kinds"], "wall_s": st["wall"]})
        for key, what in viol:
            if key in seen:
                continue
            seen.add(key)
            violations.append(Violation(key, what, {"program": {k: pg[k] for k in ("plan", "seed", "heap", "workers", "opts")}, "index": progs.index(pg), "tier": a.tier, "check_seed": a.seed},
                                        None, None, found_input=not key.startswith("monitor:crash"),
                                        broken=("correspondence (Lean monitor ≠ implementation)" if key.startswith("monitor:") else None)))
    for key, what, pg in defect_programs():
        viol, st = check_program(exe, pg)
        if viol:
            lines = pg["head"] + [l for ops, gc in pg["rounds"] for l in ops + [gc]]
            violations.append(Violation(key, what + "; observed: " + viol[-1][1][:400], {"hx_gc_program": lines, "defect_index": 0, "tier": a.tier, "check_seed": a.seed},
                                        None, None, found_input=True))
    bviol, bstat = run_bpr(a.tier, a.seed)
    for key, what, ls in bviol:
        if key in seen:
            continue
        seen.add(key)
        violations.append(Violation(key, what, {"bpr_lines": ls} if ls else None, None, None, found_input=ls is not None,
                                    broken=None if ls is not None else "C28 real-thread race (hx_unit bpr)"))
    dist["bpr_race"] = bstat
    evals += bstat.get("ops", 0)
    if not lean["ok"] and not any(v.found_input for v in violations):
        violations.append(Violation("proof-broken", f"Lean obligations no longer check: {lean['failures']}", None, None, None, False,
                                    broken=str([f.get('theorem') or f.get('module') or f['kind'] for f in lean['failures']])))
    udist = stats.get("distribution", {}); udist.update(dist)
    corr = {"evaluations": unit_evals + evals, "unit_cases": unit_evals, "stats_points_checked": evals,
            "distinct_nontrivial": len(stats.pop("_distinct", set())) + len(distinct), "rule": spec.rule, "mono_rule": MonoUnit.rule, "gc_rule": GC_RULE,
            "samples": stats.get("samples", [])[:2] + samples, "traces_validated_against_impl": ok_traces, "programs": len(progs),
            "disagreements_checked": stats.get("disagreements", 0), "distribution": udist, "harness_build_s": bs, "lean_s": lean.get("lean_s")}
    return E.finish("C28", a.tier, a.seed, t0, lean, corr, violations, level="proof of the model, partial w.r.t. the code",
                    assumptions=["64-bit target: every space is contiguous (`spaces` reports contiguous=1)",
                                 "the event log is complete for page-resource actions (HX_GC_EVENTS.md kinds 50-58) and totally ordered by its sequence number",
                                 "`stats` is read at quiescent points (no thread inside acquire/release)",
                                 "the page supplier (free list / block pool / chunk map) hands out only free pages: C26, C19, C29",
                                 "discontiguous monotone spaces: histories follow `MPre` (requests of >= 1 page; free-list-side resources use head slots below the "
                                 "monotone ones and release regions they own; at most 4097 regions per resource); Map32 modelled at run level (C29); single-threaded "
                                 "use of each page resource (alloc_pages holds the resource's mutex); stand-alone resources, no memory is mapped"])


def replay(path, exe, spec):
    data = json.load(open(path))
    c = data["case"]
    if isinstance(c, list):
        if c == DEADLOCK_CASE:
            v = []
            mono_deadlock_probe(v)
            print("REPLAY:", "violation reproduced" if v else "no longer reproduces")
            return 1 if v else 0
        return U.replay(MonoUnit() if any(l.startswith("dpr ") for l in c) else spec, path)
    if "bpr_lines" in c:
        viol, st = run_bpr("quick", 0, [c["bpr_lines"]])
        for k, w, _ in viol[:8]:
            print(f"  {k}: {w[:400]}")
        print("REPLAY:", "violation reproduced" if viol else "no longer reproduces")
        return 1 if viol else 0
    E.run(["lake", "build", "mmtk_model"], cwd=E.LEAN_DIR)
    pg = defect_programs()[c["defect_index"]][2] if "defect_index" in c else programs(c.get("tier", "quick"), c.get("check_seed", 20260921))[c["index"]]
    viol, st = check_program(exe, pg)
    for k, w in viol[:8]:
        print(f"  {k}: {w[:400]}")
    print(f"program: plan={pg['plan']} heap={pg['heap']} workers={pg['workers']} opts={pg['opts']} rounds={len(pg['rounds'])}")
    print("REPLAY:", "violation reproduced" if viol else "no longer reproduces")
    return 1 if viol else 0
