"""C14 — every requested GC completes; workers never deadlock or lose a wake-up."""
import os, random, sys, time
from vlib import engine as E
from vlib.engine import Violation
from checks import sched_common as S

PID = "C14"
MODULES = ["MmtkModel.Props.C14"]
THEOREMS = ["Mmtk.Sched.parked_count_exact", "Mmtk.Sched.pool_count_exact", "Mmtk.Sched.no_lost_request",
            "Mmtk.Sched.last_parker_sleeps_only_when_idle", "Mmtk.Sched.no_stranded_packet",
            "Mmtk.Sched.all_parked_no_work", "Mmtk.Sched.gc_never_sleeps_partial",
            "Mmtk.Sched.stranded_with_mutator_push", "Mmtk.Sched.reachable_inv", "Mmtk.Sched.step_invA",
            "Mmtk.Sched.step_invB", "Mmtk.Sched.step_invC"]
# which failure keys belong to this property
KEYS = S.COMMON_KEYS + ("sched:parked-count",
        "sched:park-with-work", "sched:request", "sched:request-flag", "sched:all-parked-wrong")

META = {
    "text": "Lean model Model/Sched.lean: an interleaving transition system of the worker monitor, goals, buckets, "
            "sentinels, designated work and local deques with n workers for every n, abstract packets, notify_one "
            "choosing any waiter, spurious wake-ups, non-atomic polls; stage table regenerated from the linked crate "
            "(hx_consts stages -> Generated/Stages.lean). Proved for every reachable state (all interleavings, all n >= 1): "
            "parked_workers is exact; with a goal requested or current not all workers wait (no lost request; the last "
            "parked worker only sleeps when nothing is requested); every runnable packet is covered by a running or "
            "still-polling worker (no stranded packet), under the explicit hypothesis that mutators do not push into open "
            "buckets, whose necessity is shown by a kernel-evaluated witness (the ConcurrentImmix SATB-barrier race with "
            "one worker). Tie: event-log conformance — every event of real GCs (all plans, 1..16 workers, yield points "
            "armed, packet storms) must be an enabled action of the model; outcome oracles (watchdog, parked counter).",
    "note": "Liveness ('eventually completes') is proved only as deadlock-freedom inside a GC (gc_never_sleeps_partial); the "
            "fair-termination measure is not proved. Conformance is sampled; crossbeam deques and Condvar are trusted; the "
            "front end that attributes notifies / batch moves is untrusted (every choice is re-checked by the Lean monitor).",
    "technique": "Lean 4 proof: inductive invariants of an n-thread transition system + event-log conformance monitor",
    "category": "proof",
}


def build_programs(rng, tier):
    progs = S.gen_programs(rng, tier, want_fork=False, count=36 if tier == "quick" else 400)
    progs += S.conc_programs(rng, 4 if tier == "quick" else 60)
    return progs


def main(argv=None):
    return S.run_check(PID, MODULES, THEOREMS, KEYS, build_programs, argv, META)


if __name__ == "__main__":
    sys.exit(main(sys.argv[1:]))
