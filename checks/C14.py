"""C14 — every requested GC completes; workers never deadlock or lose a wake-up."""
import os, random, sys, time
from vlib import engine as E
from vlib.engine import Violation
from checks import sched_common as S

PID = "C14"
MODULES = ["MmtkModel.Props.C14"]
THEOREMS = ["Mmtk.Sched.parked_count_exact", "Mmtk.Sched.pool_count_exact", "Mmtk.Sched.no_lost_request",
            "Mmtk.Sched.last_parker_sleeps_only_when_idle", "Mmtk.Sched.no_stranded_packet",
            "Mmtk.Sched.all_parked_no_work", "Mmtk.Sched.gc_never_sleeps_partial", "Mmtk.Sched.designated_not_forgotten",
            "Mmtk.Sched.stranded_with_mutator_push", "Mmtk.Sched.reachable_inv", "Mmtk.Sched.step_invA",
            "Mmtk.Sched.step_invB", "Mmtk.Sched.step_invC",
            "Mmtk.Sched.gc_completes_under_fairness", "Mmtk.Sched.request_leads_to_goal", "Mmtk.Sched.all_workers_park_eventually", "Mmtk.Sched.gc_in_progress_completes", "Mmtk.Sched.live_hypotheses_satisfiable", "Mmtk.Sched.last_park_eventually", "Mmtk.Sched.gc_done_changes", "Mmtk.Sched.gc_request_completes", "Mmtk.Sched.Stuck.false",
            # a stop request that arrives while a GC is in progress is not lost at the end of the GC
            "Mmtk.Sched.no_lost_request_at_gc_end", "Mmtk.Sched.exit_request_survives_gc", "Mmtk.Sched.onLastParked_completing",
            "Mmtk.Sched.onLastParked_keeps_exit_reqs"]
# which failure keys belong to this property
KEYS = S.COMMON_KEYS + S.STOP_KEYS + ("sched:parked-count",
        "sched:park-with-work", "sched:request", "sched:request-flag", "sched:all-parked-wrong")

META = {
    "text": "Lean model Model/Sched.lean: an interleaving transition system of the worker monitor, goals, buckets, "
            "sentinels, designated work and local deques with n workers for every n, abstract packets, notify_one "
            "choosing any waiter, spurious wake-ups, non-atomic polls; stage table regenerated from the linked crate "
            "(hx_consts stages -> Generated/Stages.lean). Proved for every reachable state (all interleavings, all n >= 1): "
            "parked_workers is exact; with a goal requested or current not all workers wait (no lost request; the last "
            "parked worker only sleeps when nothing is requested); every runnable packet is covered by a running or "
            "still-polling worker (no stranded packet), under the explicit hypothesis that mutators do not push into open "
            "buckets, whose necessity is shown by a kernel-evaluated witness (the ConcurrentImmix SATB-barrier race with "
            "one worker). Tie: event-log conformance — every event of real GCs (all plans, 1..16 workers, yield points "
            "armed, packet storms) must be an enabled action of the model; outcome oracles (watchdog, parked counter). "
            "Requests arriving DURING a collection: hx_gc `forkgc` / `shutdowngc` make VerifVM call prepare_to_fork() / "
            "mmtk_shutdown() from inside stop_all_mutators, scan_vm_specific_roots, process_weak_refs (on the GC thread, "
            "Gc goal current) or at resume_mutators (helper thread), then join the GC threads; the monitor checks the "
            "completing park against the model's `respond` (no_lost_request_at_gc_end / exit_request_survives_gc) and "
            "the watchdog turns a lost request into sched:hang.",
    "note": "Liveness is proved: gc_completes_under_fairness — on every infinite run that is weakly fair per worker action "
            "class (finish / take / look / miss / park / wake / surrender), spawns finitely many packets (FiniteSpawn), has "
            "finitely many environment actions and spurious wake-ups (FiniteEnv; with unboundedly many, two workers can "
            "alternate spurious wake/park forever — argued in the file header, not formalised) and never pushes into an open "
            "bucket while all workers wait (mutAddOpen = false, shown necessary by stranded_with_mutator_push), a pending GC "
            "request leads to the completing park of the last worker with every stop-the-world bucket closed and empty and "
            "every worker idle; chain lemmas request_leads_to_goal, all_workers_park_eventually, gc_in_progress_completes; "
            "live_hypotheses_satisfiable exhibits a concrete fair run. Conformance is sampled; crossbeam deques and Condvar are trusted; the "
            "front end that attributes notifies / batch moves is untrusted (every choice is re-checked by the Lean monitor).",
    "technique": "Lean 4 proof: inductive invariants of an n-thread transition system + liveness under weak fairness (eventually-constant argument over infinite runs) + event-log conformance monitor",
    "category": "proof",
}


def build_programs(rng, tier):
    progs = S.gen_programs(rng, tier, want_fork=False, count=36 if tier == "quick" else 400)
    progs += S.conc_programs(rng, 4 if tier == "quick" else 60)
    # a StopForFork / Shutdown request made while a collection is in progress (seeded regression C14: lost request)
    progs += S.forkgc_programs(rng, 10 if tier == "quick" else 120)
    return progs


def goals_differential(rng, tier):
    """Unit differential of the goal part of the model against the real `WorkerGoals` (hx_unit `goals`):
    random histories of set/poll/current/complete/isreq + every history of length <= 4 over set/poll/complete."""
    exe, err, _ = E.cargo_build("hx_unit", fs="fs_main")
    if exe is None:
        return [Violation("harness-build-failed", "hx_unit no longer builds: " + err[-800:], found_input=False,
                          broken="harness build")], {}
    cases = []
    alphabet = ["goals set 0", "goals set 1", "goals set 2", "goals poll", "goals complete"]
    import itertools
    for n in range(1, 5):
        for seq in itertools.product(alphabet, repeat=n):
            cases.append(E.Case(["goals new", *seq, "goals current", "goals isreq 0", "goals isreq 1", "goals isreq 2", "goals poll"]))
    for _ in range(200 if tier == "quick" else 3000):
        ops = ["goals new"]
        for _ in range(rng.randrange(1, 25)):
            ops.append(rng.choice(alphabet + ["goals current", f"goals isreq {rng.randrange(3)}"]))
        cases.append(E.Case(ops))
    cases.append(E.Case(["goals new", "goals frobnicate", "goals set 7", "goals poll"]))       # malformed stream
    impl = E.run_cases(exe, cases)
    model = E.run_cases(E.model_exe(), cases)
    viol = []
    corr = None
    for c, a, b in zip(cases, impl, model):
        d = E.first_diff(a, b)
        if d is not None and corr is None:
            corr = Violation(f"correspondence:goals:{c.ops[d].split()[1] if d < len(c.ops) else '?'}",
                             f"model and WorkerGoals disagree on `{c.ops[d] if d < len(c.ops) else '?'}`: impl={a[d] if d < len(a) else '?'} model={b[d] if d < len(b) else '?'}",
                             c, a, b, False, broken="correspondence goals (Lean model ≠ WorkerGoals)")
        # the property's own statement on the implementation: poll returns the highest-priority requested goal, and a
        # request stays pending until it is polled (a lost request is a GC / shutdown / fork request that is never served)
        req = set()
        for op, out in zip(c.ops, a):
            t = op.split()
            if t[1] == "new":
                req = set()
            elif t[1] == "set" and t[2].isdigit():
                g = min(int(t[2]), 2)          # the wrapper maps every other number to StopForFork
                if (out == "true") != (g not in req):
                    viol.append(Violation("goals:set-request-result", f"set_request({g}) returned {out} with requests {sorted(req)}", c, a, b, True))
                req.add(g)
            elif t[1] == "poll":
                want = str(min(req)) if req else "none"
                if out != want:
                    viol.append(Violation("goals:priority", f"poll_next_goal returned {out}, requests were {sorted(req)} (priority Gc > Shutdown > StopForFork)", c, a, b, True))
                req.discard(min(req)) if req else None
            elif t[1] == "isreq" and t[2].isdigit() and int(t[2]) <= 2:
                if (out == "true") != (int(t[2]) in req):
                    viol.append(Violation("goals:request-lost", f"`{op}` answered {out} after `{' ; '.join(c.ops[:c.ops.index(op) + 1])}`: pending requests "
                                                                f"must be {sorted(req)} — a request that was made and not yet polled is gone "
                                                                f"(or one that was never made appeared)", c, a, b, True))
            if viol:
                break
        if viol:
            break
    if not viol and corr is not None:
        viol.append(corr)
    return viol, {"goals_unit_differential": {"cases": len(cases), "op_lines": sum(len(c.ops) for c in cases),
                                              "exhaustive_up_to_length": 4}}


def main(argv=None):
    return S.run_check(PID, MODULES, THEOREMS, KEYS + ("goals:priority", "goals:set-request-result", "goals:request-lost"), build_programs, argv, META,
                       extra=goals_differential)


if __name__ == "__main__":
    sys.exit(main(sys.argv[1:]))
