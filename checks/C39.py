"""C39 — option setting is all-or-nothing and parsers match their grammar."""
import re
from vlib import unit
from vlib import engine as E
from vlib.engine import Case

W = 1 << 64
NAMES = ["plan", "threads", "use_short_stack_scans", "use_return_barrier", "eager_complete_sweep", "ignore_system_gc",
         "nursery", "full_heap_system_gc", "no_finalizer", "no_reference_types", "nursery_zeroing", "stress_factor",
         "analysis_factor", "precise_stress", "vm_space_start", "vm_space_size", "side_metadata_base_address",
         "work_perf_events", "phase_perf_events", "perf_exclude_kernel", "thread_affinity", "gc_trigger",
         "transparent_hugepages", "count_live_bytes_in_gc", "immix_always_defrag", "immix_defrag_every_block",
         "immix_defrag_headroom_percent", "concurrent_immix_disable_concurrent_marking"]
BOOLS = [n for n in NAMES if n not in ("plan", "threads", "nursery", "nursery_zeroing", "stress_factor", "analysis_factor",
                                       "vm_space_start", "vm_space_size", "side_metadata_base_address", "work_perf_events",
                                       "phase_perf_events", "thread_affinity", "gc_trigger", "immix_defrag_headroom_percent")]
USIZES = ["threads", "stress_factor", "analysis_factor", "vm_space_start", "vm_space_size", "side_metadata_base_address",
          "immix_defrag_headroom_percent"]
PLANS = ["NoGC", "SemiSpace", "GenCopy", "GenImmix", "MarkSweep", "PageProtect", "Immix", "MarkCompact", "Compressor",
         "StickyImmix", "ConcurrentImmix"]
MULT = {"": 1, "k": 1 << 10, "m": 1 << 20, "g": 1 << 30, "t": 1 << 40}
UNI_DIGITS = ["٣", "३", "５", "𝟗", "²"]


def x(s):
    return "x" + s.encode().hex()


def unx(tok):
    return bytes.fromhex(tok[1:]).decode()


def num_str(rng, bound=W):
    """a number string near interesting boundaries (valid or overflowing), maybe with leading zeros"""
    v = rng.choice([0, 1, 2, 9, 10, 50, 51, 255, 4096, 65535, 65536, bound - 1, bound, bound + 1, bound // 10, bound * 10,
                    rng.randrange(0, 100), rng.randrange(0, bound), rng.getrandbits(70)])
    s = str(v)
    if rng.random() < 0.1:
        s = "0" * rng.randrange(1, 25) + s
    return s


def size_str(rng):
    suf = rng.choice(["", "", "k", "K", "m", "M", "g", "G", "t", "T"])
    m = MULT[suf.lower()]
    v = rng.choice([0, 1, 2, 1023, 1024, rng.randrange(0, 5000), W // m - 1, W // m, W // m + 1, (W - 1) // m,
                    rng.randrange(0, W // m + 2), W - 1, W, W + 1])
    s = str(v)
    if rng.random() < 0.08:
        s = "00" + s
    return s + suf


def cpulist_str(rng, ncpus=16):
    items = []
    for _ in range(rng.choice([1, 1, 2, 3, 5])):
        r = rng.random()
        if r < 0.55:
            items.append(str(rng.choice([0, 1, 2, 7, ncpus - 1, ncpus, ncpus + 1, 65535, 65536, rng.randrange(0, ncpus)])))
        else:
            a = rng.choice([0, 1, 3, ncpus - 2, 65530, rng.randrange(0, ncpus)])
            b = a + rng.choice([-1, 0, 1, 2, 5, 3])
            items.append(f"{a}-{max(b, 0)}")
    s = ",".join(items)
    if rng.random() < 0.4:
        s = rng.choice(["RoundRobin:", "AllInSet:", "RoundRobin:", "Other:", "roundrobin:", ":"]) + s
    return s


def dec_str(rng):
    return rng.choice(["0", "1", "0.0", "1.0", "0.25", "0.5", "0.2", "0.1", "0.75", "1.5", "0.999", "1.001", "2", "_", "_",
                       "-0.5", "+0.5", ".5", "5.", "-0", "0.000001", "0.333333", "abc", "", "0.2.3", "1,0"])


def mutate(rng, s):
    if not s:
        return rng.choice(["", " ", "+", "-", "_"])
    k = rng.random()
    i = rng.randrange(len(s))
    if k < 0.2:
        return s[:i] + s[i + 1:]                         # drop
    if k < 0.35:
        return s[:i] + s[i] + s[i:]                       # duplicate
    if k < 0.5 and len(s) > 1:
        j = min(i + 1, len(s) - 1)
        l = list(s); l[i], l[j] = l[j], l[i]
        return "".join(l)                                 # swap
    if k < 0.62:
        return s[:i] + rng.choice(UNI_DIGITS) + s[i + 1:]  # unicode digit
    if k < 0.74:
        return s[:i] + rng.choice([" ", "\t", "\n"]) + s[i:]   # whitespace
    if k < 0.84:
        return rng.choice(["+", "-", " ", ""]) + s + rng.choice(["", " ", "\n", "x"])
    if k < 0.92:
        return s.swapcase()
    return s[:i] + rng.choice("+-_:,;=.kKé") + s[i:]


def tame(s):
    """core ranges wider than 2000 ids are replaced: the real code (push + sort + dedup per id) and the model's
    sorted insertion are quadratic in the range width, which only costs time"""
    def f(m):
        try:
            a, b = int(m.group(1)), int(m.group(2))
        except ValueError:
            return m.group(0)
        return m.group(0) if b - a <= 2000 else f"{a}-{a + 3}"
    return re.sub(r"([0-9]+)-\+?([0-9]+)", f, s)


def value_for(rng, name, ncpus):
    if name in BOOLS:
        return rng.choice(["true", "false", "true", "false", "True", "1", "0", "yes", ""])
    if name in USIZES:
        return num_str(rng)
    if name == "plan":
        return rng.choice(PLANS + ["Nogc", "immix", "GenImmix ", ""])
    if name == "nursery_zeroing":
        return rng.choice(["Temporal", "Nontemporal", "Concurrent", "Adaptive", "temporal", "None"])
    if name == "gc_trigger":
        r = rng.random()
        if r < 0.4:
            return "FixedHeapSize:" + size_str(rng)
        if r < 0.8:
            return "DynamicHeapSize:" + size_str(rng) + "," + size_str(rng)
        return rng.choice(["Delegated", "Delegated:x", "Delegatedfoo", "delegated", "Delegate", "FixedHeapSize", "FixedHeapSize:",
                           "DynamicHeapSize:1k", "DynamicHeapSize:1k,2k,3k", "FixedHeapSize:1k,2k", " FixedHeapSize:1k",
                           "FixedHeapSize:+5", "FixedHeapSize:5kk", "FixedHeapSize:k", "xDelegated"])
    if name == "nursery":
        r = rng.random()
        if r < 0.35:
            return "Bounded:" + rng.choice(["_", num_str(rng), "+" + num_str(rng)]) + "," + rng.choice(["_", num_str(rng)])
        if r < 0.6:
            return "Fixed:" + rng.choice([num_str(rng), "+5", "_", "1k", ""])
        if r < 0.9:
            return "ProportionalBounded:" + dec_str(rng) + "," + dec_str(rng)
        return rng.choice(["Bounded:1", "Bounded:1,2,3", "Fixed:1,2", "Fixed", "Bounded", "Other:1,2", "Bounded:1:2", ":", "",
                           "ProportionalBounded:0.5", "bounded:1,2"])
    if name == "thread_affinity":
        return cpulist_str(rng, ncpus)
    if name in ("work_perf_events", "phase_perf_events"):
        return rng.choice(["", "PERF_COUNT_HW_CPU_CYCLES,0,-1", "a,1,2;b,3,4", "a,1", "a,x,1", ";;", "a,+1,-0"])
    return "x"


class Spec(unit.UnitSpec):
    pid = "C39"
    modules = ["MmtkModel.Props.C39"]
    theorems = ["Mmtk.Opts.set_iff_parse_and_valid", "Mmtk.Opts.set_false_unchanged", "Mmtk.Opts.set_true_effect",
                "Mmtk.Opts.bulk_eq_fold", "Mmtk.Opts.parseDigits_spec", "Mmtk.Opts.parseUnsigned_spec",
                "Mmtk.Opts.parseSize_spec", "Mmtk.Opts.trigger_spec", "Mmtk.Opts.trigger_fixed_accepts", "Mmtk.Opts.trigger_delegated_exact",
                "Mmtk.Opts.nursery_spec", "Mmtk.Opts.cpulist_item_spec", "Mmtk.Opts.insertCore_spec",
                "Mmtk.Opts.insertRange_spec"]
    component = "opts"
    relation = ("Mmtk.Opts.{setFromString, setBulkFromString, triggerFromStr, nurseryFromStr, parseCpulist, …} ≙ "
                "util::options::{Options::set_from_string, set_bulk_from_string, GCTriggerSelector/NurserySize/AffinityKind "
                "FromStr + validate}; Mmtk.Opts.table ≙ the options! { … } list (28 options, names/validators/defaults)")
    assumptions = ["usize = 64 bit, u16 core ids",
                   "the `regex` crate is trusted only through the differential; its Unicode `\\d` is modelled as ASCII digits "
                   "(a non-ASCII digit can only lead to Err, as u64::from_str rejects it)",
                   "f64::from_str is modelled on the decimal grammar [+-]?digits[.digits] / [+-]?.digits only (no exponents, "
                   "inf, nan); the differential converts with Lean Float.ofScientific and compares bit patterns; nan / inf literals are sent "
                   "only through set_from_string(\"nursery\", …), where they must be rejected by validation (same outcome as not parsing)",
                   "machine facts (number of CPUs, default threads, default heap size, perf features, OS) are read from the "
                   "linked crate each run (`opts env`) and passed to the model",
                   "environment variables (read_env_var_settings) are not exercised"]
    rule = ("operation histories on one Options value: `reset`, then 3..14 ops among set(name, value) / bulk(string) / direct "
            "FromStr calls; names = all 28 option names + near-misses (case, prefix, blank, unknown); values are "
            "grammar-directed (valid strings for every option type; sizes digits+[kKmMgGtT]? at the overflow boundaries "
            "2^64/1024^i ± 1; nursery Bounded/Fixed/ProportionalBounded with '_' defaults; CPU lists with ranges, "
            "duplicates, ids around the CPU count and 65535/65536, optional RoundRobin:/AllInSet: prefix) and then mutated "
            "40% of the time (drop/duplicate/swap chars, Unicode digits, whitespace, leading '+'/'-', case swap, stray "
            "separators); bulk strings join 1..5 pairs with blanks/commas and sometimes contain an unknown key, a missing or "
            "doubled '='; non-trivial = an op returned true and changed an option; distinct = distinct (history, outputs)")

    env = None

    def read_env(self):
        exe, err, _ = E.cargo_build(self.bin, fs=self.fs, release=False)
        if exe is None:
            return
        outs, rc, _ = E.run_lines(exe, ["opts env"])
        if rc == 0 and outs:
            self.env = dict(kv.split("=") for kv in outs[0].split())

    def pre(self, debug):
        e = self.env or {"ncpus": "16", "threads": "16", "heap": str(1 << 31), "perf": "false", "wps": "false", "linux": "true"}
        return [f"cfg debug {1 if debug else 0}",
                f"cfg opts_env {e['ncpus']} {e['threads']} {e['heap']} {e['perf']} {e['wps']} {e['linux']}"]

    def gen(self, rng, tier, debug):
        n = 500 if tier == "quick" else 8000
        ncpus = int((self.env or {}).get("ncpus", 16))
        cases = []
        for i in range(n):
            ops = ["opts reset"]
            for _ in range(rng.randrange(3, 15)):
                r = rng.random()
                name = rng.choice(NAMES) if rng.random() < 0.7 else rng.choice(["gc_trigger", "nursery", "thread_affinity", "threads"])
                val = value_for(rng, name, ncpus)
                if rng.random() < 0.4:
                    val = mutate(rng, val)
                val = tame(val)
                if r < 0.55 and name == "nursery" and rng.random() < 0.2:
                    # f64::from_str also accepts nan / inf / infinity (any case, signed): such a proportion parses and must
                    # then be REJECTED by validation — the call returns false and the option keeps its value (for the
                    # model, whose grammar has no such literal, the value simply does not parse: the same outcome)
                    sp = lambda: rng.choice(["NaN", "nan", "NAN", "inf", "-inf", "+inf", "infinity", "-Infinity", "NaN"])
                    a, b = rng.choice([(sp(), dec_str(rng)), (dec_str(rng), sp()), (sp(), sp()), ("_", sp()), (sp(), "_")])
                    val = f"ProportionalBounded:{a},{b}"
                if r < 0.55:
                    key = name
                    if rng.random() < 0.08:
                        key = rng.choice([name.upper(), name[:-1], name + " ", " " + name, "", "bogus", name + "x", "MMTK_" + name])
                    ops.append(f"opts set {x(key)} {x(val)}")
                elif r < 0.75:
                    pairs = []
                    for _ in range(rng.randrange(1, 6)):
                        nm = rng.choice(NAMES)
                        v = value_for(rng, nm, ncpus)
                        if nm in ("gc_trigger", "nursery", "thread_affinity") and "," in v and rng.random() < 0.7:
                            nm, v = "threads", str(rng.randrange(0, 5))      # commas split pairs: mostly avoid
                        if rng.random() < 0.06:
                            nm = rng.choice(["bogus", "", "Threads"])
                        k = rng.random()
                        pairs.append(f"{nm}={v}" if k < 0.9 else f"{nm}" if k < 0.95 else f"{nm}=={v}")
                    sep = rng.choice([" ", ",", "  ", ", ", "\t", "\n"])
                    s = sep.join(pairs)
                    if rng.random() < 0.1:
                        s = rng.choice(["", " ", ",", s + ",", " " + s])
                    ops.append(f"opts bulk {x(tame(s))}")
                else:
                    kind = rng.choice(["trigger", "nursery", "cpulist"])
                    v = value_for(rng, {"trigger": "gc_trigger", "nursery": "nursery", "cpulist": "thread_affinity"}[kind], ncpus)
                    if rng.random() < 0.5:
                        v = mutate(rng, v)
                    ops.append(f"opts {kind} {x(tame(v))}")
            cases.append(Case(ops))
        cases.append(Case(["opts reset", "opts frob", "opts set x", "opts bulk"]))
        return cases

    def corpus(self, debug):
        def S(k, v):
            return f"opts set {x(k)} {x(v)}"
        return [
            Case(["opts reset", S("threads", "4"), S("threads", "0"), S("gc_trigger", "FixedHeapSize:2g"),
                  S("gc_trigger", "DynamicHeapSize:1m,512k"), S("nursery", "ProportionalBounded:0.2,_"),
                  S("thread_affinity", "0,3-5,+2"), f"opts bulk {x('threads=2,stress_factor=4096 plan=Immix')}",
                  f"opts bulk {x('threads=3 bogus=1 plan=NoGC')}"]),
            Case(["opts reset", S("gc_trigger", "FixedHeapSize:18014398509481983k"), S("gc_trigger", "FixedHeapSize:18014398509481984k"),
                  S("gc_trigger", "FixedHeapSize:18446744073709551615"), S("gc_trigger", "FixedHeapSize:18446744073709551616"),
                  S("gc_trigger", "FixedHeapSize:0"), S("gc_trigger", "FixedHeapSize:16777215t"), S("gc_trigger", "FixedHeapSize:16777216t")]),
            Case(["opts reset", f"opts trigger {x('Delegatedxyz')}", f"opts trigger {x('Delegated')}", f"opts nursery {x('Bounded:+5,10')}",
                  f"opts trigger {x('FixedHeapSize:+5')}", f"opts trigger {x('FixedHeapSize:٣')}", f"opts cpulist {x('+1-+3')}",
                  f"opts cpulist {x('AllInSet:7,1-3,2')}", f"opts cpulist {x('3-3')}", f"opts cpulist {x('0,')}", f"opts cpulist {x('')}"]),
            Case(["opts reset", S("perf_exclude_kernel", "true"), S("work_perf_events", ""), S("transparent_hugepages", "true"),
                  S("immix_defrag_headroom_percent", "50"), S("immix_defrag_headroom_percent", "51"), S("vm_space_size", "0")]),
        ]

    # -- the property's own statement (independent reference parsers written from the doc comments) ---------
    @staticmethod
    def ref_size(s):
        m = re.fullmatch(r"([0-9]+)([kKmMgGtT]?)", s, re.A)
        if not m:
            return None
        v = int(m.group(1)) * MULT[m.group(2).lower()]
        return v if v < W else None            # overflow is reported, not wrapped

    def ref_trigger(self, s):
        """documented grammar: FixedHeapSize:<size> | DynamicHeapSize:<size>,<size> | Delegated"""
        if s.startswith("FixedHeapSize:"):
            v = self.ref_size(s[len("FixedHeapSize:"):])
            return None if v is None else f"Fixed({v})"
        if s.startswith("DynamicHeapSize:"):
            p = s[len("DynamicHeapSize:"):].split(",")
            if len(p) != 2:
                return None
            a, b = self.ref_size(p[0]), self.ref_size(p[1])
            return None if a is None or b is None else f"Dynamic({a};{b})"
        return "Delegated" if s == "Delegated" else None

    @staticmethod
    def ref_cpulist(s):
        """documented grammar: [RoundRobin:|AllInSet:] item(,item)* with item = u16 | u16-u16 (a < b); '' = OsDefault"""
        if s == "":
            return "OsDefault"
        kind = "RoundRobin"
        if ":" in s:
            k, s = s.split(":", 1)
            if k not in ("RoundRobin", "AllInSet"):
                return None
            kind = k
        cores = set()
        for it in s.split(","):
            m = re.fullmatch(r"\+?([0-9]+)(?:-\+?([0-9]+))?", it, re.A)   # "numbers" = Rust u16 syntax (optional '+')
            if not m:
                return None
            a = int(m.group(1))
            b = int(m.group(2)) if m.group(2) is not None else None
            if a > 65535 or (b is not None and (b > 65535 or a >= b)):
                return None
            cores |= {a} if b is None else set(range(a, b + 1))
        return f"{kind}[{';'.join(map(str, sorted(cores)))}]"

    def oracle(self, case, impl_out):
        bad = []
        prev = None
        for op, out in zip(case.ops, impl_out):
            t = op.split()
            kind = t[1]
            if kind == "reset":
                prev = out
                continue
            if kind in ("set", "bulk") and len(t) == (4 if kind == "set" else 3):
                res, _, dump = out.partition(" ")
                if res not in ("true", "false", "panic") or not dump.startswith("plan="):
                    bad.append(("opts:garbage", f"`{kind}` printed {out[:60]!r}"))
                    prev = None
                    continue
                if kind == "set":
                    key, val = unx(t[2]), unx(t[3])
                    if res == "false" and prev is not None and dump != prev:
                        bad.append(("opts:false-but-changed", f"set_from_string({key!r}, {val!r}) returned false but options changed"))
                    if res == "true" and prev is not None:
                        a = dict(kv.split("=", 1) for kv in prev.split())
                        b = dict(kv.split("=", 1) for kv in dump.split())
                        ch = [k for k in b if a.get(k) != b[k]]
                        if key not in NAMES or any(k != key for k in ch):
                            bad.append(("opts:true-changed-other", f"set_from_string({key!r}, {val!r}) = true changed {ch}"))
                    if key == "gc_trigger":
                        ref = self.ref_trigger(val)
                        valid = ref is not None and not (ref == "Fixed(0)") and not (ref.startswith("Dynamic(") and
                                                                                     int(ref[8:-1].split(";")[0]) > int(ref[8:-1].split(";")[1]))
                        if valid != (res == "true"):
                            bad.append(("opts:trigger-grammar", f"gc_trigger={val!r}: set returned {res}, documented grammar+validation says {valid}"))
                    if res == "panic":
                        bad.append(("opts:set-panicked", f"set_from_string({key!r}, {val!r}) panicked"))
                    if key == "nursery" and res == "true":
                        # whatever was accepted must satisfy the documented validation: 0 < min <= max <= 1 for proportions
                        import re as _re, struct as _st
                        m = _re.search(r"nursery=Prop\(0x([0-9a-f]+);0x([0-9a-f]+)\)", dump)
                        if m:
                            lo, hi = (_st.unpack("<d", int(h, 16).to_bytes(8, "little"))[0] for h in m.groups())
                            if not (0.0 < lo <= hi <= 1.0):
                                bad.append(("opts:nursery-invalid-accepted", f"set_from_string('nursery', {val!r}) returned true and stored the "
                                                                             f"proportions ({lo}, {hi}): validation demands 0 < min <= max <= 1"))
                prev = dump
            elif kind == "trigger" and len(t) == 3:
                s = unx(t[2])
                ref = self.ref_trigger(s)
                got = None if out == "err" else out
                if got != ref:
                    if s.startswith("Delegated") and s != "Delegated" and got == "Delegated":
                        # (repaired by a fix: commit; the key stays so that a regression is reported under the same name)
                        bad.append(("opts:delegated-prefix", f"GCTriggerSelector::from_str({s!r}) = Delegated (any suffix after 'Delegated' is accepted)"))
                    else:
                        bad.append(("opts:trigger-grammar", f"GCTriggerSelector::from_str({s!r}) = {got}, documented grammar gives {ref}"))
            elif kind == "cpulist" and len(t) == 3:
                s = unx(t[2])
                ref = self.ref_cpulist(s)
                got = None if out == "err" else out
                if got != ref:
                    if True:
                        bad.append(("opts:cpulist-grammar", f"AffinityKind::from_str({s!r}) = {got}, documented grammar gives {ref}"))
        seen, uniq = set(), []
        for k, w in bad:
            if k not in seen:
                seen.add(k)
                uniq.append((k, w))
        return uniq

    def nontrivial(self, case, out):
        prev = None
        for op, o in zip(case.ops, out):
            if op.split()[1] == "reset":
                prev = o
            elif o.startswith("true "):
                if prev is not None and o[5:] != prev:
                    return True
                prev = o[5:]
        return False

    def summarize(self, cases, outs):
        ops, res, keys = {}, {}, {}
        for c, o in zip(cases, outs):
            for op, x_ in zip(c.ops, o):
                t = op.split()
                ops[t[1]] = ops.get(t[1], 0) + 1
                if t[1] in ("set", "bulk"):
                    r = x_.split(" ")[0]
                    res[f"{t[1]}:{r}"] = res.get(f"{t[1]}:{r}", 0) + 1
                    if t[1] == "set" and len(t) == 4:
                        try:
                            k = unx(t[2])
                            k = k if k in NAMES else "<unknown>"
                            keys[k] = keys.get(k, 0) + 1
                        except Exception:
                            pass
                elif t[1] in ("trigger", "nursery", "cpulist"):
                    r = "err" if x_ == "err" else "ok"
                    res[f"{t[1]}:{r}"] = res.get(f"{t[1]}:{r}", 0) + 1
        return {"op": ops, "result": res, "set_key": keys}


META = {
    "text": ("Lean theorems over all strings: set_from_string returns true iff the key exists, the value parses and validates, "
             "false leaves every option unchanged, true changes exactly that option; bulk setting = left fold of single sets "
             "stopping at the first failure (unknown key panics with earlier pairs applied); u64/u16 parsing computes the "
             "decimal value and reports overflow; size / GC-trigger / nursery / CPU-list parsers characterised by explicit "
             "grammars (incl. the observed deviation: a leading '+' where no regex guards; the 'Delegated<suffix>' deviation was repaired by a fix: commit). Exact "
             "differential of all 28 options' values after every call on grammar-directed + mutated strings."),
    "note": ("Trusted: Lean kernel + standard axioms; hand-transcribed model; regex crate and f64::from_str only through the "
             "differential (ASCII \\d, decimal fragment); option table hand-transcribed from options! (checked by the dump "
             "differential), machine facts regenerated each run."),
    "technique": "Lean 4 proof (structural induction on strings/tables) + exact differential of operation histories",
}


def main(argv=None):
    spec = Spec()
    spec.read_env()
    return unit.main(spec, argv)
