"""C20 — side metadata behaves as an array of independent fixed-width integers."""
from vlib import unit
from vlib.engine import Case
from checks import side_common as sc
from checks import c20_race

MUT = ("store", "store_atomic", "set_zero", "set_zero_atomic", "cmpxchg", "fetch_add", "fetch_sub", "fetch_and",
       "fetch_or", "fetch_update")
OPS = ("load", "load_atomic") + MUT


def geo_of(line):
    t = line.split()
    lb, lr, off, d0, n = int(t[2]), int(t[3]), int(t[4], 0), int(t[5], 0), int(t[6])
    g = sc.Geo.__new__(sc.Geo)
    g.lb, g.lr, g.d0, g.n, g.dmap = lb, lr, d0, n, int(t[7], 0)
    g.W, g.R = 1 << lb, 1 << lr
    g.off, g.start, g.off2 = off, sc.BASE + off, None
    g.ds = sc.DATA_BASE + d0
    g.de = g.ds + n * g.R
    g.lo, g.hi = g.window(g.start)
    return g


class Spec(unit.UnitSpec):
    pid = "C20"
    modules = ["MmtkModel.Props.C20"] + c20_race.MODULES
    extra_part = staticmethod(c20_race.part)
    theorems = ["Mmtk.SideMeta.lshift_eq", "Mmtk.SideMeta.field_position", "Mmtk.SideMeta.field_disjoint",
                "Mmtk.SideMeta.load_eq_absArr",
                "Mmtk.SideMeta.load_refines", "Mmtk.SideMeta.store_refines", "Mmtk.SideMeta.storeAtomic_refines",
                "Mmtk.SideMeta.setZero_refines", "Mmtk.SideMeta.cmpxchg_refines", "Mmtk.SideMeta.fetchAdd_refines",
                "Mmtk.SideMeta.fetchSub_refines", "Mmtk.SideMeta.fetchAnd_refines", "Mmtk.SideMeta.fetchOr_refines",
                "Mmtk.SideMeta.fetchUpdate_refines", "Mmtk.SideMeta.step_refines", "Mmtk.SideMeta.history_refines",
                "Mmtk.SideMeta.history_frame", "Mmtk.SideMeta.setRawByte_pollutes_witness"] + c20_race.THEOREMS
    component = "side"
    relation = "Mmtk.SideMeta.{load, store, cmpxchg, fetch*} ≙ util::metadata::side_metadata::SideMetadataSpec accessors"
    assumptions = ["64-bit target: every spec is contiguous; log_num_of_bits ≤ 6, log_num_of_bits ≤ log_bytes_in_region + 3",
                   "values passed fit the field (API precondition `assert_value_type`; wider values are the malformed stream)",
                   "every atomic accessor is one atomic step (its internal CAS loop is not modelled): any interleaving is a list of calls "
                   "(history_refines); with one owner per field every owner sees its own sequential history "
                   "(concurrent_owner_view) — tied to the code by real-thread races on adjacent fields (`side race`), which sample "
                   "schedules",
                   "T = u8 for fields of ≤ 8 bits, u16/u32/u64 otherwise (what assert_value_type demands)",
                   "metadata addresses do not overflow 2^64; `set_raw_byte_atomic` is excluded (documented to corrupt neighbours)"]
    rule = ("histories of 1..30 accessor calls on a private window of real side metadata: all 7 widths, region sizes "
            "2^3..2^22, spec offsets placing the window anywhere in a page / across pages / at the first mapped byte, "
            "addresses concentrated on neighbouring regions (sharing bytes and words) and on different offsets inside "
            "one region, window and guard bytes pre-filled with random data; non-trivial = a mutating op ran on a "
            "non-zero window; distinct = distinct (history, outputs)")

    def gen_ops(self, rng, g, k):
        ops = []
        hot = rng.randrange(0, g.n)
        tb = 1 if g.lb <= 3 else 1 << (g.lb - 3)
        mx = (1 << g.W) - 1
        for _ in range(k):
            r = rng.choice([hot, hot, hot + 1, hot - 1, hot + 2, 0, g.n - 1, rng.randrange(0, g.n)])
            r = min(max(r, 0), g.n - 1)
            a = g.d0 + r * g.R + rng.choice([0, 0, g.R - 1, 1, rng.randrange(0, g.R)])
            def v():
                x = rng.random()
                if x < 0.05 and g.lb < 3:
                    return rng.randrange(0, 256)          # malformed: wider than the field
                if x < 0.07:
                    return rng.getrandbits(8 * tb + 4)    # may not even fit T
                return rng.choice([0, 1, mx, mx - 1 if mx > 1 else 0, rng.randrange(0, mx + 1), rng.randrange(0, mx + 1)])
            op = rng.choice(OPS + ("cmpxchg", "cmpxchg", "fetch_add", "fetch_sub", "store"))
            if op in ("load", "load_atomic", "set_zero", "set_zero_atomic"):
                ops.append(f"side {op} {a:#x}")
            elif op == "cmpxchg":
                ops.append(f"side cmpxchg {a:#x} {v()} {v()}")
            elif op == "fetch_update":
                kind = rng.choice(["none", f"const {v()}", f"add {v()}", f"add {v()}"])
                ops.append(f"side fetch_update {a:#x} {kind}")
            else:
                ops.append(f"side {op} {a:#x} {v()}")
            if rng.random() < 0.03:
                ops.append("side dump")
        return ops

    def gen(self, rng, tier, debug):
        n = 1500 if tier == "quick" else 60000
        cases = []
        for i in range(n):
            g = sc.rand_geo(rng, max_meta_bytes=rng.choice([8, 16, 64, 64, 256]),
                            edge=rng.choice([None, None, None, None, "lo", "hi"]))
            ops = [g.new_line(), f"side fill {sc.rand_fill(rng, g.nbytes()).hex()}"]
            ops += self.gen_ops(rng, g, rng.randrange(1, 30))
            cases.append(Case(ops))
        return cases

    def corpus(self, debug):
        out = []
        # neighbours sharing a byte (2-bit fields), wrap-around of fetch_add/sub, cmpxchg on a dirty byte
        g = sc.Geo(1, 3, 0, 16, sc.CHUNK + 64)
        out.append(Case([g.new_line(), "side fill " + ("f7" * g.nbytes()), "side cmpxchg 8 1 2", "side cmpxchg 8 1 3",
                         "side fetch_add 16 3", "side fetch_sub 24 1", "side fetch_sub 0 2", "side store 31 0", "side load 24"]))
        # 64-bit fields at the very first mapped metadata byte
        g = sc.Geo(6, 3, 0, 4, sc.CHUNK)
        out.append(Case([g.new_line(), "side fill " + ("a5" * g.nbytes()), "side fetch_add 8 18446744073709551615",
                         "side fetch_sub 16 1", "side cmpxchg 0 11936128518282651045 7", "side load 0"]))
        # 1 bit per 4 MB region
        g = sc.Geo(0, 22, 0, 64, sc.CHUNK + 8)
        out.append(Case([g.new_line(), "side store 0x400000 1", "side store 0x7fffff 1", "side fetch_or 0xfc00000 1", "side dump"]))
        return [c for c in out]

    def oracle(self, case, impl_out):
        """The property, on what the implementation printed: the call returns the previous value of its own
        region's field, leaves every other bit of the window (and guards) unchanged, and the field's new value is
        the array semantics' (wrap-around modulo 2^width)."""
        bad = []
        g, win = None, 0
        for line, out in zip(case.ops, impl_out):
            t = line.split()
            op = t[1]
            if op == "new":
                if not out.startswith("ok"):
                    return bad
                g, win = geo_of(line), 0
                continue
            if g is None:
                return bad
            if op == "fill":
                if out == "ok":
                    win = sc.win_int(t[2])
                continue
            if op == "dump":
                if sc.win_int(out.split()[0]) != win:
                    bad.append(("side:dump:window-changed", f"`{line}`: the window is not what the last op left"))
                continue
            if op not in OPS:
                continue
            parts = out.split()
            a = int(t[2], 0)
            W = g.W
            pos = g.field_pos(a)
            fmask = ((1 << W) - 1) << pos
            field = (win >> pos) & ((1 << W) - 1)
            vals = [int(x) for x in t[3:] if x.isdigit()]
            tb = 1 if g.lb <= 3 else 1 << (g.lb - 3)
            if op in ("load", "load_atomic"):
                if parts[0] == "panic":
                    bad.append((f"side:{op}:panic", f"`{line}` panicked"))
                elif int(parts[0]) != field:
                    bad.append((f"side:{op}:returns-wrong-value", f"`{line}` returned {parts[0]}, field was {field}"))
                continue
            if len(parts) != 2 or len(parts[1]) != 2 * g.nbytes():
                return bad   # crash: the differential reports it
            ret, after = parts[0], sc.win_int(parts[1])
            wide = any(v >= (1 << W) for v in vals)
            if ret == "panic":
                if wide or any(v >= 256 ** tb for v in vals) or (op == "fetch_update" and len(t) < 4):
                    if after != win:
                        bad.append((f"side:{op}:panic-changed-memory", f"`{line}` panicked and changed the window"))
                    win = after
                    continue
                bad.append((f"side:{op}:panic", f"`{line}` panicked on a well-formed call"))
                win = after
                continue
            if wide and op != "fetch_update":
                win = after
                continue   # precondition violated in a release build (or unchecked `old`): unspecified
            sub = "bits" if g.lb < 3 else "word"
            if (after & ~fmask) != (win & ~fmask):
                bad.append((f"side:{op}:{sub}:touches-other-fields", f"`{line}` changed bits outside its field: {win:#x} -> {after:#x}"))
            full = 1 << W
            newf = (after >> pos) & (full - 1)
            exp, rv = field, None
            if ret != "-":
                rv = int(ret.split(":")[-1])
                if rv != field:
                    bad.append((f"side:{op}:{sub}:returns-wrong-value", f"`{line}` returned {ret}, the field's previous value was {field}"))
            if op in ("store", "store_atomic"):
                exp = vals[0]
            elif op in ("set_zero", "set_zero_atomic"):
                exp = 0
            elif op == "cmpxchg":
                okexp = field == vals[0]
                exp = vals[1] if okexp else field
                if ret.startswith("ok") != okexp:
                    bad.append((f"side:{op}:{sub}:wrong-outcome", f"`{line}` reported {ret}, field was {field}"))
            elif op == "fetch_add":
                exp = (field + vals[0]) % full
            elif op == "fetch_sub":
                exp = (field - vals[0]) % full
            elif op == "fetch_and":
                exp = field & vals[0]
            elif op == "fetch_or":
                exp = field | vals[0]
            elif op == "fetch_update":
                if t[3] == "none":
                    if not ret.startswith("err"):
                        bad.append((f"side:{op}:{sub}:wrong-outcome", f"`{line}` reported {ret}"))
                else:
                    if not ret.startswith("ok"):
                        bad.append((f"side:{op}:{sub}:wrong-outcome", f"`{line}` reported {ret}"))
                    exp = vals[0] % full if t[3] == "const" else (field + vals[0]) % full
            if newf != exp:
                bad.append((f"side:{op}:{sub}:wrong-new-value", f"`{line}`: field {field} -> {newf}, expected {exp}"))
            win = after
        return bad

    def nontrivial(self, case, out):
        return any(l.split()[1] in MUT for l in case.ops) and not case.ops[1].endswith("00" * 8 + "00" * 8)

    def summarize(self, cases, outs):
        h, k, geo = {}, {"panic": 0, "ok": 0}, {}
        for c, o in zip(cases, outs):
            t = c.ops[0].split()
            key = f"bits=2^{t[2]}"
            geo[key] = geo.get(key, 0) + 1
            key = f"region=2^{t[3]}"
            geo[key] = geo.get(key, 0) + 1
            for l, r in zip(c.ops, o):
                op = l.split()[1]
                if op in OPS:
                    h[op] = h.get(op, 0) + 1
                    k["panic" if r.startswith("panic") else "ok"] += 1
        return {"op": h, "outcome": k, "geometry": geo}


META = {
    "text": "Lean: closed form of meta_byte_lshift, every field occupies the bit interval [8·start + r·2^b, +2^b) (disjoint for different regions), abstraction absArr : Mem → Spec → (region → value), one refinement theorem per accessor (load/store/atomic variants/set_zero/compare_exchange/fetch_add/sub/and/or/update: memory abstracts to the updated array, returned value = previous entry, wrap-around mod 2^width, every bit outside the field unchanged) and history_refines by induction over arbitrary op lists on arbitrary addresses. Exact differential of the transcribed accessors against the real SideMetadataSpec methods on real mapped side metadata (7 widths × region sizes 2^3..2^22 × offsets) + independent isolation/return oracle.",
    "note": "Trusted: Lean kernel + standard axioms; hand-written model tied by sampling differential; sequential semantics only; API precondition values < 2^width (violations exercised as malformed stream); set_raw_byte_atomic excluded as documented.",
    "technique": "Lean 4 proof (bit-level refinement to an array, induction over histories) + exact differential + independent oracle",
}


def main(argv=None):
    return unit.main(Spec(), argv)
