"""C06 — soft / weak / phantom references and finalizers follow their semantics: real collections of every
collecting plan compared with `Mmtk.RefProc.scanRefs` / `retainSet` / `FinState.{add,scan,pop}` run by the Lean
monitor `gcw` on the shadow heap's liveness, plus an independent Python re-statement."""
import random
from checks import gcweak_common as W
from vlib import gcrun as G

PLANS = [p for p in G.PLANS if p != "NoGC"]
GENERATIONAL = ("GenCopy", "GenImmix", "StickyImmix")
THEOREMS = ["Mmtk.RefProc.weak_cleared_iff", "Mmtk.RefProc.enqueued_once", "Mmtk.RefProc.scan_frame",
            "Mmtk.RefProc.dead_reference_dropped", "Mmtk.RefProc.soft_retained", "Mmtk.RefProc.fin_conservation",
            "Mmtk.RefProc.fin_wf_apply", "Mmtk.RefProc.fin_scan_spec", "Mmtk.RefProc.pop_spec", "Mmtk.RefProc.fin_history_wf",
            "Mmtk.WeakMon.gcStages_tables_nodup", "Mmtk.WeakMon.gcStages_weak_spec", "Mmtk.WeakMon.gcStages_fin_spec",
            "Mmtk.WeakMon.Los.isLive_iff_survives", "Mmtk.WeakMon.Los.isLive_iff_survives_partial",
            "Mmtk.WeakMon.Los.young_untraced_live_but_swept"]
KEYS = ("gc:referent-mismatch", "gc:enqueued-mismatch", "gc:getfin-mismatch", "gc:getallfin-mismatch", "gc:ismo-missing",
        "gc:dup-id", "gc:extra-object", "gc:lost-object", "gc:size-mismatch", "gc:payload", "gc:field-mismatch", "gc:root-mismatch")
META = {
    "text": "Reference / finalizable processor models (Model/RefProc.lean, transcribed from reference_processor.rs and finalizable_processor.rs): a registered live reference is cleared and enqueued iff its referent is outside the closure computed before its stage, exactly once per registration, a live referent is kept, a dead reference is dropped silently, soft referents are retained outside emergency collections; the finalizable processor conserves registrations (each is candidate, ready or popped, never two of them, never lost), a registration becomes ready iff its object is unreachable at the scan and `get_ready_object` hands out each ready registration once — over histories of any length. The monitor's pipeline `gcStages` (Soft -> Weak -> Final (+rescan) -> Phantom, each on the closure of what was retained before) keeps the tables duplicate-free and satisfies the per-stage specifications. Real collections: programs that register soft / weak / phantom reference objects and finalizers (also twice), keep / drop / share referents, clear referents by hand, drop reference objects, re-register enqueued ones, resurrect subgraphs through finalizers (weak cleared, phantom kept), pop finalized objects late and re-root them, on all 10 collecting plans x {1,4} workers with full-heap GCs, on the generational plans nursery GCs, and emergency collections; after every pause `enqueued`, `referent`, `getfin`, `getallfin`, the snapshot's referent fields and the re-rooted finalized subgraphs are compared with the model by the Lean monitor and by an independent Python oracle.",
    "note": "Level: proof of the model, partial w.r.t. the code. Emergency collections (soft references cleared and enqueued; `emergency` flag of gcStages, `soft_retained` has the non-emergency hypothesis) are provoked by one structured program per stop-the-world plan: an allocation that keeps failing in a nearly full heap goes through an ordinary, a full-heap and then emergency collections before out_of_memory. The reference tables of mmtk-core are hash sets: enqueue order is compared as a multiset; reference objects are kept out of referent closures because `retain` iterates the hash set while marking (order-dependent which soft referent of a soft-reachable soft reference is retained).",
    "technique": "Lean 4 proof (stage specifications, conservation invariants over histories) + run-time verification of real collections by the executable models + independent oracle",
    "category": "proof",
}


class RefModel:
    """Independent Python statement of C06 on a shadow heap (used by the generator to stay well-formed and by the
    oracle). Liveness of a stage = closure of (seeds + what earlier stages retained); never-collected objects are
    always `live` but traced only when reachable."""
    def __init__(self, generational=False):
        self.sh = G.Shadow()
        self.tab = {"soft": [], "weak": [], "phantom": []}
        self.cand, self.ready, self.enq = [], [], []
        self.alive, self.born_before, self.immortal = set(), 0, set()
        self.generational = generational
        self.popped = []

    def closure(self, seeds):
        seen, stack = set(), list(seeds)
        while stack:
            x = stack.pop()
            if x in seen:
                continue
            seen.add(x)
            o = self.sh.objs[x]
            stack += [f for j, f in enumerate(o["fields"]) if f is not None and not (o["weak"] and j == 0)]
        return seen

    def referent(self, r):
        o = self.sh.objs[r]
        return o["fields"][0] if o["weak"] and o["fields"] else None

    def gc(self, nursery=False, emergency=False):
        seeds = list(self.sh.roots.values())
        if nursery:
            seeds += list(self.alive) + [i for i in self.immortal if i >= self.born_before]
        live = lambda m: (lambda x: x in m or x in self.immortal)
        m0 = self.closure(seeds)
        retained = [] if emergency else [self.referent(r) for r in self.tab["soft"] if live(m0)(r) and self.referent(r) is not None]
        m1 = self.closure(seeds + retained)
        cleared = []

        def scan(kind, lv):
            new = []
            for r in self.tab[kind]:
                if not lv(r):
                    if self.referent(r) is not None:
                        cleared.append(r)
                        self.sh.objs[r]["fields"][0] = None
                    continue
                o = self.referent(r)
                if o is None:
                    continue
                if lv(o):
                    new.append(r)
                else:
                    self.sh.objs[r]["fields"][0] = None
                    cleared.append(r)
                    self.enq.append(r)
            self.tab[kind] = new
        scan("soft", live(m1))
        scan("weak", live(m1))
        allf = self.cand + self.ready
        self.cand = [f for f in allf if live(m1)(f)]
        self.ready = [f for f in allf if not live(m1)(f)]
        # FinalizableProcessor::scan passes every registration through keep_alive (trace_object): ready ones are
        # resurrected, live candidates are traced too (matters for an unreachable candidate of a never-collected space)
        m2 = self.closure(seeds + retained + self.ready + self.cand)
        scan("soft", live(m2))
        scan("weak", live(m2))
        scan("phantom", live(m2))
        self.alive, self.born_before = m2, len(self.sh.objs)
        self.sh._reach = None
        return cleared

    def known(self, i):
        """hx_gc can name id i: reachable from the roots (ids allocated since the last pause stay known too)"""
        return i in self.sh.objs and (i in self.sh.reach() or i >= self.born_before)

    def usable(self, i):
        return i in self.sh.objs and i in self.sh.reach()


class RGen:
    """generator state: emits ops and mirrors them on a RefModel so that every id it uses is reachable"""
    def __init__(self, rnd, plan, info, heap):
        self.r, self.plan, self.info, self.heap = rnd, plan, info, heap
        self.m = RefModel(plan in GENERATIONAL)
        self.ops, self.next = [], 0
        # Compressor: F-C (references held by Immortal objects are not forwarded); MarkCompact: an unreachable Immortal
        # referent is traced by the forwarding pass (KNOWN defect gc:markcompact-immortal-referent, corpus)
        self.sems = ["Default", "Default", "Default", "Los"] + (["Immortal"] if plan not in ("Compressor", "MarkCompact") else [])

    def emit(self, op):
        self.ops.append(op)

    def alloc(self, nf, size, sem, slot):
        i = self.next
        self.next += 1
        payload = max(0, size - (self.info["refoff"] + 24 + 8 * nf))
        real = max(32, (self.info["refoff"] + 24 + 8 * nf + payload + 7) // 8 * 8)
        if sem == "Default" and real + 8 > self.info["maxnonlos"]:
            sem = "Los"
        self.emit(f"alloc 0 {i} {nf} {payload} 8 0 {sem} {slot}")
        self.m.sh.alloc(G.mut_key(0, slot), i, nf, real, sem)
        if sem == "Immortal":
            self.m.immortal.add(i)
        return i

    def root(self, slot, i):
        self.emit(f"root 0 {slot} {'null' if i is None else i}")
        self.m.sh._set_root(G.mut_key(0, slot), i)

    def vmroot(self, k, i):
        self.emit(f"vmroot {k} {'null' if i is None else i}")
        self.m.sh._set_root(("vm", k), i)

    def write(self, src, f, dst):
        if self.plan == "Compressor" and self.m.sh.objs[src]["sem"] in ("Immortal", "NonMoving"):
            return False
        if not self.m.usable(src) or (dst is not None and not self.m.usable(dst)):
            return False
        self.emit(f"write 0 {src} {f} {'null' if dst is None else dst}")
        self.m.sh.write(src, f, dst)
        return True

    def mkref(self, i, kind, referent):
        self.emit(f"mkref {i}")
        self.m.sh.objs[i]["weak"] = True
        self.m.sh._reach = None
        if referent is not None:
            self.write(i, 0, referent)
        self.addref(i, kind)

    def addref(self, i, kind):
        if self.m.usable(i) and i not in self.m.tab[kind]:
            self.emit(f"addref 0 {i} {kind}")
            self.m.tab[kind].append(i)

    def addfin(self, i):
        if self.m.usable(i):
            self.emit(f"addfin 0 {i}")
            self.m.cand.append(i)

    def gc(self, exhaustive=True):
        self.emit(f"gc 0 {int(exhaustive)}")
        self.m.gc(nursery=(not exhaustive) and self.m.generational)

    def getfin(self, slot):
        self.emit(f"getfin 0 {slot}")
        if self.m.ready:
            o = self.m.ready.pop()
            self.m.sh._set_root(G.mut_key(0, slot), o)
            self.m.sh._reach = None
            return o
        return None

    def probes(self, refs):
        self.emit("enqueued")
        self.m.enq = []
        for x in refs:
            if self.m.usable(x):
                self.emit(f"referent {x}")


def gen_refs(rnd, plan, info, heap, workers, rounds=5, nursery=False):
    g = RGen(rnd, plan, info, heap)
    r = rnd
    # (young LOS objects used to be kept out of the nursery programs: gc:los-nursery-weak-dangling, repaired by a fix: commit)
    a = g.alloc(1, 40, "Default", 63)
    g.vmroot(G.ANCHOR_KEY, a)
    g.root(63, None)
    refs, finals, kinds = [], [], {}
    small = plan == "PageProtect"
    vm = 0
    for rd in range(rounds):
        for _ in range(r.randrange(3, 6 if small else 10)):
            u = r.random()
            # a referent with a little subgraph of plain objects
            sem = r.choice(g.sems)
            p = g.alloc(r.choice([0, 1, 2]), r.choice([32, 64, 256]) if sem != "Los" else r.choice([20000, 40000]), sem, 1)
            kids = []
            if g.m.sh.objs[p]["nf"] and r.random() < 0.6:
                c = g.alloc(r.choice([0, 1]), r.choice([32, 48, 128]), "Default", 2)
                g.write(p, 0, c)
                kids.append(c)
                g.root(2, None)
            keep = r.random() < 0.4                      # strongly held referent
            if keep:
                g.vmroot(vm % 200, p); vm += 1
            if u < 0.60:                                  # reference object(s) to p
                for kind in r.sample(["soft", "weak", "phantom"], r.choice([1, 1, 2])):
                    x = g.alloc(r.choice([1, 2, 3]), r.choice([40, 64]), r.choice(["Default", "Default", "Los"]) if not (small or nursery) else "Default", 3)
                    g.mkref(x, kind, p)
                    kinds[x] = kind
                    if g.m.sh.objs[x]["nf"] > 1 and kids and r.random() < 0.5:
                        g.write(x, 1, r.choice(kids))     # a strong field of the reference object
                    if r.random() < 0.85:
                        g.vmroot(vm % 200, x); vm += 1    # live reference object
                        refs.append(x)
                    g.root(3, None)                       # else: a dead reference object
            if u > 0.45:                                  # finalizer(s) on p
                g.addfin(p)
                finals.append(p)
                if r.random() < 0.15:
                    g.addfin(p)                           # registered twice: returned twice
            g.root(1, None)
        # application-side events
        for x in r.sample(refs, min(len(refs), 3)):
            if g.m.usable(x):
                u = r.random()
                if u < 0.3:
                    g.write(x, 0, None)                   # cleared by the application: dropped silently
                elif u < 0.5 and kinds[x] not in ("soft",):
                    t = g.alloc(0, 32, "Default", 4)      # retarget (and re-register if it had been enqueued)
                    g.write(x, 0, t)
                    g.addref(x, kinds[x])
                    g.root(4, None)
        if r.random() < 0.3:                              # unroot some holders
            for k in r.sample(range(0, 200), 20):
                g.vmroot(k, None)
        g.gc(exhaustive=not (nursery and r.random() < 0.6))
        g.probes(refs)
        for _ in range(r.choice([0, 1, 2, 4])):           # pop some now, the rest after later GCs
            g.getfin(10 + r.randrange(8))
        if r.random() < 0.4:
            g.emit("snap")
        if r.random() < 0.3:
            g.gc(True)
            g.probes(refs)
    for _ in range(6):
        g.getfin(20 + r.randrange(8))
    g.emit("snap")
    g.gc(True)
    g.probes(refs)
    g.emit("getallfin")
    g.m.cand, g.m.ready = [], []
    g.gc(True)
    g.probes(refs)
    g.emit("snap")
    return G.Program(plan, g.ops, heap=heap, workers=workers, tag="refs-nursery" if nursery else "refs")


def gen_resurrect(rnd, plan, info, heap, workers):
    """structured: F (finalizable) -> C; weak W -> C, phantom Ph -> C, soft S -> D (dropped), weak W2 -> F,
    dead weak reference Wd -> K(kept). Drop F: GC1 clears W and W2 (unreachable before the Final stage) but not
    Ph (C is resurrected with F), keeps S's referent; F is popped only after two more GCs and must come back
    intact with C; after F is dropped again Ph is cleared and enqueued."""
    g = RGen(rnd, plan, info, heap)
    a = g.alloc(1, 40, "Default", 63)
    g.vmroot(G.ANCHOR_KEY, a)
    g.root(63, None)
    fsem = rnd.choice(["Default", "Los"])
    f = g.alloc(2, 64 if fsem == "Default" else 30000, fsem, 0)
    c = g.alloc(1, 48, "Default", 1)
    d = g.alloc(0, 64, "Default", 2)
    k = g.alloc(0, 32, "Default", 3)
    g.write(f, 0, c)
    g.vmroot(3, k)
    out = {}
    for name, kind, tgt, slot in (("w", "weak", c, 10), ("ph", "phantom", c, 11), ("s", "soft", d, 12), ("w2", "weak", f, 13),
                                  ("wd", "weak", k, None)):
        x = g.alloc(rnd.choice([1, 2]), 40, "Default", 5)
        g.mkref(x, kind, tgt)
        if slot is not None:
            g.vmroot(slot, x)
        g.root(5, None)
        out[name] = x
    g.addfin(f)
    if rnd.random() < 0.5:
        g.addfin(c)
    for s in (0, 1, 2, 3):
        g.root(s, None)
    refs = [out[n] for n in ("w", "ph", "s", "w2")]
    g.gc(True); g.probes(refs)
    g.emit("ismo @@%d" % f)
    if plan in GENERATIONAL and rnd.random() < 0.5:
        g.gc(False); g.probes(refs)
    g.gc(True); g.probes(refs)
    g.emit("ismo @@%d" % f)
    g.getfin(20); g.getfin(21); g.getfin(22)
    g.emit("snap")
    for s in (20, 21, 22):
        g.root(s, None)
    g.gc(True); g.probes(refs)
    g.getfin(23)
    g.gc(True); g.probes(refs)
    g.emit("snap")
    return G.Program(plan, g.ops, heap=heap, workers=workers, tag="resurrect")


def gen_emergency(rnd, plan, info, workers):
    """12 MB of rooted large objects in a 16 MB heap, a soft and a weak reference to dropped objects: a user GC keeps the
    soft referent (and clears the weak one); an 8 MB allocation then fails through several collections, the later ones
    emergency collections, which clear and enqueue the soft reference; the allocation answers null after out_of_memory."""
    g = RGen(rnd, plan, info, 16 * G.MB)
    a = g.alloc(1, 40, "Default", 63)
    g.vmroot(G.ANCHOR_KEY, a)
    g.root(63, None)
    for k in range(3):
        g.alloc(0, 4000000, "Los", 1 + k)
    d1 = g.alloc(rnd.choice([0, 1]), 64, "Default", 10)
    s1 = g.alloc(1, 48, "Default", 11)
    g.mkref(s1, "soft", d1)
    d2 = g.alloc(0, 64, "Default", 12)
    w1 = g.alloc(2, 56, "Default", 13)
    g.mkref(w1, "weak", d2)
    d3 = g.alloc(0, 128, "Default", 14)
    s2 = g.alloc(1, 48, "Default", 15)
    g.mkref(s2, "soft", d3)             # this referent stays strongly reachable
    g.root(10, None); g.root(12, None)
    g.gc(True); g.probes([s1, w1, s2])
    g.emit("alloc 0 %d 0 8000000 8 0 Los 20" % g.next)
    g.m.sh.apply(("alloc 0 %d 0 8000000 8 0 Los 20" % g.next).split(), 0)
    g.m.sh._set_root(G.mut_key(0, 20), None)
    g.next += 1
    g.emit("sleep 0")                   # a null answer carries no gcs=: this op reveals the pauses the allocation went through
    nur = g.m.generational
    g.m.gc(nur); g.m.gc(False, emergency=not nur); g.m.gc(False, emergency=True)
    g.probes([s1, w1, s2])
    g.emit("snap")
    return G.Program(plan, g.ops, heap=16 * G.MB, workers=workers, tag="emergency")


def make_suite(seed, tier):
    progs = []
    thorough = tier == "thorough"
    for plan in PLANS:
        info = G.plan_info(plan, "fs_main")
        for w in (1, 4):
            for rep in range(5 if thorough else 1):
                rnd = random.Random(f"{seed}/C06/{plan}/{w}/{rep}")
                ys = rnd.randrange(1, 1 << 30) if thorough else 0
                heap = 64 * G.MB
                ps = [gen_refs(rnd, plan, info, heap, w, rounds=4 if not thorough else 12)]
                if w == 1 or thorough:
                    ps.append(gen_resurrect(rnd, plan, info, heap, w))
                if plan in GENERATIONAL:
                    ps.append(gen_refs(rnd, plan, info, heap, w, rounds=4 if not thorough else 12, nursery=True))
                if plan != "ConcurrentImmix" and (w == 1 or thorough):
                    ps.append(gen_emergency(rnd, plan, info, w))
                for p in ps:
                    p.yield_seed = ys
                progs += ps
    return progs


def oracle(trace):
    m = RefModel(trace.program.plan in GENERATIONAL)
    out, gcs, last_ref, fixed = [], 0, {}, set()
    moves = True
    for idx, (op, res) in enumerate(trace.pairs):
        t, r = op.split(), res.split()
        if not r or r[0].startswith("crash:") or r[0] in ("fatal", "timeout"):
            continue
        g = G._GCS.search(res)
        if g and int(g.group(1)) != gcs:
            # several pauses in one op = an allocation that kept failing: ordinary, then full-heap (an emergency collection
            # unless the first was a nursery one), then emergency collections
            n, gcs = int(g.group(1)) - gcs, int(g.group(1))
            nursery = m.generational and not (t[0] == "gc" and t[2] == "1")
            for i in range(n):
                m.gc(nursery=(nursery and i == 0), emergency=(i >= 2 or (i == 1 and not nursery)))
        k = t[0]
        if k == "constraints":
            moves = "moves=1" in r
        elif k == "alloc" and r[0].startswith("a="):
            kv = dict(x.split("=", 1) for x in r if "=" in x)
            m.sh.apply(t, int(kv["sz"]))
            if kv["space"] in ("immortal", "code_space", "large_code_space", "ro_space", "vm_space"):
                m.immortal.add(int(t[2]))
            last_ref[int(t[2])] = int(kv["r"], 16)
            if t[7] != "Default" or not moves:
                fixed.add(int(t[2]))
        elif k == "alloc" and r[0] == "null":
            m.sh.apply(t, 0)                      # the id is consumed (tombstone)
            m.sh._set_root(G.mut_key(int(t[1]), int(t[8])), None)
        elif k in ("root", "vmroot", "write", "copyrange", "destroy", "mkref") and r[0] == "ok":
            m.sh.apply(t)
        elif k == "addref" and r[0] == "ok":
            if int(t[2]) not in m.tab[t[3]]:
                m.tab[t[3]].append(int(t[2]))
        elif k == "addfin" and r[0] == "ok":
            m.cand.append(int(t[2]))
        elif k == "enqueued":
            got = sorted(int(x) for x in r[1].split(",")) if len(r) > 1 and r[1] else []
            if got != sorted(m.enq):
                out.append((idx, "gc:enqueued-mismatch", f"got={got} expected={sorted(m.enq)}"))
            m.enq = []
        elif k == "referent":
            x = int(t[1])
            want = m.referent(x)
            registered = any(x in m.tab[kd] for kd in m.tab)
            if registered or want is None or want in m.alive or want >= m.born_before or want in m.immortal:
                if res != ("-" if want is None else str(want)):
                    out.append((idx, "gc:referent-mismatch", f"id={x} referent={res} expected={want}"))
        elif k == "getfin":
            want = m.ready.pop() if m.ready else None
            if res != ("none" if want is None else str(want)):
                out.append((idx, "gc:getfin-mismatch", f"got={res} expected={want}"))
            elif want is not None and len(t) >= 3:
                m.sh._set_root(G.mut_key(int(t[1]), int(t[2])), want)
                m.sh._reach = None
        elif k == "getallfin":
            got = sorted(int(x) for x in r[1].split(",")) if len(r) > 1 and r[1] else []
            if got != sorted(m.cand + m.ready):
                out.append((idx, "gc:getallfin-mismatch", f"got={got} expected={sorted(m.cand + m.ready)}"))
            m.cand, m.ready = [], []
        elif k == "snap" and r[0] == "snap":
            e = G._oracle_snap(m.sh, res)          # C01's comparison on this model's shadow heap (knows `getfin m slot`)
            if e:
                out.append((idx,) + e)
            kv = dict(p.split("=", 1) for p in r[1:] if "=" in p)
            for e in (kv.get("objs", "").split(";") if kv.get("objs") else []):
                f = e.split(":")
                x = int(f[0])
                last_ref[x] = int(f[1], 16)
                if x in m.sh.objs and any(x in m.tab[kd] for kd in m.tab):
                    want = m.referent(x)
                    if f[5].split("/")[0] != ("-" if want is None else str(want)):
                        out.append((idx, "gc:referent-mismatch", f"snapshot id={x} field0={f[5].split('/')[0]} expected={want}"))
                        break
        elif k == "ismo" and t[1].startswith("0x"):
            a = int(t[1], 16)
            ids = [i for i, v in last_ref.items() if v == a and i in fixed]
            if ids and (ids[0] in m.alive or ids[0] >= m.born_before) and res != str(ids[0]):
                out.append((idx, "gc:ismo-missing", f"id={ids[0]} at {a:#x}: {res}"))
    return sorted(set(out))


def stats(traces):
    """evaluations = answers compared (enqueued / referent / getfin / getallfin / snapshot); non-trivial = an `enqueued`
    with >= 1 id, a `getfin` that returned an object, or a `referent` of a registered reference that was cleared by a GC"""
    ev, nontriv, dist = 0, set(), {}
    bump = lambda k, n=1: dist.__setitem__(k, dist.get(k, 0) + n)
    for tr in traces:
        p = tr.program
        gcs = 0
        for op, res in tr.pairs:
            t, r = op.split(), res.split()
            if not r:
                continue
            g = G._GCS.search(res)
            if g:
                gcs = int(g.group(1))
            if t[0] == "enqueued":
                ev += 1
                n = len(r[1].split(",")) if len(r) > 1 and r[1] else 0
                bump("enqueued_refs", n)
                if n:
                    nontriv.add((p.plan, p.workers, p.tag, "enq", gcs, n))
            elif t[0] == "referent":
                ev += 1
                bump("referent:" + ("null" if res == "-" else "kept"))
            elif t[0] == "getfin":
                ev += 1
                bump("getfin:" + ("none" if res == "none" else "object"))
                if res != "none":
                    nontriv.add((p.plan, p.workers, p.tag, "fin", gcs, res))
            elif t[0] in ("getallfin", "snap"):
                ev += 1
            elif t[0] == "addref" and r[0] == "ok":
                bump("addref:" + t[3])
            elif t[0] == "addfin" and r[0] == "ok":
                bump("addfin")
            elif t[0] == "gc":
                bump("gc:full" if t[2] == "1" else "gc:nonexhaustive")
    return ev, len(nontriv), dist


def _P(plan, ops, **kw):
    return G.Program(plan, W.ANCHOR + ops, heap=64 * G.MB, **kw)


CORPUS = [
    ("gc:los-nursery-weak-dangling",
     _P("GenCopy", ["alloc 0 1 0 30000 8 0 Los 1", "alloc 0 2 1 8 8 0 Default 2", "mkref 2", "write 0 2 0 1", "addref 0 2 weak",
                    "root 0 1 null", "gc 0 0", "referent 2", "enqueued"], tag="corpus"),
     "NEW: LargeObjectSpace::is_live (policy/largeobjectspace.rs:40) tests only the mark bit against mark_state; a young LOS object is born with mark_state|NURSERY_BIT and a nursery GC does not flip mark_state, so an UNREACHABLE young LOS object is `live` for the reference / finalizable processors and is freed by sweep_large_pages(true) all the same: a weak reference keeps a dangling referent and is not enqueued (GenCopy, GenImmix, StickyImmix); a finalizable candidate on it is returned after the object was freed"),
    ("gc:markcompact-immortal-referent",
     G.Program("MarkCompact", ["alloc 0 0 1 216 8 0 Immortal 1", "alloc 0 1 1 8 8 0 Default 2", "write 0 0 0 1", "root 0 2 null",
                               "alloc 0 2 1 0 8 0 Default 3", "mkref 2", "write 0 2 0 0", "addref 0 2 phantom", "root 0 1 null", "gc 0 1",
                               "referent 2", "snap"], heap=64 * G.MB, tag="corpus"),
     "NEW: MarkCompact: a weak/phantom reference whose referent is an UNREACHABLE Immortal object (ImmortalSpace::is_live is constantly true) that points to a dead mark-compact object: ReferenceProcessor::forward traces the referent in the RefForwarding stage, scans its fields and panics `Object … does not have a forwarding pointer` (markcompactspace.rs:286)"),
]
MALFORMED = ["gcw reset", "gcw res ok", "gcw op getfin", "gcw res 7", "gcw op enqueued", "gcw res enq 1,x", "gcw op enqueued", "gcw res enq 3",
             "gcw op referent 9", "gcw res 4", "gcw op getallfin", "gcw res fin 1", "gcw op addref 0 5 weak", "gcw res ok",
             "gcw op addfin 0 5", "gcw res ok", "gcw op gc 0 1", "gcw res ok gcs=1", "gcw op getfin 0 1", "gcw res none", "gcw bogus"]


def main(argv=None):
    return W.run_check("C06", argv, ["MmtkModel.Props.C06", "MmtkModel.Props.C06Mon"], THEOREMS, KEYS, make_suite, oracle, CORPUS, stats,
                       rule="one evaluation = one answer of hx_gc compared with the model (`enqueued`, `referent`, `getfin`, `getallfin`, a snapshot incl. referent fields and re-rooted finalized subgraphs); non-trivial = an `enqueued` naming >= 1 reference, or a `getfin` that returned an object; distinct by (plan, workers, kind, pause, value)",
                       assumptions=["every GC of these programs is a user GC: `gc m 1` full-heap, `gc m 0` on a generational plan a nursery collection (64 MB heap, no natural GC)",
                                    "reference objects are reachable from roots only (never from a referent's or a finalizable object's closure, except in the structured `resurrect` program where the order is deterministic)",
                                    "several pauses inside one op = a failing allocation: 1st ordinary (nursery on generational plans), 2nd full-heap and an emergency collection unless the 1st was a nursery one, later ones emergency (GlobalState::set_collection_kind); elsewhere no emergency collection happens",
                                    "the VerifVM binding implements ReferenceGlue / Finalizable as documented in harness/HX_GC.md"],
                       malformed=MALFORMED)
