"""C25 — side-metadata sanity checking rejects exactly the overlapping spec sets."""
from vlib import unit
from vlib.engine import Case

LOG_AS = 47


def rsize(lb, lr):
    return 1 << (LOG_AS - (3 + lr - lb))


def rand_spec(rng, near=None):
    lb = rng.randrange(0, 7)
    lr = rng.choice([3, 3, 4, 8, 12, 15, 16, 22, rng.randrange(3, 23)])
    sz = rsize(lb, lr)
    if near is not None and rng.random() < 0.8:
        # place relative to another spec so that touching / overlapping / nested layouts are common
        o2, s2 = near
        off = rng.choice([o2 + s2, o2 + s2 - 8, o2 + s2 + 8, o2 - sz, o2 - sz + 8, o2 + s2 // 2, o2, o2 + 8,
                          max(0, o2 - sz - 8), o2 + rng.randrange(0, s2 + 1) // 8 * 8, s2, sz])
        off = max(0, off)
    else:
        off = rng.choice([0, sz, 2 * sz, rng.randrange(0, 1 << 46) // 8 * 8, rng.randrange(0, 1 << 30) * 8])
    return (off, lb, lr)


def overlap(a, b):
    sa, sb = rsize(a[1], a[2]), rsize(b[1], b[2])
    return a[0] < b[0] + sb and b[0] < a[0] + sa


class Spec(unit.UnitSpec):
    pid = "C25"
    modules = ["MmtkModel.Props.C25"]
    theorems = ["Mmtk.Layout.noOverlap_iff", "Mmtk.Layout.verifyGlobal_iff", "Mmtk.Layout.verifyLocal_iff",
                "Mmtk.Layout.verifyContext_ok_iff", "Mmtk.Layout.overlap_panics",
                "Mmtk.Layout.buggy_never_rejects_disjoint", "Mmtk.Layout.buggy_accepts_overlap_witness"]
    component = "sanity"
    relation = "Mmtk.Layout.{noOverlap, verifyContext} ≙ side_metadata::sanity::{verify_no_overlap_contiguous, verify_metadata_context}"
    assumptions = ["64-bit target: every spec is contiguous", "base + offset + range size does not overflow usize "
                   "(the runtime base cancels out of the comparisons)",
                   "a fresh SideMetadataSanity per case; `sanity multi` registers up to 8 policies (distinct names, same global specs) with it one after the other"]
    rule = ("pairs and small sets of specs (widths 1..64 bits, regions 8 B..4 MB) placed relative to each other so that "
            "touching, nested, partially overlapping and far-apart layouts all occur; non-trivial = the pair/set overlaps "
            "or touches exactly; distinct = distinct (input, verdict)")
    release_in_thorough = True

    def gen(self, rng, tier, debug):
        n = 4000 if tier == "quick" else 150000
        cases = []
        for i in range(n):
            if rng.random() < 0.6:
                a = rand_spec(rng)
                b = rand_spec(rng, (a[0], rsize(a[1], a[2])))
                if rng.random() < 0.5:
                    a, b = b, a
                cases.append(Case(["sanity pair %d %d %d %d %d %d" % (a + b)]))
            elif rng.random() < 0.3:
                # several policies registering with ONE checker (as the spaces of a plan do): local specs of different
                # policies must be checked against each other
                ng, np_ = rng.randrange(0, 3), rng.randrange(2, 5)
                g, pol, flat = [], [], []
                for j in range(ng):
                    s = rand_spec(rng, (g[-1][0], rsize(g[-1][1], g[-1][2])) if g else None)
                    if g and rng.random() < 0.8:
                        s = (g[-1][0] + rsize(g[-1][1], g[-1][2]), s[1], s[2])
                    g.append(s)
                for _ in range(np_):
                    l = []
                    for j in range(rng.randrange(0, 3)):
                        if len(flat) >= 8:
                            break
                        near = None
                        if flat and rng.random() < 0.85:
                            p = rng.choice(flat)
                            near = (p[0], rsize(p[1], p[2]))
                        s = rand_spec(rng, near)
                        if flat and rng.random() < 0.6:
                            p = flat[-1]
                            s = (p[0] + rsize(p[1], p[2]), s[1], s[2])
                        l.append(s); flat.append(s)
                    pol.append(l)
                toks = [str(ng)] + [str(x) for s in g for x in s] + [str(np_)]
                for l in pol:
                    toks += [str(len(l))] + [str(x) for s in l for x in s]
                cases.append(Case(["sanity multi " + " ".join(toks)]))
            else:
                ng, nl = rng.randrange(0, 4), rng.randrange(0, 4)
                g, l = [], []
                for lst, k in ((g, ng), (l, nl)):
                    for j in range(k):
                        near = None
                        if lst and rng.random() < 0.85:
                            p = rng.choice(lst)
                            near = (p[0], rsize(p[1], p[2]))
                        s = rand_spec(rng, near)
                        if lst and rng.random() < 0.7:
                            # mostly valid: lay out after the last one
                            p = lst[-1]
                            s = (p[0] + rsize(p[1], p[2]), s[1], s[2])
                        lst.append(s)
                toks = [str(ng)] + [str(x) for s in g for x in s] + [str(nl)] + [str(x) for s in l for x in s]
                cases.append(Case(["sanity ctx " + " ".join(toks)]))
        return cases

    def corpus(self, debug):
        return [Case(["sanity pair 2199023255552 0 3 2199056809984 3 22"]),       # F4: B nested in A
                Case(["sanity pair 2199056809984 3 22 2199023255552 0 3"]),
                Case(["sanity ctx 2 2199023255552 0 3 2199056809984 3 22 0"]),
                Case(["sanity ctx 0 2 2199023255552 0 3 2199056809984 3 22"]),
                Case(["sanity pair 0 0 3 2199023255552 0 3"]),
                Case(["sanity ctx 2 0 0 3 100 0 3 0"])]

    def oracle(self, case, impl_out):
        t = case.ops[0].split()
        out = impl_out[0] if impl_out else "crash"
        if t[1] == "pair":
            n = [int(x) for x in t[2:]]
            a, b = tuple(n[:3]), tuple(n[3:])
            ov = overlap(a, b)
            if ov and out == "true":
                return [("sanity:accepts-overlap", f"verify_no_overlap_contiguous accepts overlapping specs {a} and {b} "
                         f"(ranges [{a[0]:#x},{a[0]+rsize(a[1],a[2]):#x}) and [{b[0]:#x},{b[0]+rsize(b[1],b[2]):#x}))")]
            if not ov and out != "true":
                return [("sanity:rejects-disjoint", f"verify_no_overlap_contiguous rejects disjoint specs {a} and {b}: {out}")]
        elif t[1] == "ctx":
            n = [int(x) for x in t[2:]]
            ng = n[0]
            g = [tuple(n[1 + 3 * i:4 + 3 * i]) for i in range(ng)]
            nl = n[1 + 3 * ng]
            l = [tuple(n[2 + 3 * ng + 3 * i:5 + 3 * ng + 3 * i]) for i in range(nl)]
            budget = sum(rsize(s[1], s[2]) for s in g) <= 1 << 46 and all(rsize(s[1], s[2]) <= 1 << 46 for s in l)
            def anyov(lst):
                return any(overlap(x, y) for i, x in enumerate(lst) for j, y in enumerate(lst) if i != j)
            ov = anyov(g) or anyov(l)
            if ov and out == "ok":
                return [("sanity:accepts-overlap", f"plan-creation sanity check accepts a context with overlapping specs g={g} l={l}")]
            if not ov and budget and out != "ok":
                return [("sanity:rejects-disjoint", f"plan-creation sanity check rejects a disjoint context g={g} l={l}: {out}")]
        elif t[1] == "multi":
            n = [int(x) for x in t[2:]]
            ng = n[0]
            g = [tuple(n[1 + 3 * i:4 + 3 * i]) for i in range(ng)]
            p = 1 + 3 * ng
            np_ = n[p]; p += 1
            pol = []
            for _ in range(np_):
                nl = n[p]; p += 1
                pol.append([tuple(n[p + 3 * i:p + 3 * i + 3]) for i in range(nl)])
                p += 3 * nl
            l = [s for q in pol for s in q]
            budget = sum(rsize(s[1], s[2]) for s in g) <= 1 << 46 and all(rsize(s[1], s[2]) <= 1 << 46 for s in l)
            def anyov(lst):
                return any(overlap(x, y) for i, x in enumerate(lst) for j, y in enumerate(lst) if i != j)
            ov = anyov(g) or anyov(l)
            if ov and out == "ok":
                return [("sanity:accepts-overlap", f"plan-creation sanity check accepts overlapping specs across the policies of one plan: "
                                                   f"g={g} local specs per policy={pol}")]
            if not ov and budget and out != "ok":
                return [("sanity:rejects-disjoint", f"plan-creation sanity check rejects disjoint policies g={g} l={pol}: {out}")]
        return []

    def nontrivial(self, case, out):
        return True

    def summarize(self, cases, outs):
        h = {}
        for c, o in zip(cases, outs):
            k = c.ops[0].split()[1] + ":" + (o[0] if o else "?")
            h[k] = h.get(k, 0) + 1
        return {"op:verdict": h}


META = {
    "text": "Lean theorems: the (repaired) pair predicate accepts exactly the non-overlapping pairs; global / local / whole-context checks accept iff budgets hold and all distinct pairs are disjoint, for all offsets/widths/region sizes; the defect of the pinned tree is kept as a decide-proved witness. Exact differential of the transcribed checker against verify_no_overlap_contiguous and verify_metadata_context, plus an independent interval-overlap oracle.",
    "note": "Trusted: Lean kernel + standard axioms; hand-written model tied by sampling differential; runtime base address assumed not to overflow; 64-bit contiguous layout only.",
    "technique": "Lean 4 proof (omega over interval arithmetic, list quantifier lemmas) + exact differential + independent oracle",
}


def main(argv=None):
    return unit.main(Spec(), argv)
