"""C17 — concurrent forwarding copies an object once and all tracers agree (tie to the code)."""
from checks import conc_common as CC
from checks import c17_reader
from checks.conc_common import Cell, Case, split_out, fmt_ref, new_addr, obj_addr, MASK, ONE_STEP, PTR_LOC


def fwd_cell(rng, l=None, bits=None, mark=None, nonnull=False):
    c = CC.rand_cell(rng, l)
    c.put("fwd", rng.choice([0, 0, 2, 3, 3]) if bits is None else bits)
    if nonnull and c.ptr() == 0:
        # release builds: reading an all-zero forwarding pointer makes a null ObjectReference (undefined behaviour)
        c.v[PTR_LOC[c.l]] |= new_addr(7)
    if mark is not None:
        c.put("mark", mark)
    return c


class Spec(CC.ConcSpec):
    pid = "C17"
    modules = ["MmtkModel.Props.C17", "MmtkModel.Props.C17Byte"]
    theorems = ["Mmtk.Fwd.one_winner_at_a_time", "Mmtk.Fwd.copy_at_most_once", "Mmtk.Fwd.agreement",
                "Mmtk.Fwd.ptr_read_only_after_write", "Mmtk.Fwd.copy_exactly_once_copyspace",
                "Mmtk.Fwd.enqueued_at_most_once", "Mmtk.Fwd.enqueued_exactly_once",
                "Mmtk.Fwd.already_marked_untouched", "Mmtk.Fwd.outcome_sound",
                # objects whose forwarding bits share one metadata byte (byte-wide compare-exchange): every run of the
                # two-object byte model projects to a run of the per-object model; per-object theorems and verdict
                "Mmtk.FwdByte.proj_exec", "Mmtk.FwdByte.neighbours_independent", "Mmtk.FwdByte.cas_leaves_neighbour",
                "Mmtk.FwdByte.copy_at_most_once_per_object", "Mmtk.FwdByte.agreement_per_object",
                "Mmtk.FwdByte.one_winner_at_a_time_per_object", "Mmtk.FwdByte.outcome_sound_per_object",
                "Mmtk.FwdByte.spurious_failure_then_retry", "Mmtk.FwdByte.noRetry_copies_twice"] + c17_reader.THEOREMS
    extra_part = staticmethod(c17_reader.part)
    component = "fwd"
    race_component = "fwd"
    relation = ("Mmtk.Fwd.localStep (thread run to the end of each function) ≙ util::object_forwarding::{attempt_to_forward, "
                "spin_and_get_forwarded_object, forward_object, clear_forwarding_bits, read/write_forwarding_pointer}")
    assumptions = [
        "sequentially consistent interleaving semantics (every access in object_forwarding.rs is SeqCst; weak memory out of scope)",
        "trace_copy / trace_immix are the harness's transcription of CopySpace::trace_object / "
        "ImmixSpace::trace_object_with_opportunistic_copy from attempt_to_forward on (every callee is the real function; "
        "is_marked/attempt_mark = MarkState::is_marked/test_and_mark, pinned-or-exhausted = an argument); a space instance "
        "with real blocks is not constructed",
        "four stub bindings CVm<0..3> (harness/src/comp/conc/vms.rs) place the metadata: side (= VerifVM's layout), in the "
        "pointer word at shift 0 and 56 (combined store), in another header word (two stores)",
        "real-thread races sample schedules (yield points armed); they can refute, not prove",
        "multi-object races: side layout only (the only layout in which different objects share a metadata byte); the window "
        "between the byte load and the byte CAS inside compare_exchange_atomic has no yield point (add-only hooks cannot put one "
        "there): it is hit by real parallelism over many rounds",
    ]
    rule = ("sequential: every layout x slot x forwarding-bits value (00/10/11 and the unreachable 01) x mark x random/boundary "
            "neighbour bits and pointer words, 1-4 calls per cell, exact differential + Python oracle; races: N in 2..16 real threads "
            "run the CopySpace-/Immix-style trace composition on one object, outcome judged by Mmtk.Fwd.outcomeOk (Lean, proved "
            "sound by outcome_sound) and by the Python oracle; every race counts as non-trivial; multi-object races: k in {2,4,8} "
            "adjacent objects whose side forwarding bits (and mark bits) share a metadata byte, T in 2..8 tracers each tracing all k "
            "objects starting at a different neighbour, spin rendezvous per round, yield points on/off; EVERY object of every round "
            "judged by outcomeOk (sound per object: FwdByte.outcome_sound_per_object) and by the Python oracle (one copy, agreement, "
            "FORWARDED + pointer = the copy for every object, bits outside the group unchanged)")

    # ---------------------------------------------------------------- sequential differential
    def gen(self, rng, tier, debug):
        n = 1500 if tier == "quick" else 20000
        pre0 = [f"cfg debug {1 if debug else 0}"]
        cases = []
        for i in range(n):
            malformed = rng.random() < 0.06
            c = fwd_cell(rng, bits=1 if malformed and rng.random() < 0.5 else None, nonnull=not debug)
            ops = []
            for _ in range(rng.randrange(1, 5)):
                r = rng.random()
                k = rng.randrange(1, 40)
                if r < 0.10:
                    ops.append("fwd attempt")
                elif r < 0.20:
                    ops.append(f"fwd spin {rng.choice([2, 2, 3, 0, 1]) if malformed else rng.choice([2, 2, 3, 0])}")
                elif r < 0.32:
                    ops.append(f"fwd forward {k}")
                elif r < 0.38:
                    ops.append("fwd clear")
                elif r < 0.46:
                    ops.append("fwd readptr")
                elif r < 0.52:
                    ops.append(f"fwd writeptr {k}")
                elif r < 0.58:
                    ops.append(rng.choice(["fwd status", "fwd is", "fwd offs"]))
                elif r < 0.78:
                    ops.append(f"fwd trace_copy {k}")
                else:
                    ops.append(f"fwd trace_immix {k} {rng.randrange(2)}")
            if malformed and rng.random() < 0.3:
                ops.append(rng.choice(["fwd", "fwd forward", "fwd spin", "fwd trace_immix 1", "fwd nonsense 1", "cell set 9 0 0 0 0 0 0 0 0 0"]))
            cases.append(Case(ops, pre0 + [c.set_line()], "seq"))
        return cases

    def corpus(self, debug):
        pre0 = [f"cfg debug {1 if debug else 0}"]
        out = []
        for l in range(4):
            for bits in (0, 2, 3):
                for mark in (0, 1):
                    c = Cell(l, 3, [0xab00_0000_0000_0007, 0, 0xffff_ffff_ffff_ffff, 0xff, 0x55, 0, 0xaa, 0xff])
                    if ONE_STEP[l] is None and bits == 3:
                        c.v[PTR_LOC[l]] = new_addr(9) | 0xab00_0000_0000_0007
                    if ONE_STEP[l] is not None and bits == 3:
                        c.v[PTR_LOC[l]] = new_addr(9)
                    c.put("fwd", bits)
                    c.put("mark", mark)
                    for op in ("fwd trace_copy 5", "fwd trace_immix 5 0", "fwd trace_immix 5 1", "fwd attempt", "fwd spin 2", "fwd forward 6"):
                        out.append(Case([op, "fwd status", "fwd readptr"], pre0 + [c.set_line()], "corpus"))
        return out

    def oracle(self, case, impl_out):
        """The functions' contracts, evaluated on what the real code printed (independent of the Lean model)."""
        bad = []
        try:
            cell = Cell.parse_set(case.pre[-1])
        except Exception:
            return bad
        debug = "cfg debug 1" in case.pre
        for op, out in zip(case.ops, impl_out):
            t = op.split()
            res, hx = split_out(out)
            if hx is None:
                if out.startswith("crash") or out == "panic:oob" or out == "panic:overflow":
                    bad.append(("fwd:crash", f"{op} on {cell.set_line()} -> {out}"))
                # a debug assertion of the real code fired (misuse) or bad-op: state unknown from here on
                if out.startswith("panic") and len(t) >= 2 and t[1] in ("trace_copy", "trace_immix") and cell.get("fwd") != 1 \
                        and not (cell.get("fwd") == 3 and cell.ptr() == 0):
                    bad.append(("fwd:trace-panics", f"{op} on {cell.set_line()} -> {out}"))
                if out.startswith("panic"):
                    break
                continue
            after = Cell.parse_hex(cell.l, cell.slot, hx)
            b0, m0 = cell.get("fwd"), cell.get("mark")
            slot = cell.slot
            if len(t) < 2 or t[0] != "fwd":
                cell = after
                continue
            f = t[1]
            if f == "attempt":
                if res != str(b0):
                    bad.append(("fwd:attempt-result", f"attempt_to_forward returned {res} on bits {b0}"))
                if after.get("fwd") != (2 if b0 == 0 else b0) or after.others("fwd") != cell.others("fwd"):
                    bad.append(("fwd:attempt-state", f"attempt_to_forward on {cell.set_line()} left {hx}"))
            elif f in ("forward",) and len(t) == 3:
                k = int(t[2])
                if res != f"new:{k}":
                    bad.append(("fwd:forward-result", f"forward_object returned {res}, the copy is new:{k}"))
                if after.get("fwd") != 3 or after.ptr() != new_addr(k):
                    bad.append(("fwd:forward-state", f"after forward_object: bits {after.get('fwd')} ptr {after.ptr():#x}, expected 3 / {new_addr(k):#x}"))
                if after.others("fwd", ptr=True) != cell.others("fwd", ptr=True):
                    bad.append(("fwd:forward-clobbers", f"forward_object changed unrelated bits: {cell.set_line()} -> {hx}"))
            elif f == "spin" and len(t) == 3 and t[2] == "2" and b0 in (0, 3) and res != "would-spin":
                exp = fmt_ref(slot, cell.ptr()) if b0 == 3 else "orig"
                if res != exp or after.v != cell.v:
                    bad.append(("fwd:spin", f"spin_and_get_forwarded_object on bits {b0} returned {res} (expected {exp})"))
            elif f in ("trace_copy", "trace_immix") and res != "would-spin" and b0 in (0, 3):
                k = int(t[2])
                decline = f == "trace_immix" and t[3] != "0"
                r, q, cp = res.split()
                if b0 == 3:
                    exp = (fmt_ref(slot, cell.ptr()), "q=-", "copies=0")
                    if (r, q, cp) != exp or after.v != cell.v:
                        bad.append(("fwd:trace-forwarded", f"{op} on a forwarded object: {res}, expected {exp} and no change"))
                elif f == "trace_immix" and m0 == 1:
                    if (r, q, cp) != ("orig", "q=-", "copies=0") or after.v != cell.v:
                        bad.append(("fwd:trace-marked", f"{op} on a marked object: {res} {hx}"))
                elif decline:
                    if (r, q, cp) != ("orig", "q=orig", "copies=0") or after.get("mark") != 1 or after.get("fwd") != 0 \
                            or after.others("mark") != cell.others("mark"):
                        bad.append(("fwd:trace-decline", f"{op}: {res} {hx}"))
                else:
                    if (r, q, cp) != (f"new:{k}", f"q=new:{k}", "copies=1") or after.get("fwd") != 3 or after.ptr() != new_addr(k) \
                            or after.others("fwd", ptr=True) != cell.others("fwd", ptr=True):
                        bad.append(("fwd:trace-copy", f"{op} on {cell.set_line()}: {res} {hx}"))
            cell = after
        return bad

    def nontrivial(self, case, out):
        return any(" | " in o for o in out)

    def summarize(self, cases, outs):
        lay, fn, kind = {}, {}, {}
        for c, o in zip(cases, outs):
            try:
                cell = Cell.parse_set(c.pre[-1])
            except Exception:
                continue
            lay[f"L{cell.l}/bits{cell.get('fwd')}"] = lay.get(f"L{cell.l}/bits{cell.get('fwd')}", 0) + 1
            for op, x in zip(c.ops, o):
                t = op.split()
                fn[t[1] if len(t) > 1 else "?"] = fn.get(t[1] if len(t) > 1 else "?", 0) + 1
                k = "panic" if x.startswith("panic") else "bad-op" if x.startswith("bad-op") else x.split()[0].split(":")[0]
                kind[k] = kind.get(k, 0) + 1
        return {"layout_bits": lay, "function": fn, "result_kind": kind}

    # ---------------------------------------------------------------- real-thread races
    def race_cases(self, rng, tier):
        n = 400 if tier == "quick" else 30000
        cases = []
        for i in range(n):
            c = fwd_cell(rng, l=i % 4, bits=0)
            kind = "copy" if i % 3 == 0 else "immix"
            if kind == "copy":
                c.put("mark", 0)
            else:
                c.put("mark", 1 if rng.random() < 0.15 else 0)
            nt = rng.choice([2, 2, 3, 4, 4, 6, 8, 8, 12, 16])
            mask = rng.choice([0, 0, (1 << nt) - 1, rng.getrandbits(nt)]) if kind == "immix" else 0
            cases.append(Case([f"fwd race {kind} {nt} {rng.getrandbits(40)} {mask}"], ["cfg debug 1", c.set_line()], "race"))
        return cases

    def judge_ops(self, case, out):
        t = case.ops[0].split()
        return [f"fwd judge {t[2]} {t[3]} {out[0] if out else 'crash'}"]

    def race_oracle(self, case, out):
        t = case.ops[0].split()
        kind, n, mask = t[2], int(t[3]), int(t[5])
        c0 = Cell.parse_set(case.pre[-1])
        line = out[0] if out else "crash"
        res, hx = split_out(line)
        if hx is None:
            return [("race:fwd:crash", f"race did not finish: {line}")]
        return self.outcome_bad(kind, n, mask, c0, res, hx, set(range(1, n + 1)), alone=True)

    @staticmethod
    def outcome_bad(kind, n, mask, c0, res, hx, copy_ids, alone):
        """C17 on ONE object: `n` tracers ran the trace_object composition on the object whose initial cell is `c0`;
        `res` = `r=… copies=… q=…`, `hx` = its final cell. `copy_ids`: the copies the harness arranged for this object.
        `alone`: nothing else was going on (then every unrelated bit must be unchanged)."""
        fin = Cell.parse_hex(c0.l, c0.slot, hx)
        f = dict(x.split("=", 1) for x in res.split())
        rs = f["r"].split(",")
        copies = int(f["copies"])
        q = [] if f["q"] == "-" else f["q"].split(",")
        bad = []
        if len(rs) != n or "panic" in rs or "unset" in rs:
            bad.append(("race:fwd:thread-panicked", f"results {rs}"))
        if copies > 1:
            bad.append(("race:fwd:copied-twice", f"{copies} calls of ObjectModel::copy for one object"))
        if len(set(rs)) != 1:
            bad.append(("race:fwd:disagreement", f"tracers returned different references: {sorted(set(rs))}"))
        r = rs[0]
        if copies == 1:
            ok_copy = r.startswith("new:") and int(r[4:]) in copy_ids
            if not ok_copy:
                bad.append(("race:fwd:not-the-copy", f"one copy was made but the tracers returned {r}"))
            if fin.get("fwd") != 3 or fmt_ref(c0.slot, fin.ptr()) != r:
                bad.append(("race:fwd:final-state", f"final bits {fin.get('fwd')} pointer {fmt_ref(c0.slot, fin.ptr())}, tracers returned {r}"))
            if q != [r]:
                bad.append(("race:fwd:enqueue", f"queue {q}, expected exactly [{r}]"))
            if kind == "immix" and (c0.get("mark") == 1 or fin.get("mark") == 1):
                bad.append(("race:fwd:copied-marked", "a marked object was copied / a copied object was marked in place"))
            if kind == "immix" and mask == (1 << n) - 1:
                bad.append(("race:fwd:copied-declined", "every tracer declined (pinned) yet the object was copied"))
            if alone and fin.others("fwd", ptr=True) != c0.others("fwd", ptr=True):
                bad.append(("race:fwd:clobber", f"unrelated bits changed: {c0.set_line()} -> {hx}"))
        elif copies == 0:
            if kind == "copy":
                bad.append(("race:fwd:no-copy", "CopySpace tracers returned without anybody copying"))
            if r != "orig" or fin.get("fwd") != 0 or fin.get("mark") != 1:
                bad.append(("race:fwd:final-state", f"nobody copied: returned {r}, final bits {fin.get('fwd')} mark {fin.get('mark')}"))
            expq = [] if c0.get("mark") == 1 else ["orig"]
            if q != expq:
                bad.append(("race:fwd:enqueue", f"queue {q}, expected {expq}"))
            if kind == "immix" and mask == 0 and c0.get("mark") == 0:
                bad.append(("race:fwd:not-copied", "nobody declined and the object was unmarked, yet nobody copied"))
            if alone and fin.others("fwd", "mark") != c0.others("fwd", "mark"):
                bad.append(("race:fwd:clobber", f"unrelated bits changed: {c0.set_line()} -> {hx}"))
        return bad

    def race_summary(self, cases, outs):
        th, win, kinds = {}, {"thread0": 0, "other": 0, "none": 0}, {}
        for c, o in zip(cases, outs):
            t = c.ops[0].split()
            th[t[3]] = th.get(t[3], 0) + 1
            kinds[t[2]] = kinds.get(t[2], 0) + 1
            res, hx = split_out(o[0] if o else "")
            if hx:
                f = dict(x.split("=", 1) for x in res.split())
                r = f["r"].split(",")[0]
                win["none" if r == "orig" else "thread0" if r == "new:1" else "other"] += 1
        return {"race_threads": th, "race_winner": win, "race_kind": kinds}

    # ---------------------------------------------------------------- multi-object races (objects sharing one metadata byte)
    def group_cases(self, rng, tier):
        """k adjacent objects (side layout: 4 objects' forwarding states per metadata byte; Immix variant: also 8 mark bits per
        byte), T tracers, each tracing ALL k objects starting at a different neighbour; `rounds` rounds per case."""
        ncases, rounds = (48, 120) if tier == "quick" else (400, 600)
        cases = []
        for i in range(ncases):
            k = [4, 2, 4, 8][i % 4]
            nt = rng.choice([2, 3, 4, 4, 4, 6, 8])
            kind = "copy" if i % 3 != 2 else "immix"
            c = fwd_cell(rng, l=0, bits=0)
            c.slot = 0
            # the raced objects start NOT_TRIGGERED_YET; the other forwarding states of the byte keep random values
            c.v["mf"] &= ~((1 << (2 * min(k, 4))) - 1) & 0xff
            if kind == "copy" or rng.random() < 0.5:
                # all raced objects unmarked (CopySpace objects carry no mark bit: model hypothesis `immix = false → m0 = false`);
                # Immix: otherwise random mark bits (an already marked object is neither copied nor queued)
                c.v["mm"] &= ~((1 << k) - 1) & 0xff
            mask = rng.choice([0, 0, 0, (1 << nt) - 1, rng.getrandbits(nt)]) if kind == "immix" else 0
            seed = 0 if i % 2 == 0 else rng.getrandbits(40) | 2      # 0: yield points off, pure parallelism
            cases.append(Case([f"fwd mrace {kind} {nt} {seed} {k} {rounds} {mask}"], ["cfg debug 1", c.set_line()], "group"))
        return cases

    def group_judge_op(self, case, j, obj):
        t = case.ops[0].split()
        return f"fwd judgeat {j} {t[2]} {t[3]} {obj}"

    def group_oracle(self, case, rounds):
        t = case.ops[0].split()
        kind, n, k, mask = t[2], int(t[3]), int(t[5]), int(t[7])
        tpl = Cell.parse_set(case.pre[-1])
        bad, seen = [], set()
        for ri, r in enumerate(rounds):
            if len(r) != k:
                return [("race:fwd:group:shape", f"round {ri}: {len(r)} objects reported for a group of {k}")]
            for j, obj in enumerate(r):
                res, hx = split_out(obj)
                if hx is None:
                    return [("race:fwd:group:shape", f"round {ri} object {j}: {obj}")]
                c0 = tpl.at(j)
                ids = {1 + 64 * j + x for x in range(n)}
                for key, what in self.outcome_bad(kind, n, mask, c0, res, hx, ids, alone=False):
                    key = key.replace("race:fwd:", "race:fwd:group:")
                    if key not in seen:
                        seen.add(key)
                        bad.append((key, f"round {ri}, object {j} of {k} (T={n}): {what}; outcome `{obj}`"))
                # the rest of the group's bytes: forwarding states of objects that are not raced, log / pin / LOS bytes,
                # mark bits (CopySpace never marks; Immix only marks raced objects)
                fin = Cell.parse_hex(0, j, hx)
                keep = ~((1 << (2 * min(k, 4))) - 1) & 0xff
                keep_mm = 0xff if kind == "copy" else (~((1 << k) - 1) & 0xff)
                if (fin.v["mf"] & keep) != (tpl.v["mf"] & keep) or (fin.v["mm"] & keep_mm) != (tpl.v["mm"] & keep_mm) \
                        or any(fin.v[x] != tpl.v[x] for x in ("mg", "mp", "ml")):
                    if "clobber" not in seen:
                        seen.add("clobber")
                        bad.append(("race:fwd:group:clobber", f"round {ri}, object {j}: bits of objects outside the group changed: "
                                                              f"{tpl.set_line()} -> {hx}"))
        return bad

    def group_summary(self, cases, parsed):
        cfg, winners = {}, {}
        for c, rounds in zip(cases, parsed):
            t = c.ops[0].split()
            key = f"{t[2]}/T{t[3]}/k{t[5]}/{'yield' if t[4] != '0' else 'free'}"
            cfg[key] = cfg.get(key, 0) + (len(rounds) if rounds else 0)
            for r in rounds or []:
                ws = set()
                for obj in r:
                    f = dict(x.split("=", 1) for x in obj.split(" | ")[0].split())
                    ws.add(f["r"].split(",")[0])
                w = "nobody-copied" if ws == {"orig"} else f"{len(ws)}-distinct-results-in-group"
                winners[w] = winners.get(w, 0) + 1
        return {"group_rounds_by_config": cfg, "group_round_shapes": winners}


META = {
    "text": "Lean theorems (any number of threads, every interleaving of the atomic steps, CopySpace and Immix variants, one-store "
            "and two-store layouts): one winner at a time, at most one copy, agreement, pointer read only after written, queued "
            "exactly once; outcome_sound links them to the executable verdict. Tie: exact sequential differential of the model "
            "thread against the real object_forwarding functions on four metadata layouts from every cell state, plus real-thread "
            "races (2-16 threads, armed yield points) judged by the Lean predicate and an independent Python oracle; and "
            "multi-object races (2/4/8 objects whose forwarding bits share a side-metadata byte, every tracer traces all of them "
            "in rotation) with every object judged on its own — justified by FwdByte.neighbours_independent: a byte-wide CAS "
            "model of two objects in one byte projects onto the per-object model (spurious failure + retry = stutter). Readers that "
            "are not tracers (SFT::get_forwarded_object of CopySpace / ImmixSpace: weak-reference processing, bindings): "
            "`reader_sound` — at any point of any interleaving an answer `some c` is the one copy, already written; tie: hx_gc op "
            "`fwdwin` queries the real space's SFT entry at every point of a winner's critical section on real objects "
            "(Immix, GenImmix, StickyImmix, SemiSpace, GenCopy; before and after collections).",
    "note": "Proof over the SC interleaving model; partial w.r.t. the code: schedules are sampled, weak memory is out of scope, the "
            "trace_object compositions are transcribed in the harness (callees are the real functions).",
    "technique": "Lean 4 inductive invariant over an unbounded-thread transition system + exact differential + real-thread races "
                 "checked by an executable Lean predicate proved sound",
}


def main(argv=None):
    return CC.main(Spec(), argv, env={"VERIF_PLAN": "Immix"})
