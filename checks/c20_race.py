"""C20 (part `owner view under real threads`): k threads, each the ONLY writer of one field, the fields adjacent (for
widths < 8 bits they share one metadata byte), every thread repeating its own list of atomic accessor calls — all at once.

Theorems (Props/C20Conc.lean): `concurrent_owner_view` — for ANY interleaving of valid atomic calls on the byte-level
memory model, the calls addressing region r return what the same calls return when run alone, and the field ends with
the value they alone produce; `owner_view_interleaving_independent`.  Hence ONE sequential order (thread after thread)
predicts every thread's answers and the final window: the compiled Lean model runs that order, hx_unit runs the real
accessors on real threads (`side race`), the two must agree; an independent Python oracle recomputes the answers from
the array semantics."""
import random, time
from vlib import engine as E
from vlib.engine import Case, Violation
from checks import side_common as sc

THEOREMS = ["Mmtk.SideMeta.stepSpec_other", "Mmtk.SideMeta.stepSpec_congr", "Mmtk.SideMeta.runSpec_owner_view",
            "Mmtk.SideMeta.owner_view_interleaving_independent", "Mmtk.SideMeta.concurrent_owner_view",
            "Mmtk.SideMeta.concurrent_interleaving_independent"]
MODULES = ["MmtkModel.Props.C20Conc"]
KEY = "race:side:owner-view"


def gen_case(rng):
    lb = rng.choice([0, 0, 1, 1, 2, 2, 3, 4, 6])
    for _ in range(100):
        g = sc.rand_geo(rng, max_meta_bytes=64, lb=lb)
        per_byte = max(1, 8 >> lb)
        if g.n >= 2:
            break
    k = min(g.n, rng.choice([2, 3, 4, 8]), 8)
    # first region of the group: aligned so that the group shares a byte when fields are narrower than a byte
    r0 = rng.randrange(0, g.n - k + 1)
    if lb < 3:
        base_bit = g.region_pos(0) % 8
        # regions whose field starts a byte: (base_bit + r*W) % 8 == 0
        cands = [r for r in range(0, g.n - k + 1) if (base_bit + r * g.W) % 8 == 0]
        if cands:
            r0 = rng.choice(cands)
    mx = (1 << g.W) - 1
    def v():
        return rng.choice([0, 1, mx, rng.randrange(0, mx + 1), rng.randrange(0, mx + 1)])
    threads = []
    for t in range(k):
        a = g.d0 + (r0 + t) * g.R + rng.choice([0, 0, g.R - 1])
        ops = []
        for _ in range(rng.randrange(2, 7)):
            op = rng.choice(["fetch_add", "fetch_add", "fetch_sub", "store_atomic", "fetch_update", "fetch_update", "fetch_and",
                             "fetch_or", "load_atomic", "set_zero_atomic"])
            # (compare_exchange_atomic is left out on purpose: on fields narrower than a byte it is a single byte-wide CAS whose
            # expected byte contains the neighbours' bits, so a concurrent update of a neighbour makes it fail although its own
            # field holds `old` — it reports the field's true value and writes nothing, and its callers retry (C18's CasByte
            # model: spurious_failure_then_retry).  The accessors kept here retry internally.)
            if op in ("load_atomic", "set_zero_atomic"):
                ops.append([op, f"{a:#x}"])
            elif op == "cmpxchg":
                ops.append([op, f"{a:#x}", str(v()), str(v())])
            elif op == "fetch_update":
                ops.append([op, f"{a:#x}"] + rng.choice([["add", str(v() or 1)], ["add", "1"], ["const", str(v())]]))
            else:
                ops.append([op, f"{a:#x}", str(v() or 1) if op in ("fetch_add", "fetch_sub") else str(v())])
        threads.append(ops)
    iters = max(1, rng.choice([40, 120, 300]) // max(1, max(len(t) for t in threads)))
    fill = sc.rand_fill(rng, g.nbytes()).hex()
    return g, fill, threads, iters


def lines_of(g, fill, threads, iters):
    head = [g.new_line(), f"side fill {fill}"]
    race = "side race %d %s" % (iters, " ".join(",".join("/".join(o) for o in t) for t in threads))
    seq = []
    for t in threads:
        for _ in range(iters):
            for o in t:
                seq.append("side " + " ".join(o))
    return head, race, seq


def py_oracle(g, fill, threads, iters):
    """array semantics per owner: -> ([[answers]], final window int)"""
    win = sc.win_int(fill)
    full = 1 << g.W
    ans = []
    for t in threads:
        a = int(t[0][1], 0)
        pos = g.field_pos(a)
        f = (win >> pos) & (full - 1)
        out = []
        for _ in range(iters):
            for o in t:
                op, vals = o[0], o[2:]
                if op == "load_atomic":
                    out.append(str(f))
                elif op == "store_atomic":
                    f = int(vals[0]); out.append("-")
                elif op == "set_zero_atomic":
                    f = 0; out.append("-")
                elif op == "cmpxchg":
                    if f == int(vals[0]):
                        out.append(f"ok:{f}"); f = int(vals[1])
                    else:
                        out.append(f"err:{f}")
                elif op == "fetch_add":
                    out.append(str(f)); f = (f + int(vals[0])) % full
                elif op == "fetch_sub":
                    out.append(str(f)); f = (f - int(vals[0])) % full
                elif op == "fetch_and":
                    out.append(str(f)); f &= int(vals[0])
                elif op == "fetch_or":
                    out.append(str(f)); f |= int(vals[0])
                elif op == "fetch_update":
                    out.append(f"ok:{f}")
                    f = int(vals[1]) if vals[0] == "const" else (f + int(vals[1])) % full
        ans.append(out)
        win = (win & ~((full - 1) << pos)) | (f << pos)
    return ans, win


def part(tier, seed, violations, stats, debug=True):
    t0 = time.time()
    exe, err, _ = E.cargo_build("hx_unit", fs="fs_main", release=not debug)
    if exe is None:
        violations.append(Violation("harness-build-failed", err[-1500:], found_input=False, broken="hx_unit build"))
        return
    rng = random.Random(seed * 31 + 20)
    n = 250 if tier == "quick" else 4000
    gens = [gen_case(rng) for _ in range(n)]
    impl_cases, model_cases = [], []
    for g, fill, threads, iters in gens:
        head, race, seq = lines_of(g, fill, threads, iters)
        impl_cases.append(Case(head + [race], ["cfg debug 1" if debug else "cfg debug 0"]))
        model_cases.append(Case(head + seq + ["side dump"], ["cfg debug 1" if debug else "cfg debug 0"]))
    impl = E.run_cases(exe, impl_cases, timeout=1800)
    model = E.run_cases(E.model_exe(), model_cases, timeout=1800)
    seen, nthr, ncalls, dist = set(), 0, 0, {}
    for (g, fill, threads, iters), ic, io, mo in zip(gens, impl_cases, impl, model):
        out = io[-1] if io else "?"
        tok = out.split()
        exp_ans, exp_win = py_oracle(g, fill, threads, iters)
        dist[f"lb{g.lb}/k{len(threads)}"] = dist.get(f"lb{g.lb}/k{len(threads)}", 0) + 1
        nthr += len(threads)
        ncalls += sum(len(t) for t in threads) * iters
        bad = None
        if len(tok) != len(threads) + 2 or tok[0] != "race":
            bad = (KEY, f"`side race` answered `{out[:200]}`")
        else:
            got = [x.split(";") for x in tok[1:-1]]
            gw = sc.win_int(tok[-1])
            for ti, (ga, ea) in enumerate(zip(got, exp_ans)):
                if ga != ea:
                    j = next((i for i, (x, y) in enumerate(zip(ga, ea)) if x != y), min(len(ga), len(ea)))
                    bad = (KEY, f"thread {ti} (sole writer of its field, {len(threads)} threads on adjacent {g.W}-bit fields): call #{j} "
                                f"`{' '.join(threads[ti][j % len(threads[ti])])}` returned {ga[j] if j < len(ga) else '?'}, its own history gives "
                                f"{ea[j] if j < len(ea) else '?'} (Mmtk.SideMeta.concurrent_owner_view)")
                    break
            if bad is None and gw != exp_win:
                bad = (KEY, f"final window {gw:#x} differs from the owners' own histories {exp_win:#x}: a field was overwritten by a neighbour's update")
            # the Lean model's sequential order must predict the same (correspondence)
            if bad is None:
                mres = [m.split()[0] if m else "?" for m in mo[2:-1]]
                flat = [x for ea in got for x in ea]
                mwin = mo[-1].split()[0] if mo else ""
                if mres != flat or sc.win_int(mwin) != gw:
                    bad = ("correspondence:side:race", "the compiled Lean model (thread-after-thread order) and the real threads disagree "
                                                       "although the Python oracle accepts the run")
        if bad and bad[0] not in seen:
            seen.add(bad[0])
            violations.append(Violation(bad[0], bad[1] + f" [race: {' ; '.join(ic.ops)[:600]}]", Case(ic.ops, ic.pre), [out[:2000]],
                                        [";".join(x) for x in exp_ans][:8], bad[0] == KEY))
    stats["evaluations"] = stats.get("evaluations", 0) + n
    stats.setdefault("_distinct", set()).update(("race", i) for i in range(n))
    stats.setdefault("distribution", {})["owner_view_races"] = {"races": n, "threads": nthr, "atomic_calls": ncalls, "by_width_threads": dist,
                                                                 "wall_s": round(time.time() - t0, 1)}
