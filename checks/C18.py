"""C18 — concurrent mark / log / pin state changes succeed exactly once (tie to the code)."""
from checks import conc_common as CC
from checks.conc_common import Cell, Case, split_out

KINDS = ["mark", "immix", "los", "log", "pin", "unpin"]
FIELD_OF = {"mark": "mark", "immix": "mark", "los": "los", "log": "log", "pin": "pin", "unpin": "pin"}


def proto(cell, kind, arg, nursery):
    """(is_done, next, single, old0) — an independent Python reading of the six helpers."""
    if kind == "mark":
        st = 1 if cell.l == 0 else (0 if arg % 2 == 1 else 1)      # in-header mark state flips at release
        return (lambda v: v == st), (lambda v: st), False, None
    if kind == "immix":
        return (lambda v: v == arg), (lambda v: arg), False, None
    if kind == "los":
        mask = 3 if nursery else 1
        return (lambda v: (v & mask) == arg), (lambda v: (v & ~3 | arg) & 3), False, None
    if kind == "log":
        return (lambda v: v == 0), (lambda v: 0), False, None
    if kind == "pin":
        return (lambda v: v == 1), (lambda v: 1), True, 0
    return (lambda v: v == 0), (lambda v: 0), True, 1


def supported(cell, kind):
    return cell.l == 0 or kind not in ("immix", "los")


class Spec(CC.ConcSpec):
    pid = "C18"
    modules = ["MmtkModel.Props.C18", "MmtkModel.Props.C18Byte"]
    theorems = ["Mmtk.CasBit.at_most_one_true", "Mmtk.CasBit.false_means_done", "Mmtk.CasBit.true_means_transition",
                "Mmtk.CasBit.winner_returns_true", "Mmtk.CasBit.single_shot_false_has_winner",
                "Mmtk.CasBit.markProto_wf", "Mmtk.CasBit.logProto_wf", "Mmtk.CasBit.pinProto_wf", "Mmtk.CasBit.losProto_wf",
                "Mmtk.CasBit.unpinProto_wf", "Mmtk.CasBit.losNurseryProto_wf",
                "Mmtk.CasBit.pin_can_fail_spuriously_with_neighbours", "Mmtk.CasBit.outcome_sound",
                # objects whose fields share one metadata byte (byte-wide compare-exchange): every run of the two-field byte
                # model projects, for each field, to a run of the per-object model; per-field theorems and verdict
                "Mmtk.CasByte.pair_inj", "Mmtk.CasByte.proj_exec", "Mmtk.CasByte.neighbours_independent",
                "Mmtk.CasByte.neighbours_independent_pair", "Mmtk.CasByte.cas_leaves_neighbour",
                "Mmtk.CasByte.one_winner_per_field", "Mmtk.CasByte.outcome_sound_per_field",
                "Mmtk.CasByte.outcome_sound_per_field_looping", "Mmtk.CasByte.trues_proj",
                "Mmtk.CasByte.spurious_failure_then_retry", "Mmtk.CasByte.pin_fails_spuriously_next_to_racing_neighbour",
                "Mmtk.CasByte.stale_write_undoes_neighbour"]
    component = "casbit"
    race_component = "casbit"
    relation = ("Mmtk.CasBit.localStep (thread run to `ret`) ≙ MarkState::test_and_mark, ImmixSpace::attempt_mark, "
                "LargeObjectSpace::test_and_mark, ObjectBarrier::log_object, VMLocalPinningBitSpec::{pin,unpin}_object")
    assumptions = [
        "sequentially consistent interleaving semantics (the helpers use SeqCst)",
        "MarkState::test_and_mark, log_object, pin/unpin_object are generic and run on four metadata layouts (side, and three "
        "in-header placements incl. all fields in one byte); ImmixSpace::attempt_mark and LargeObjectSpace::test_and_mark are "
        "methods of space instances: they run on the spaces of a real Immix-plan MMTK<VerifVM> (side metadata, layout 0), on a "
        "fake object outside the spaces (the methods only touch the object's metadata)",
        "races sample schedules; the concurrent neighbour is another object's field in the same byte (side) or another field of "
        "the same object in the same byte (in-header)",
        "multi-object races: side layout only (different objects share a metadata byte only there); the window between the byte "
        "load and the byte CAS inside compare_exchange_atomic has no yield point (add-only hooks cannot put one there): it is hit "
        "by real parallelism over many rounds",
        "pin_object/unpin_object are single-shot: with a concurrent neighbour they may fail spuriously (outside C18's quantifier; "
        "theorem pin_can_fail_spuriously_with_neighbours) — the verdict then only requires at most one `true` and field changed iff one",
    ]
    rule = ("sequential: every layout x slot x helper x field value x random/boundary neighbour bits, 1-4 calls per cell, exact "
            "differential + Python oracle (result = state was not yet transitioned; field = transitioned value; every other bit "
            "unchanged); races: N in 2..16 real threads call one helper on one object, optionally with a concurrent neighbour "
            "writer, outcome judged by Mmtk.CasBit.outcomeOk (Lean, proved sound by outcome_sound) and by the Python oracle; "
            "multi-object races: k in {2,4,8} objects whose fields share ONE side-metadata byte (1-bit mark/log/pin: adjacent 8-byte "
            "objects; 2-bit LOS: objects one page apart), T in 2..12 threads each calling the helper on all k objects starting at a "
            "different neighbour, spin rendezvous per round, yield points on/off; EVERY object of every round judged by outcomeOk "
            "(sound per field: CasByte.outcome_sound_per_field) and by the Python oracle (exactly one winner, transitioned final state "
            "for every object, bits outside the group unchanged)")

    def rand_op(self, rng, cell):
        k = rng.choice(KINDS + ["ismarked", "ispinned"])
        if k == "mark":
            return f"casbit mark {rng.randrange(4)}"
        if k == "immix":
            return f"casbit immix {rng.randrange(2)}"
        if k == "los":
            return f"casbit los {rng.choice([0, 1, 1, 2, 3])} {rng.randrange(2)}"
        return f"casbit {k}"

    def gen(self, rng, tier, debug):
        n = 1500 if tier == "quick" else 20000
        pre0 = [f"cfg debug {1 if debug else 0}"]
        cases = []
        for i in range(n):
            c = CC.rand_cell(rng, l=0 if rng.random() < 0.4 else None)
            ops = [self.rand_op(rng, c) for _ in range(rng.randrange(1, 5))]
            if rng.random() < 0.03:
                ops.append(rng.choice(["casbit", "casbit mark", "casbit los 1", "casbit nonsense", "casbit pin 1"]))
            cases.append(Case(ops, pre0 + [c.set_line()], "seq"))
        return cases

    def corpus(self, debug):
        pre0 = [f"cfg debug {1 if debug else 0}"]
        out = []
        for l in range(4):
            for fill in (0, 0xff):
                c = Cell(l, 6, [0, 0xffff_ffff_ffff_ffff * (fill & 1), 0xffff_ffff_ffff_ffff * (fill & 1)] + [fill] * 5)
                for op in ("casbit mark 0", "casbit mark 1", "casbit immix 1", "casbit immix 0", "casbit los 1 0", "casbit los 1 1",
                           "casbit los 0 0", "casbit log", "casbit pin", "casbit unpin"):
                    out.append(Case([op, op, "casbit ismarked", "casbit ispinned"], pre0 + [c.set_line()], "corpus"))
        return out

    def oracle(self, case, impl_out):
        bad = []
        try:
            cell = Cell.parse_set(case.pre[-1])
        except Exception:
            return bad
        for op, out in zip(case.ops, impl_out):
            t = op.split()
            res, hx = split_out(out)
            if hx is None:
                if out.startswith("panic") or out.startswith("crash"):
                    bad.append(("casbit:panic", f"{op} on {cell.set_line()} -> {out}"))
                    break
                continue
            after = Cell.parse_hex(cell.l, cell.slot, hx)
            if len(t) >= 2 and t[1] in KINDS and res in ("true", "false"):
                kind = t[1]
                arg = int(t[2]) if len(t) > 2 else 0
                nursery = len(t) > 3 and t[3] != "0"
                done, nxt, single, old0 = proto(cell, kind, arg, nursery)
                fld = FIELD_OF[kind]
                v0, v1 = cell.get(fld), after.get(fld)
                exp_true = (v0 == old0) if single else not done(v0)
                if (res == "true") != exp_true:
                    bad.append((f"casbit:{kind}:result", f"{op} on field value {v0} returned {res}"))
                if v1 != (nxt(v0) if exp_true else v0):
                    bad.append((f"casbit:{kind}:state", f"{op}: field {v0} -> {v1}"))
                if after.others(fld) != cell.others(fld):
                    bad.append((f"casbit:{kind}:clobber", f"{op} changed other bits: {cell.set_line()} -> {hx}"))
            elif len(t) >= 2 and t[1] in ("ismarked", "ispinned"):
                exp = cell.get("mark" if t[1] == "ismarked" else "pin") == 1
                if res != ("true" if exp else "false") or after.v != cell.v:
                    bad.append((f"casbit:{t[1]}", f"{op} -> {res}"))
            cell = after
        return bad

    def nontrivial(self, case, out):
        return any(o.startswith("true") for o in out)

    def summarize(self, cases, outs):
        h, r = {}, {}
        for c, o in zip(cases, outs):
            try:
                l = Cell.parse_set(c.pre[-1]).l
            except Exception:
                continue
            for op, x in zip(c.ops, o):
                t = op.split()
                k = f"L{l}/{t[1] if len(t) > 1 else '?'}"
                h[k] = h.get(k, 0) + 1
                rr = x.split(" | ")[0]
                r[rr] = r.get(rr, 0) + 1
        return {"layout_helper": h, "result": r}

    # ---------------------------------------------------------------- real-thread races
    def race_cases(self, rng, tier):
        n = 480 if tier == "quick" else 30000
        cases = []
        for i in range(n):
            kind = KINDS[i % 6]
            l = 0 if kind in ("immix", "los") else i // 6 % 4
            c = CC.rand_cell(rng, l=l)
            arg = {"mark": rng.randrange(2), "immix": 1, "los": rng.choice([0, 1, 1]), "log": 0, "pin": 0, "unpin": 0}[kind]
            nursery = rng.randrange(2) if kind == "los" else 0
            # mostly start from the not-yet-transitioned state
            done, nxt, single, old0 = proto(c, kind, arg, nursery)
            if rng.random() < 0.85:
                for v in range(4):
                    c.put(FIELD_OF[kind], v)
                    if c.get(FIELD_OF[kind]) == v and ((v == old0) if single else not done(v)):
                        break
            nt = rng.choice([2, 2, 3, 4, 4, 6, 8, 8, 12, 16])
            env = 1 if rng.random() < 0.5 else 0
            cases.append(Case([f"casbit race {kind} {nt} {rng.getrandbits(40)} {env} {arg} {nursery}"], ["cfg debug 1", c.set_line()], "race"))
        return cases

    def judge_ops(self, case, out):
        t = case.ops[0].split()
        return [f"casbit judge {t[2]} {t[3]} {t[5]} {t[6]} {t[7]} {out[0] if out else 'crash'}"]

    def race_oracle(self, case, out):
        t = case.ops[0].split()
        kind, n, env, arg, nursery = t[2], int(t[3]), t[5] != "0", int(t[6]), t[7] != "0"
        c0 = Cell.parse_set(case.pre[-1])
        line = out[0] if out else "crash"
        res, hx = split_out(line)
        if hx is None:
            return [("race:casbit:crash", f"race did not finish: {line}")]
        return self.outcome_bad(kind, n, env, arg, nursery, c0, res, hx, alone=not env)

    @staticmethod
    def outcome_bad(kind, n, env, arg, nursery, c0, res, hx, alone):
        """C18 on ONE object: `n` threads called the helper on the object whose initial cell is `c0`; `res` = `t=… f=…`,
        `hx` = its final cell; `env`: other bits of the metadata byte were changing concurrently."""
        fin = Cell.parse_hex(c0.l, c0.slot, hx)
        fin.page = c0.page
        f = dict(x.split("=", 1) for x in res.split())
        nt, nf = int(f["t"]), int(f["f"])
        done, nxt, single, old0 = proto(c0, kind, arg, nursery)
        fld = FIELD_OF[kind]
        v0, v1 = c0.get(fld), fin.get(fld)
        bad = []
        if nt + nf != n:
            bad.append((f"race:casbit:{kind}:count", f"{nt}+{nf} results for {n} threads ({res})"))
        if nt > 1:
            bad.append((f"race:casbit:{kind}:two-winners", f"{nt} threads observed the transition as their own"))
        fresh = (v0 == old0) if single else not done(v0)
        if not single or not env:
            if nt != (1 if fresh else 0):
                bad.append((f"race:casbit:{kind}:winner-count", f"field was {v0} ({'not yet' if fresh else 'already'} transitioned): {nt} winners"))
        if v1 != (nxt(v0) if nt >= 1 else v0):
            bad.append((f"race:casbit:{kind}:final-state", f"field {v0} -> {v1} with {nt} winners"))
        if alone and fin.others(fld) != c0.others(fld):
            bad.append((f"race:casbit:{kind}:clobber", f"other bits changed: {c0.set_line()} -> {hx}"))
        return bad

    def race_summary(self, cases, outs):
        th, kinds, spurious = {}, {}, 0
        for c, o in zip(cases, outs):
            t = c.ops[0].split()
            th[t[3]] = th.get(t[3], 0) + 1
            kinds[f"{t[2]}/env{t[5]}"] = kinds.get(f"{t[2]}/env{t[5]}", 0) + 1
            if t[2] in ("pin", "unpin") and o and o[0].startswith("t=0"):
                spurious += 1
        return {"race_threads": th, "race_kind": kinds, "single_shot_races_without_winner": spurious}

    # ---------------------------------------------------------------- multi-object races (objects sharing one metadata byte)
    def group_cases(self, rng, tier):
        """k objects whose 1-bit (mark / log / pin: 8 per byte) or 2-bit (LOS: 4 per byte) fields share ONE side-metadata byte;
        T threads, each calling the helper on ALL k objects starting at a different neighbour; `rounds` rounds per case."""
        per_kind, rounds = (8, 150) if tier == "quick" else (60, 600)
        cases = []
        for i in range(per_kind * len(KINDS)):
            kind = KINDS[i % 6]
            k = rng.choice([2, 4, 4]) if kind == "los" else [8, 4, 8, 2][i // 6 % 4]
            nt = rng.choice([2, 3, 4, 4, 8, 8, 12])
            arg = {"mark": rng.randrange(2), "immix": 1, "los": rng.choice([0, 1, 1]), "log": 0, "pin": 0, "unpin": 0}[kind]
            nursery = rng.randrange(2) if kind == "los" else 0
            c = CC.rand_cell(rng, l=0, slot=0)
            # mostly: every raced object starts in the not-yet-transitioned state; the other fields of the byte stay random
            mode = rng.random()
            for j in range(k):
                cj = c.at(j, los=(kind == "los"))
                done, nxt, single, old0 = proto(cj, kind, arg, nursery)
                if mode < 0.7 or (mode < 0.9 and rng.random() < 0.5):
                    for v in range(4):
                        cj.put(FIELD_OF[kind], v)
                        if cj.get(FIELD_OF[kind]) == v and ((v == old0) if single else not done(v)):
                            break
                    c.v = cj.v
            seed = 0 if i // 6 % 2 == 0 else rng.getrandbits(40) | 2      # 0: yield points off, pure parallelism
            cases.append(Case([f"casbit mrace {kind} {nt} {seed} {k} {rounds} {arg} {nursery}"], ["cfg debug 1", c.set_line()], "group"))
        return cases

    def group_judge_op(self, case, j, obj):
        t = case.ops[0].split()
        # env = 1: the neighbouring fields of the byte are being changed concurrently (by the racers of the other objects)
        return f"casbit judgeat {j} {t[2]} {t[3]} 1 {t[7]} {t[8]} {obj}"

    def group_oracle(self, case, rounds):
        t = case.ops[0].split()
        kind, n, k, arg, nursery = t[2], int(t[3]), int(t[5]), int(t[7]), t[8] != "0"
        tpl = Cell.parse_set(case.pre[-1])
        los = kind == "los"
        fld = FIELD_OF[kind]
        loc = tpl.fld(fld)[0]
        width = tpl.fld(fld)[2]
        keep = ~((1 << (width * k)) - 1) & 0xff
        bad, seen = [], set()
        for ri, r in enumerate(rounds):
            if len(r) != k:
                return [("race:casbit:group:shape", f"round {ri}: {len(r)} objects reported for a group of {k}")]
            for j, obj in enumerate(r):
                res, hx = split_out(obj)
                if hx is None:
                    return [("race:casbit:group:shape", f"round {ri} object {j}: {obj}")]
                c0 = tpl.at(j, los=los)
                for key, what in self.outcome_bad(kind, n, True, arg, nursery, c0, res, hx, alone=False):
                    key = key.replace("race:casbit:", "race:casbit:group:")
                    if key not in seen:
                        seen.add(key)
                        bad.append((key, f"round {ri}, object {j} of {k} (T={n}): {what}; outcome `{obj}`"))
                fin = Cell.parse_hex(0, 0, hx)
                # fields of objects outside the group in the raced byte; (non-LOS objects are adjacent: all five bytes are shared)
                if (fin.v[loc] & keep) != (tpl.v[loc] & keep) or (not los and any(fin.v[x] != tpl.v[x] for x in ("mf", "mm", "mg", "mp", "ml") if x != loc)):
                    if "clobber" not in seen:
                        seen.add("clobber")
                        bad.append((f"race:casbit:group:{kind}:clobber", f"round {ri}, object {j}: bits outside the group changed: {tpl.set_line()} -> {hx}"))
        return bad

    def group_summary(self, cases, parsed):
        cfg, shapes = {}, {}
        for c, rounds in zip(cases, parsed):
            t = c.ops[0].split()
            key = f"{t[2]}/T{t[3]}/k{t[5]}/{'yield' if t[4] != '0' else 'free'}"
            cfg[key] = cfg.get(key, 0) + (len(rounds) if rounds else 0)
            for r in rounds or []:
                w = sum(1 for obj in r if obj.startswith("t=1 "))
                shapes[f"{w}-of-{len(r)}-objects-with-a-winner"] = shapes.get(f"{w}-of-{len(r)}-objects-with-a-winner", 0) + 1
        return {"group_rounds_by_config": cfg, "group_round_shapes": shapes}


META = {
    "text": "Lean theorems (any number of threads racing on the same object, every interleaving, arbitrary concurrent changes to the "
            "neighbouring bits for the looping variants): at most one `true`, `false` means already transitioned, the winner's CAS is "
            "the transition, exactly one winner once anybody returned; single-shot pin/unpin under no neighbour interference; the "
            "spurious pin failure with a neighbour is exhibited. Tie: exact sequential differential of the model thread against the "
            "six real helpers on four metadata layouts, plus real-thread races (2-16 threads, yield points, concurrent neighbour "
            "writer) judged by the Lean predicate (outcome_sound) and a Python oracle; and multi-object races (2/4/8 objects "
            "whose fields share one side-metadata byte, every thread works through all of them in rotation) with every object "
            "judged on its own — justified by CasByte.neighbours_independent: a two-field byte model whose CAS compares the "
            "whole byte projects, per field, onto the per-object model (the neighbour's transitions are environment steps).",
    "note": "Proof over the SC model; partial w.r.t. the code (sampled schedules). ImmixSpace::attempt_mark / LOS test_and_mark "
            "are exercised on the side layout only (space instances of an Immix-plan MMTK<VerifVM>).",
    "technique": "Lean 4 inductive invariant over an unbounded-thread transition system + exact differential + real-thread races "
                 "checked by an executable Lean predicate proved sound",
}


def main(argv=None):
    return CC.main(Spec(), argv, env={"VERIF_PLAN": "Immix"})
