"""C17 (part `reader`): a non-tracer reader of the forwarding state — `SFT::get_forwarded_object` of the real spaces
(CopySpace, movable ImmixSpace) — queried at every point of the CAS winner's critical section on real objects.

Model: `Mmtk.Fwd.getForwarded` (Model/Fwd.lean); theorems `reader_sound` (at any point of any interleaving an answer
`some c` is the one copy, already written), `reader_none_in_window`, `reader_window_trace` (the answers along the
winner's path are none, none, none, none) and `eager_reader_sees_unwritten_pointer` (the variant that also accepts
BEING_FORWARDED is observably different).  The harness op `fwdwin id` (hx_gc) drives the real functions:
query; attempt_to_forward (CAS 00->10); query; write_forwarding_pointer; query; clear_forwarding_bits; query."""
import json, random, time
from vlib import engine as E, gcrun as G
from vlib.engine import Violation

PLANS = ["Immix", "GenImmix", "StickyImmix", "SemiSpace", "GenCopy"]
THEOREMS = ["Mmtk.Fwd.reader_sound", "Mmtk.Fwd.reader_none_in_window", "Mmtk.Fwd.reader_window_trace",
            "Mmtk.Fwd.eager_reader_sees_unwritten_pointer"]
KEY = "gc:fwd-reader"
EXPECT = "q0=- q1=- q2=- q3=-"     # = Mmtk.Fwd.reader_window_trace


def programs(seed, tier):
    rnd = random.Random(seed * 7919 + 17)
    out = []
    for plan in PLANS:
        for rep in range(1 if tier == "quick" else 6):
            ops, live, nxt = ["bind 0"], [], 0
            for rnd_gc in range(3 if tier == "quick" else 6):
                for _ in range(rnd.randrange(4, 14)):
                    nf, pay = rnd.randrange(0, 4), rnd.choice([0, 8, 16, 40, 200, 1000])
                    ops.append(f"alloc 0 {nxt} {nf} {pay} 8 0 Default {nxt + 1}")
                    live.append(nxt)
                    nxt += 1
                for i in rnd.sample(live, min(len(live), 6)):
                    ops.append(f"fwdwin {i}")
                ops += [f"gc 0 {rnd.randrange(2)}", "snap"]
                for i in rnd.sample(live, min(len(live), 6)):
                    ops.append(f"fwdwin {i}")
            out.append(G.Program(plan, ops, tag=f"fwd-reader:{rep}"))
    return out


def judge(tr):
    """-> [(index, key, what)]"""
    bad = []
    for i, (op, res) in enumerate(tr.pairs):
        if not op.startswith("fwdwin "):
            continue
        if not (res.startswith("fwdwin won=true ") and res.endswith(EXPECT)):
            bad.append((i, KEY, f"`{op}` answered `{res[:200]}`: a reader must see no forwarded object before the CAS, in the "
                                f"BEING_FORWARDED window, after the pointer store (bits still 10) and after the winner released the bits "
                                f"(model: getForwarded = none at each point, Mmtk.Fwd.reader_window_trace / reader_sound)"))
    if tr.rc != 0 and not bad:
        bad.append((len(tr.pairs) - 1, "gc:crash", f"hx_gc exited rc={tr.rc} on the reader program: {tr.stderr_tail[-300:]}"))
    return bad


def part(tier, seed, violations, stats):
    t0 = time.time()
    try:
        G.hx_gc_exe("fs_main")
    except RuntimeError as e:
        violations.append(Violation("harness-build-failed", str(e)[-1500:], found_input=False, broken="hx_gc build"))
        return
    progs = programs(seed, tier)
    traces = G.run_many(progs, jobs=8)
    nq, seen = 0, set()
    for tr in traces:
        nq += sum(1 for op, _ in tr.pairs if op.startswith("fwdwin "))
        for i, key, what in judge(tr):
            if key in seen:
                continue
            seen.add(key)
            n_hdr = len(tr.program.header())
            upto = [op for op, _ in tr.pairs[n_hdr:i + 1] if op != "snap"]
            violations.append(Violation(key, f"[{tr.program.plan}] {what}", {"reader_program": tr.program.with_ops(upto).to_json()},
                                        [r for _, r in tr.pairs[max(0, i - 2):i + 1]], [EXPECT], True))
    stats["races"] = stats.get("races", 0)      # (unchanged; the reader windows are counted separately)
    stats["reader_windows"] = nq
    stats.setdefault("distribution", {})["reader_part"] = {"programs": len(progs), "plans": PLANS, "fwdwin_ops": nq,
                                                           "wall_s": round(time.time() - t0, 1)}


def replay(path):
    data = json.load(open(path))
    prog = G.Program.from_json(data["case"]["reader_program"])
    tr = G.run(prog, timeout=600)
    bad = judge(tr)
    for i, k, w in bad[:5]:
        print(f"  {k}: {w}")
    hit = any(k == data["key"] for _, k, _ in bad)
    print("REPLAY:", "violation reproduced" if hit else "no longer reproduces")
    return 1 if hit else 0
