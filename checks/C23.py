"""C23 — in-header metadata fields are isolated and report their own previous value."""
from vlib import unit
from vlib.engine import Case

HDR = 32  # header index inside the 64-byte window


def field_geometry(bo, nb, tb):
    """(first bit index in window, nbits) of the field, little-endian bit numbering of the window."""
    if nb < 8:
        byte = HDR + (bo >> 3)
        return byte * 8 + (bo & 7), nb
    return (HDR + (bo >> 3)) * 8, 8 * tb


def win_int(hexs):
    return int.from_bytes(bytes.fromhex(hexs), "little")


class Spec(unit.UnitSpec):
    pid = "C23"
    modules = ["MmtkModel.Props.C23"]
    theorems = ["Mmtk.HeaderMeta.loadBits_spec", "Mmtk.HeaderMeta.storeBits_spec", "Mmtk.HeaderMeta.cmpxchgBits_spec", "Mmtk.HeaderMeta.cmpxchgBitsOld_returns_raw_byte_witness", "Mmtk.HeaderMeta.fetchOpBits_spec", "Mmtk.HeaderMeta.fetchAddBits_spec", "Mmtk.HeaderMeta.fetchAndBits_spec", "Mmtk.HeaderMeta.fetchOrBits_spec", "Mmtk.HeaderMeta.fetchUpdateBits_spec", "Mmtk.HeaderMeta.loadWord_spec", "Mmtk.HeaderMeta.storeWord_spec", "Mmtk.HeaderMeta.storeWord_masked_spec", "Mmtk.HeaderMeta.cmpxchgWord_spec", "Mmtk.HeaderMeta.cmpxchgWord_masked_spec", "Mmtk.HeaderMeta.cmpxchgWordOld_returns_unmasked_witness", "Mmtk.HeaderMeta.fetchOpWord_spec", "Mmtk.HeaderMeta.fetchUpdateWord_spec", "Mmtk.HeaderMeta.bits_fields_independent"]
    component = "hdr"
    relation = "Mmtk.HeaderMeta.* ≙ util::metadata::header_metadata::HeaderMetadataSpec accessors"
    assumptions = ["values passed fit the field (API precondition; wider values are exercised as the malformed stream)",
                   "compare_exchange old/new values with a mask lie inside the mask",
                   "sequential semantics of the atomic accessors (interleavings are C18's subject)",
                   "byte-or-wider fields are accessed with T = the type of exactly num_of_bits bits"]
    rule = ("histories of 1..10 accessor calls on a random 64-byte window: sub-byte fields (1..7 bits, every bit offset "
            "-64..63 that does not straddle a byte, plus straddling ones as malformed) and u8/u16/u32/u64 fields at "
            "naturally aligned offsets with and without masks; non-trivial = the surrounding bytes are not all zero "
            "and the op is not a load; distinct = distinct (history, outputs)")

    def gen_op(self, rng):
        if rng.random() < 0.55:
            nb = rng.randrange(1, 8)
            if rng.random() < 0.93:
                byte = rng.randrange(-8, 8)
                sh = rng.randrange(0, 9 - nb)
                bo = byte * 8 + sh
            else:
                bo = rng.randrange(-64, 64)
            tb, mx = 1, (1 << nb) - 1
            msk = "-"
        else:
            tb = rng.choice([1, 2, 4, 8])
            nb = 8 * tb
            k = rng.randrange(-(32 // tb), 32 // tb - 1)
            bo = k * nb if (rng.random() < 0.95 or tb == 1) else k * nb + 8 * rng.randrange(1, tb)
            mx = (1 << nb) - 1
            msk = "-" if rng.random() < 0.5 else str(rng.choice([mx & ~3, mx & ~7, 0xff, mx >> 1, rng.getrandbits(nb)]))
        def v():
            r = rng.random()
            if r < 0.06:
                return rng.getrandbits(8 * tb)          # may exceed a sub-byte field: malformed
            return rng.choice([0, 1, mx, mx - 1 if mx > 1 else 0, rng.randrange(0, mx + 1)])
        def vm():
            x = v()
            return x if msk == "-" else x & int(msk)
        op = rng.choice(["load", "load_atomic", "store", "store_atomic", "cmpxchg", "cmpxchg", "cmpxchg", "fetch_add",
                         "fetch_sub", "fetch_and", "fetch_or", "fetch_update"])
        head = f"hdr {op} {bo} {nb} {tb}"
        if op in ("load", "load_atomic"):
            return f"{head} {msk}"
        if op in ("store", "store_atomic"):
            return f"{head} {v()} {msk}"
        if op == "cmpxchg":
            return f"{head} {vm()} {vm()} {msk}"
        if op == "fetch_update":
            k = rng.choice(["none", f"const {v()}", f"add {v()}"])
            return f"{head} {k}"
        return f"{head} {v()}"

    def gen(self, rng, tier, debug):
        n = 2500 if tier == "quick" else 80000
        cases = []
        for i in range(n):
            style = rng.random()
            if style < 0.15:
                win = bytes(64)
            elif style < 0.3:
                win = bytes([0xff]) * 64
            else:
                win = bytes(rng.getrandbits(8) for _ in range(64))
            ops = [f"hdr new {win.hex()}"]
            first = self.gen_op(rng)
            ops.append(first)
            for _ in range(rng.randrange(0, 10)):
                if rng.random() < 0.6:
                    # same field again (cmpxchg after store etc.), different op
                    t = first.split()
                    o = self.gen_op(rng).split()
                    if (int(o[3]) < 8) == (int(t[3]) < 8) and o[4] == t[4]:
                        o[2], o[3] = t[2], t[3]
                    ops.append(" ".join(o))
                else:
                    ops.append(self.gen_op(rng))
            cases.append(Case(ops))
        return cases

    def corpus(self, debug):
        w = bytearray(64)
        w[32] = 0xF7
        return [Case([f"hdr new {bytes(w).hex()}", "hdr cmpxchg 2 2 1 1 2 -", "hdr cmpxchg 2 2 1 1 3 -"]),   # F1
                Case([f"hdr new {(bytes([0xff]) * 64).hex()}", "hdr cmpxchg 0 64 8 18446744073709551612 8 18446744073709551612"]),  # F2
                Case([f"hdr new {bytes(64).hex()}", "hdr store -1 1 1 1 -", "hdr load -1 1 1 -"])]

    def oracle(self, case, impl_out):
        """Isolation + returned value (+ resulting field value) for every op of the history."""
        bad = []
        win = 0   # a fresh process starts with an all-zero window
        for line, out in zip(case.ops, impl_out):
            t = line.split()
            if t[1] == "new":
                win = win_int(t[2])
                continue
            parts = out.split()
            if len(parts) != 2 or len(parts[1]) != 128:
                return bad  # crash / garbage: reported by the differential
            ret, after = parts[0], win_int(parts[1])
            op, bo, nb, tb = t[1], int(t[2]), int(t[3]), int(t[4])
            args = t[5:]
            if nb < 8 and ((bo & 7) + nb > 8):
                win = after
                continue  # malformed spec
            if nb >= 8 and (bo % (8 * tb) != 0):
                win = after
                continue
            first, width = field_geometry(bo, nb, tb)
            fmask = ((1 << width) - 1) << first
            word = (win >> first) & ((1 << width) - 1)
            msk = None
            if op in ("load", "load_atomic"):
                msk = args[0]
            elif op in ("store", "store_atomic"):
                msk = args[1]
            elif op == "cmpxchg":
                msk = args[2]
            if msk not in (None, "-"):
                if nb < 8:
                    win = after
                    continue  # masks are not allowed on sub-byte fields
                k = int(msk)
                fmask = k << first
            else:
                k = (1 << width) - 1
            field = word & k
            vals = [int(a) for a in args if a.isdigit()]
            if ret == "panic":
                if any(v > ((1 << nb) - 1 if nb < 8 else (1 << width) - 1) for v in vals[:2]):
                    win = after
                    continue  # value wider than the field: rejected by the debug assertion, as documented
                bad.append((f"hdr:{op}:panic", f"`{line}` panicked on a well-formed call"))
                win = after
                continue
            if nb < 8 and any(v > (1 << nb) - 1 for v in vals[:2]) and op != "fetch_update":
                win = after
                continue  # precondition violated (release build): behaviour unspecified
            sub = "bits" if nb < 8 else ("masked" if msk not in (None, "-") else "word")
            # isolation
            if (after & ~fmask) != (win & ~fmask):
                bad.append((f"hdr:{op}:{sub}:touches-other-bits", f"`{line}` changed bits outside its field: window {win:#x} -> {after:#x}"))
            # returned value
            rv = None
            if ret not in ("-",):
                rv = int(ret.split(":")[-1])
            if op in ("load", "load_atomic", "fetch_add", "fetch_sub", "fetch_and", "fetch_or", "cmpxchg", "fetch_update"):
                if rv != field:
                    bad.append((f"hdr:{op}:{sub}:returns-wrong-value", f"`{line}` returned {ret} but the field's previous value was {field}"))
            # resulting field value
            newfield = (after >> first) & k
            exp = field
            full = (1 << (nb if nb < 8 else width))
            if op in ("store", "store_atomic"):
                exp = vals[0] & k
            elif op == "cmpxchg":
                if vals[0] & ~k == 0 and vals[1] & ~k == 0:
                    okexp = field == vals[0]
                    exp = vals[1] if okexp else field
                    if ret.startswith("ok") != okexp:
                        bad.append((f"hdr:{op}:{sub}:wrong-outcome", f"`{line}` reported {ret} but field was {field}"))
                else:
                    exp = newfield
            elif op == "fetch_add":
                exp = (field + vals[0]) % full
            elif op == "fetch_sub":
                exp = (field - vals[0]) % full
            elif op == "fetch_and":
                exp = field & vals[0]
            elif op == "fetch_or":
                exp = field | (vals[0] % full)
            elif op == "fetch_update":
                if args[0] == "const":
                    exp = vals[0] % full
                elif args[0] == "add":
                    exp = (field + vals[0]) % full
            if newfield != exp:
                bad.append((f"hdr:{op}:{sub}:wrong-new-value", f"`{line}`: field {field} -> {newfield}, expected {exp}"))
            win = after
        return bad

    def nontrivial(self, case, out):
        return any(l.split()[1] not in ("new", "load", "load_atomic") for l in case.ops) and case.ops[0] != "hdr new " + "00" * 64

    def summarize(self, cases, outs):
        h, k = {}, {"panic": 0, "ok": 0}
        for c, o in zip(cases, outs):
            for l, r in zip(c.ops, o):
                t = l.split()
                if t[1] == "new":
                    continue
                key = f"{t[1]}:{'bits' if int(t[3]) < 8 else 'u' + t[3]}"
                h[key] = h.get(key, 0) + 1
                k["panic" if r.startswith("panic") else "ok"] += 1
        return {"op:width": h, "outcome": k}


META = {
    "text": "Lean theorems for every accessor (load/store/compare_exchange/fetch_add/sub/and/or/update; sub-byte, byte-or-wider, masked): bits outside the field (outside the mask) are unchanged and the value returned is the field's previous value, for all bit offsets (negative included), widths, header contents. Exact differential of the transcribed accessors on random windows and op histories + independent isolation/return oracle.",
    "note": "Trusted: Lean kernel + standard axioms; hand-written model tied by sampling differential; sequential semantics only (C18 covers races); API preconditions (values fit the field / mask) assumed.",
    "technique": "Lean 4 proof (Nat.testBit reasoning, little-endian word lemmas) + exact differential + independent oracle",
}


def main(argv=None):
    return unit.main(Spec(), argv)
