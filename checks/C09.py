"""C09 — garbage is fully reclaimable (no space leak across GC cycles)."""
from checks import gcmon_common as C
from vlib import gcrun as G

THEOREMS = ["Mmtk.Heap.floorRun_sound", "Mmtk.Heap.floorStep_floor_mono", "Mmtk.Heap.floorRun_bound"]
META = {
    "text": "Cycle programs (`allocate ~40% of the heap (30% on SemiSpace/GenCopy) with varying size mixes, collectable semantics only; drop every root but one 40-byte anchor; [every other cycle: full-heap phase — large-object fillers requested with alloc_with_options(at_safepoint=false) for 1.1-1.5 x the heap, then 4-24 small / medium / large requests that FAIL off a safepoint (~60 failed requests per program), fillers dropped, one extra gc]; gc exhaustive; stats`) run on every collecting plan x {1,4} workers; the monitor requires `used_bytes` after every cycle <= floor + slack, where floor = max(used after the first 3 cycles) and slack = 262144 bytes (64 pages: retained TLAB / copy-allocator blocks), and no allocation may fail (`gc:oom`). Proved: a run the floor rule accepts has every sample after the warm-up bounded by (max of the warm-up samples) + slack (`floorRun_sound`, `floorRun_bound`), the floor never changes after the warm-up (`floorStep_floor_mono`).",
    "note": "Level: proof of the verdict function, partial w.r.t. the code (page accounting is sampled: 10 cycles quick / 40 thorough). Observed: used is CONSTANT from cycle 1 on for every plan (e.g. SemiSpace 45056, Immix 65536, MarkSweep 106496).",
    "technique": "Lean 4 proof (floor rule) + run-time verification of real GC cycles + independent oracle",
    "category": "proof",
}


def main(argv=None):
    return C.run_check("C09", argv, ["MmtkModel.Props.C09"], THEOREMS, "cycles",
                       rule=f"one evaluation = one `stats` sample after `gc _ 1`; floor rule: floor = max(used of the first 3 cycles); every later cycle must have used <= floor + {G.C09_SLACK}; distinct = distinct (plan, workers, used)",
                       assumptions=["NoGC is excluded (it does not collect)", "one 40-byte anchor object stays rooted (F-H: MarkCompact panics without a survivor)"])
