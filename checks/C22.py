"""C22 — side-metadata search and scan agree with a naive region-by-region scan."""
from vlib import unit
from vlib.engine import Case
from checks import side_common as sc
from checks.C20 import geo_of

FINDS = ("find_prev", "find_prev_fast", "find_prev_simple", "find_next", "find_next_fast", "find_next_simple")
SCANS = ("scan", "scan_fast", "scan_simple")


class View:
    """The oracle's own view of one case: geometry + window contents + the two mapped-ness maps."""

    def __init__(self, g, win):
        self.g, self.win = g, win

    def dm(self, r):                     # is the data chunk of region r recorded as mapped?
        a = (r << self.g.lr) - sc.DATA_BASE
        return a >= 0 and self.g.data_mapped(a)

    def fbit(self, r):
        return 8 * self.g.start + (r << self.g.lb)

    def mm(self, r):                     # is the metadata of region r mapped?
        return sc.META_LO <= self.fbit(r) // 8 < sc.META_HI

    def field(self, r):                  # value of the field of region r (metadata outside the window reads 0)
        rel = self.fbit(r) - 8 * self.g.lo
        if rel < 0 or rel + self.g.W > 8 * self.g.nbytes():
            return 0
        return (self.win >> rel) & ((1 << self.g.W) - 1)

    def scope_and_naive(self, prev, A, limit):
        """(in scope?, naive result) for a search from absolute address A."""
        g = self.g
        if prev:
            start_addr = max(A - limit, 0) + 1
            regions = range(A >> g.lr, (start_addr >> g.lr) - 1, -1)
            visited = lambda r: (r << g.lr) >= start_addr
        else:
            end = A + limit
            last = (end - 1) >> g.lr
            regions = range(A >> g.lr, last + 1)
            visited = lambda r: True
        naive, done = None, False
        hole, ok = False, True
        for r in regions:
            d, m_ = self.dm(r), self.mm(r)
            if d and not m_:
                ok = False        # would crash: never generated
            if not d:
                hole = True
            if hole and m_ and self.field(r) != 0:
                ok = False        # non-zero metadata at/behind an unmapped data region: outside MapConsistent
            if not done and visited(r):
                if not d:
                    done = True
                elif self.field(r) != 0:
                    naive, done = (r << g.lr), True
        return ok, naive


class Spec(unit.UnitSpec):
    pid = "C22"
    modules = ["MmtkModel.Props.C22"]
    theorems = ["Mmtk.SideMeta.ctz_spec", "Mmtk.SideMeta.hiBit_spec", "Mmtk.SideMeta.testBit_rangeMask",
                "Mmtk.SideMeta.findFirstBit_spec", "Mmtk.SideMeta.findLastBit_spec",
                "Mmtk.SideMeta.findPrev_own_region_defect", "Mmtk.SideMeta.findPrev_own_region_defect_witness",
                "Mmtk.SideMeta.findPrev_own_region_partial", "Mmtk.SideMeta.findNext_own_region_partial",
                "Mmtk.SideMeta.findPrev_own_region_fixed_below", "Mmtk.SideMeta.findPrev_own_region_fixed_within",
                "Mmtk.SideMeta.findPrev_fast_ne_simple_without_mapConsistent",
                "Mmtk.SideMeta.scan_fast_ne_simple_unaligned_end_witness",
                "Mmtk.SideMeta.scanFast_eq_scanSpec", "Mmtk.SideMeta.scan_fast_eq_naive", "Mmtk.SideMeta.scan_spec",
                "Mmtk.SideMeta.scan_public_spec",
                "Mmtk.SideMeta.findNext_fast_eq_simple", "Mmtk.SideMeta.findNext_spec", "Mmtk.SideMeta.findNext_public",
                "Mmtk.SideMeta.findNext_region0_witness",
                "Mmtk.SideMeta.findPrev_fast_eq_simple", "Mmtk.SideMeta.findPrev_spec", "Mmtk.SideMeta.findPrev_public",
                "Mmtk.SideMeta.findPrevOld_fast_eq_simple"]
    component = "side"
    relation = "Mmtk.SideMeta.{findPrev*, findNext*, scan*} ≙ SideMetadataSpec::{find_prev/next_non_zero_value(_fast|_simple), scan_non_zero_values(_fast|_simple)}"
    assumptions = ["MapConsistent: within the searched range a mapped data region has mapped metadata, and at/behind an unmapped "
                   "data region (in search direction) all readable metadata is zero (what MMTk maintains: metadata is mapped "
                   "with its data chunk and only used chunks carry non-zero metadata)",
                   "scan: region-aligned start/end, range fully mapped (documented precondition)",
                   "log_bytes_in_region ≤ 22 (a region does not exceed the mmap granularity), search_limit_bytes > 0"]
    rule = ("random bitmaps (empty, one bit, sparse, dense, all ones) in a window of real side metadata, all 7 widths for "
            "find (fast, naive and public variants) and scan, search origins and limits ending mid-byte, mid-word, at the "
            "window edges, across an unmapped data chunk and at the edge of mapped metadata; non-trivial = a non-empty "
            "window and a search/scan that returned something or crossed an unmapped chunk; distinct = distinct (case, outputs)")

    def allowed_dmap(self, g):
        """data chunks whose metadata is entirely mapped (a mapped data chunk always has mapped metadata)."""
        mask = 0
        for k in range(64):
            a0 = sc.DATA_BASE + k * sc.CHUNK
            b0 = 8 * g.start + sc.moff_bits(g.lb, g.lr, a0)
            b1 = 8 * g.start + sc.moff_bits(g.lb, g.lr, a0 + sc.CHUNK)
            if b0 // 8 >= sc.META_LO and (b1 + 7) // 8 <= sc.META_HI:
                mask |= 1 << k
        return mask

    def gen(self, rng, tier, debug):
        n = 1000 if tier == "quick" else 40000
        cases = []
        for i in range(n):
            g = sc.rand_geo(rng, max_meta_bytes=rng.choice([8, 24, 64, 64, 160]),
                            edge=rng.choice([None, None, "lo", "hi", "lo", "hi"]),
                            lb=0 if rng.random() < 0.3 else None)
            allowed = self.allowed_dmap(g)
            style = rng.random()
            if style < 0.55:
                dmap = allowed
            elif style < 0.85:     # holes: unmapped data chunks whose metadata is mapped
                dmap = allowed
                for _ in range(rng.randrange(1, 4)):
                    k = rng.choice([(g.d0 >> 22), (g.d0 >> 22) + 1, ((g.d0 + g.n * g.R - 1) >> 22), rng.randrange(0, 64)])
                    dmap &= ~(1 << (k % 64))
            else:
                dmap = allowed & rng.getrandbits(64)
            g.dmap = dmap
            nb = g.nbytes()
            dens = rng.random()
            if dens < 0.12:
                fill = bytes(nb)
            elif dens < 0.3:
                b = bytearray(nb)
                b[rng.randrange(nb)] = 1 << rng.randrange(8)
                fill = bytes(b)
            elif dens < 0.55:
                fill = bytes(rng.choice([0, 0, 0, 0, 0, 1 << rng.randrange(8)]) for _ in range(nb))
            elif dens < 0.65:
                fill = bytes([0xff]) * nb
            elif dens < 0.8:      # zero guards, random window
                lo_g = min(sc.GUARD, nb)
                fill = bytes(lo_g) + bytes(rng.getrandbits(8) for _ in range(max(0, nb - 2 * lo_g))) + bytes(min(lo_g, nb - lo_g))
                fill = fill[:nb]
            else:
                fill = bytes(rng.getrandbits(8) for _ in range(nb))
            ops = [g.new_line(), f"side fill {fill.hex()}"]
            fillb = bytearray(fill)
            total = g.n * g.R
            maxlim = 3000 * g.R
            for _ in range(rng.randrange(1, 12)):
                kind = rng.random()
                if kind < 0.75:
                    op = rng.choice(FINDS)
                    a = g.d0 + rng.choice([0, total - 1, total, rng.randrange(0, total + 1), rng.randrange(0, total + 1),
                                           (rng.randrange(0, g.n + 1)) * g.R])
                    if rng.random() < 0.1:
                        a = max(0, a + rng.choice([-1, 1]) * rng.choice([g.R, 8 * g.R, sc.CHUNK]))
                    a = min(a, 64 * sc.CHUNK - 1)
                    lim = rng.choice([1, 2, g.R - 1, g.R, g.R + 1, 8 * g.R, 64 * g.R, total, total + g.R,
                                      rng.randrange(1, total + 2), rng.randrange(1, maxlim), sc.CHUNK + 5 if g.lr >= 12 else 77])
                    if rng.random() < 0.3:
                        # a handful of regions: the whole search range often sits inside ONE metadata byte
                        # (added after seeded change C22: the in-byte range mask was never exercised)
                        lim = rng.randrange(1, 8) * g.R + rng.randrange(0, g.R)
                    if rng.random() < 0.01 and op in ("find_prev", "find_next"):
                        # limit 0 only through the public entry (its debug_assert!(limit > 0)); the private
                        # _fast/_simple functions are never reached with limit 0 and are not modelled there
                        lim = 0
                    lim = min(lim, maxlim)
                    if g.lb < 3 and rng.random() < 0.35 and g.n * g.W >= 16:
                        # targeted: origin and limit chosen so that the searched bit range lies strictly inside
                        # one metadata byte (start bit > 0, end bit < 8) — the BitsInByte-only path
                        per = 8 // g.W                                  # regions per metadata byte
                        r_byte0 = (-(g.field_pos(g.d0) // g.W)) % per      # first region that starts a byte
                        nbytes_in = (g.n - r_byte0) // per
                        if per >= 4 and nbytes_in >= 1:
                            byte = rng.randrange(0, nbytes_in)
                            idx = rng.randrange(1, per - 1) if per > 2 else 1   # origin's field index in the byte
                            k = rng.randrange(1, idx + 1)                # regions searched (stays in the byte)
                            a = g.d0 + (r_byte0 + byte * per + idx) * g.R + rng.randrange(0, g.R)
                            lim = (a - g.d0) % g.R + (k - 1) * g.R + 1 + rng.randrange(0, g.R) if k > 1 else (a - g.d0) % g.R + 1
                            lim = max(1, lim)
                            if rng.random() < 0.7:
                                # own field zero (no quick return), a non-zero field ABOVE the origin in the same
                                # byte (must never be reported), random fields below it
                                def put(r, v):
                                    p = g.region_pos(r)
                                    if 0 <= p and (p >> 3) < len(fillb):
                                        fillb[p >> 3] = (fillb[p >> 3] & ~(((1 << g.W) - 1) << (p & 7)) & 0xff) | (v << (p & 7))
                                r_own = r_byte0 + byte * per + idx
                                put(r_own, 0)
                                for j in range(1, per - idx):
                                    if rng.random() < 0.6:
                                        put(r_own + j, rng.randrange(1, 1 << g.W))
                                for j in range(1, idx + 1):
                                    if rng.random() < 0.3:
                                        put(r_own - j, rng.randrange(1, 1 << g.W))
                                ops[1] = f"side fill {bytes(fillb).hex()}"
                    ops.append(f"side {op} {a:#x} {lim:#x}")
                else:
                    op = rng.choice(("scan", "scan_fast", "scan_fast", "scan_simple") if g.lb == 0 else ("scan", "scan_simple"))
                    if rng.random() < 0.75:
                        r0 = rng.randrange(0, g.n + 1)
                        r1 = rng.randrange(r0, g.n + 1)
                        st, en = r0 * g.R, r1 * g.R
                    else:
                        st = rng.randrange(0, total + 1)
                        en = rng.randrange(0, total + 1) if rng.random() < 0.1 else rng.randrange(st, total + 1)
                    ops.append(f"side {op} {g.d0 + st:#x} {g.d0 + en:#x}")
            cases.append(Case(ops))
        return cases

    def corpus(self, debug):
        out = []
        # the in-scope disagreement of the pinned code: own region non-zero, its start below data_addr - limit + 1
        g = sc.Geo(0, 3, 0, 64, sc.CHUNK + 64)
        b = bytearray(g.nbytes())
        b[16] = 0x02
        out.append(Case([g.new_line(), f"side fill {bytes(b).hex()}", "side find_prev 0xf 0x7", "side find_prev_fast 0xf 0x7",
                         "side find_prev_simple 0xf 0x7", "side find_prev 0xf 0x8", "side find_next 0xf 0x1"]))
        # one bit, searches ending mid byte / mid word; `cursor + 8 < end` boundary of the scan
        g = sc.Geo(0, 3, 0, 1024, sc.CHUNK + 64)
        b = bytearray(g.nbytes())
        for i in (16, 23, 24, 31, 32, 16 + 127):
            b[i] = 0x81
        out.append(Case([g.new_line(), f"side fill {bytes(b).hex()}", "side scan 0x0 0x2000", "side scan_fast 0x40 0x1fc0",
                         "side scan_fast 0x0 0x400", "side scan_fast 0x0 0x440", "side scan_fast 0x0 0x3c0", "side scan_simple 0x0 0x2000",
                         "side find_prev 0x1fff 0x2000", "side find_prev 0x1000 0x1000", "side find_next 0x8 0x2000",
                         "side find_next 0x1c8 0x38", "side find_next 0x1c8 0x39", "side find_prev 0x3f 0x3f", "side find_prev 0x3f 0x40"]))
        # outside MapConsistent (DESIGN §7): data chunk 1 unmapped, its metadata mapped, a set bit in chunk 0
        g = sc.Geo(0, 12, 0, 3072, sc.CHUNK + 64, dmap=0b101)
        b = bytearray(g.nbytes())
        b[16 + 100] = 1
        out.append(Case([g.new_line(), f"side fill {bytes(b).hex()}", "side find_prev_fast 0x800000 0x600000",
                         "side find_prev_simple 0x800000 0x600000", "side find_prev 0x800000 0x600000"]))
        return out

    def oracle(self, case, impl_out):
        bad = []
        v = None
        for line, out in zip(case.ops, impl_out):
            t = line.split()
            op = t[1]
            if op == "new":
                if not out.startswith("ok"):
                    return bad
                v = View(geo_of(line), 0)
                continue
            if v is None:
                return bad
            g = v.g
            if op == "fill" and out == "ok":
                v.win = sc.win_int(t[2])
            elif op in FINDS:
                a, lim = int(t[2], 0), int(t[3], 0)
                if lim == 0 or out.startswith("crash"):
                    continue
                ok, naive = v.scope_and_naive(op.startswith("find_prev"), sc.DATA_BASE + a, lim)
                if not ok:
                    continue       # outside MapConsistent: the fast and the naive version may differ by design
                exp = "none" if naive is None else str(naive - sc.DATA_BASE)
                A = sc.DATA_BASE + a
                r_own = A >> g.lr
                if (op.startswith("find_prev") and out != exp and v.dm(r_own) and v.field(r_own) != 0
                        and (r_own << g.lr) < max(A - lim, 0) + 1):
                    # the quick check of the fast version returns the origin's own region although its start lies
                    # below `data_addr - limit + 1`; the naive version does not visit it
                    got = "the debug cross-check fast == naive fired" if out.startswith("panic") else f"returned {out}"
                    bad.append(("side:find_prev:own-region-below-limit",
                                f"`{line}` (region size {g.R}): {got}; a region-by-region scan of (data_addr - limit, data_addr] gives {exp}: "
                                f"find_prev_non_zero_value_fast returns the origin's own non-zero region without applying the search limit"))
                    continue
                if out != exp:
                    what = "the debug cross-check fast == naive fired" if out.startswith("panic") else f"returned {out}"
                    bad.append((f"side:{op}:differs-from-naive-scan", f"`{line}`: {what}; a region-by-region scan gives {exp}"))
            elif op in SCANS:
                st, en = int(t[2], 0), int(t[3], 0)
                if st % g.R or en % g.R or st > en or out.startswith("crash"):
                    continue       # unaligned / reversed: caller precondition
                regs = range((sc.DATA_BASE + st) >> g.lr, (sc.DATA_BASE + en) >> g.lr)
                if not all(v.dm(r) for r in regs):
                    continue       # "the data address range must be fully mapped"
                exp = [str((r << g.lr) - sc.DATA_BASE) for r in regs if v.field(r) != 0]
                e = f"{len(exp)}:{','.join(exp)}"
                if out != e:
                    bad.append((f"side:{op}:differs-from-naive-scan", f"`{line}` → {out[:200]}, expected {e[:200]}"))
        return bad

    def nontrivial(self, case, out):
        return any(o not in ("none", "0:", "ok") and not o.startswith("ok ") for o in out[2:])

    def summarize(self, cases, outs):
        h, res, sc_ = {}, {"found": 0, "none": 0, "panic": 0}, {"in-scope": 0, "outside-MapConsistent": 0, "scan-aligned": 0, "scan-precondition": 0}
        for c, o in zip(cases, outs):
            v = None
            for l, r in zip(c.ops, o):
                t = l.split()
                if t[1] == "new" and r.startswith("ok"):
                    v = View(geo_of(l), 0)
                elif t[1] == "fill" and v:
                    v.win = sc.win_int(t[2])
                elif t[1] in FINDS and v:
                    h[t[1]] = h.get(t[1], 0) + 1
                    res["none" if r == "none" else ("panic" if r.startswith("panic") else "found")] += 1
                    lim = int(t[3], 0)
                    if lim:
                        ok, _ = v.scope_and_naive(t[1].startswith("find_prev"), sc.DATA_BASE + int(t[2], 0), lim)
                        sc_["in-scope" if ok else "outside-MapConsistent"] += 1
                elif t[1] in SCANS and v:
                    h[t[1]] = h.get(t[1], 0) + 1
                    st, en = int(t[2], 0), int(t[3], 0)
                    sc_["scan-aligned" if st % v.g.R == 0 and en % v.g.R == 0 and st <= en else "scan-precondition"] += 1
        return {"op": h, "find-result": res, "scope": sc_}


META = {
    "text": "Lean model of find_prev/find_next (fast, naive, public with the debug cross-check) and scan (fast word-at-a-time, naive), transcribed with their word stepping, alignment tests and mapped-ness caching. Proved for every spec, memory, origin, limit and mapping environment in the property's scope (MapConsistent: mapped data => mapped metadata, nothing readable behind an unmapped data region): findPrev_fast_eq_simple, findNext_fast_eq_simple (fast = naive), findPrev_spec / findNext_spec (the result is exactly the nearest region start within the limit whose field is non-zero with no unmapped region before it), findPrev_public / findNext_public (the debug build's internal fast == naive assertion never fires), scanFast_eq_scanSpec, scan_fast_eq_naive, scan_spec, scan_public_spec (the scan yields exactly the regions of [start,end) with a non-zero field, ascending, once each); plus the per-range bit lemmas, the exact characterisation of the pinned code's one in-scope disagreement (findPrev_own_region_defect, repaired by a fix: commit) and decide-checked counter-models outside the scope. Tie: exact differential of all three variants + independent naive-scan oracle.",
    "note": "Side conditions of the fast = naive theorems that come from the code, all explicit hypotheses with examples: table start aligned to the field size, logBits <= logRegion for sub-byte fields, 0 < table start, `mapped a or R <= a` for the forward search (findNext_region0_witness shows it is needed), metaAddr a < 2^64 - 1 and a + 1 < 2^64 for the backward search. Trusted: Lean kernel + standard axioms; hand-written model tied by the sampling differential.",
    "technique": "Lean 4 proof (tiling of the bit interval by break_bit_range, position-level search lemmas, region-level characterisation; all mapping environments) + exact differential of fast/naive/public variants + independent naive-scan oracle",
}


def main(argv=None):
    return unit.main(Spec(), argv)
