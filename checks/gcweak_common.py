"""Shared driver of the whole-collector checks of package gcweak (C05, C06, C07, C08, C12, C13).

Built on vlib/gcrun.py (programs, normalisation, hx_gc builds) and the Lean monitor component `gcw`
(lean/Driver/GCWeak: the snapshot monitor `gcm` + the remembered-set, reference-processor, SATB, VO-bit and
weak-round models). Differences from checks/gcmon_common.py: each property has its own program suite (no
shared trace cache), the runner understands *directives* (ops starting with `!`, expanded at run time by a
Python callback that may look at earlier results — e.g. "poll until the FinalMark pause happened",
"probe every address the last `enum` printed"), and the monitor component is `gcw`."""
import argparse, json, os, re, subprocess, sys, tempfile, threading, time
from concurrent.futures import ThreadPoolExecutor
from vlib import engine as E, gcrun as G
from vlib.engine import Violation

FATAL = ("gc:panic", "gc:crash", "gc:timeout")
PROG = ("prog:ill-formed", "prog:parse", "prog:err", "prog:no-op", "prog:ref-offset")
ANCHOR = ["alloc 0 0 1 0 8 0 Default 63", "vmroot 255 0", "root 0 63 null"]


class Ctx:
    """what a directive sees: `send(op) -> canonical result | None` (recorded in the trace, `snap` injected after a
    pause), `ask(op)` (not recorded: e.g. `events`), `note(op, res)` (a synthetic pair for the monitor, not sent to
    hx_gc), the pairs so far, last known refs, gcs, the program"""
    def __init__(self, send, pairs, refs):
        self.send, self.pairs, self.refs, self.gcs = send, pairs, refs, 0
        self.ask = self.note = self.program = self.burst = None


def run(program, directives=None, timeout=240, auto_snap=True, pre=()):
    """Like gcrun.run (one hx_gc process, line by line, `snap` injected after every observed pause), plus
    directives: an op `!name args…` calls `directives[name](ctx, args)`, which sends ops itself.
    `pre` = extra lines sent before `init` (e.g. `cfg events 1`)."""
    directives = directives or {}
    exe = G.hx_gc_exe(program.fs, program.unified_ref)
    t0 = time.time()
    errf = tempfile.TemporaryFile(mode="w+")
    p = subprocess.Popen([exe], stdin=subprocess.PIPE, stdout=subprocess.PIPE, stderr=errf, text=True, bufsize=1,
                         env=dict(os.environ, RUST_BACKTRACE="0"))
    killer = threading.Timer(timeout, p.kill)
    killer.start()
    pairs, refs = [], {}
    state = {"dead": False, "gcs": 0}

    def raw_send(op):
        if state["dead"]:
            return None
        try:
            p.stdin.write(op + "\n")
            p.stdin.flush()
            line = p.stdout.readline()
        except (BrokenPipeError, OSError):
            line = ""
        if not line:
            state["dead"] = True
            try:
                rc = p.wait(timeout=10)
            except subprocess.TimeoutExpired:
                p.kill(); rc = p.wait()
            pairs.append((op, f"crash:rc={rc}"))
            return None
        res = E.canon(line.rstrip("\n"))
        pairs.append((op, res))
        if res.startswith("fatal") or res.startswith("timeout"):
            state["dead"] = True
        return res

    def send(op):
        quiet = op.startswith("~")          # `~op`: no snapshot after the pause this op may cause
        if quiet:
            op = op[1:]
        t = op.split()
        if t[0] == "ismo" and t[1].startswith("@@"):
            r = refs.get(int(t[1][2:]))
            if r is None:
                return None
            op = f"ismo {r:#x}"
        res = raw_send(op)
        if res is None:
            return None
        if t[0] in ("alloc", "alloco") and res.startswith("a="):
            m = re.search(r"\br=(0x[0-9a-f]+)", res)
            refs[int(t[2])] = int(m.group(1), 16)
        elif t[0] == "snap":
            G._note_refs(res, refs)
        m = G._GCS.search(res)
        if m and int(m.group(1)) != state["gcs"]:
            state["gcs"] = int(m.group(1))
            ctx.gcs = state["gcs"]
            if t[0] != "snap" and auto_snap and not quiet:
                r2 = raw_send("snap")
                if r2 is not None:
                    G._note_refs(r2, refs)
        return res

    def burst(ops):
        """send several ops in ONE write, then read their results: the ops after a pause run without a round trip
        through the pipe, i.e. while concurrent GC work is still executing. `snap` is injected once at the end."""
        if state["dead"] or not ops:
            return []
        try:
            p.stdin.write("\n".join(ops) + "\n")
            p.stdin.flush()
        except (BrokenPipeError, OSError):
            pass
        out, changed = [], False
        for op in ops:
            try:
                line = p.stdout.readline()
            except OSError:
                line = ""
            if not line:
                state["dead"] = True
                try:
                    rc = p.wait(timeout=10)
                except subprocess.TimeoutExpired:
                    p.kill(); rc = p.wait()
                pairs.append((op, f"crash:rc={rc}"))
                break
            res = E.canon(line.rstrip("\n"))
            pairs.append((op, res))
            out.append(res)
            t = op.split()
            if t[0] in ("alloc", "alloco") and res.startswith("a="):
                refs[int(t[2])] = int(re.search(r"\br=(0x[0-9a-f]+)", res).group(1), 16)
            m = G._GCS.search(res)
            if m and int(m.group(1)) != state["gcs"]:
                state["gcs"] = ctx.gcs = int(m.group(1))
                changed = True
            if res.startswith("fatal") or res.startswith("timeout"):
                state["dead"] = True
                break
        if changed and auto_snap and not state["dead"]:
            r2 = raw_send("snap")
            if r2 is not None:
                G._note_refs(r2, refs)
        return out

    def ask(op):
        n = len(pairs)
        res = raw_send(op)
        if res is not None:
            del pairs[n:]
        return res

    ctx = Ctx(send, pairs, refs)
    ctx.ask, ctx.program, ctx.burst = ask, program, burst
    ctx.note = lambda op, res: pairs.append((op, res))
    try:
        hdr = program.header()
        i = hdr.index("init")
        for op in hdr[:i] + list(pre) + hdr[i:] + program.ops:
            if state["dead"]:
                break
            if op.startswith("!"):
                t = op[1:].split()
                directives[t[0]](ctx, t[1:])
                continue
            send(op)
        if not state["dead"]:
            raw_send("quit")
        try:
            p.stdin.close()
        except OSError:
            pass
        try:
            rc = p.wait(timeout=20)
        except subprocess.TimeoutExpired:
            p.kill(); rc = p.wait()
        errf.seek(0)
        err = errf.read()[-1500:]
    finally:
        killer.cancel()
        if p.poll() is None:
            p.kill()
        errf.close()
    return G.Trace(program, pairs, rc, err, round(time.time() - t0, 2))


def run_many(programs, directives=None, jobs=8, timeout=240, pre=()):
    if programs:
        for key in sorted({(p.fs, p.unified_ref) for p in programs}):
            G.hx_gc_exe(*key)
    with ThreadPoolExecutor(jobs) as ex:
        return list(ex.map(lambda p: run(p, directives, timeout, pre=pre), programs))


def monitor(traces, comp="gcw", modes=(), jobs=6):
    """Feed every trace to the Lean monitor component; fills trace.verdicts = [(pair index, key, detail)]."""
    exe = E.model_exe()

    def one(tr):
        ls = [f"{comp} reset"] + [f"{comp} mode {m}" for m in modes]
        if tr.program.mode and tr.program.mode.get("gcw"):
            ls += [f"{comp} mode {m}" for m in tr.program.mode["gcw"]]
        pre = len(ls)
        for op, res in tr.pairs:
            ls.append(f"{comp} op " + op)
            ls.append(f"{comp} res " + res)
        outs, rc, err = E.run_lines(exe, ls, timeout=1200)
        if rc != 0 or len(outs) != len(ls):
            raise RuntimeError(f"mmtk_model lost sync on a trace (rc={rc}, {len(outs)}/{len(ls)} lines): {err[-300:]}")
        v = []
        for k, o in enumerate(outs):
            if o == "ok":
                continue
            idx = (k - pre) // 2 if k >= pre else -1
            parts = o.split(" ", 2)
            v.append((idx, parts[1] if len(parts) > 1 else o, parts[2] if len(parts) > 2 else ""))
        tr.verdicts = v
        return tr
    with ThreadPoolExecutor(jobs) as ex:
        return list(ex.map(one, traces))


def trace_payload(tr, idx):
    lo = max(0, idx - 3)
    return {"program": tr.program.to_json(), "failing_pair": list(tr.pairs[idx]) if 0 <= idx < len(tr.pairs) else None,
            "context": [[o, r[:300]] for o, r in tr.pairs[lo:idx + 1]], "rc": tr.rc, "stderr": tr.stderr_tail[-400:]}


def samples_of(traces, n=3, pick=None):
    out = []
    for tr in traces[:: max(1, len(traces) // n)][:n]:
        prs = [(o, r) for o, r in tr.pairs if pick is None or pick(o, r)]
        out.append({"plan": tr.program.plan, "workers": tr.program.workers, "kind": tr.program.tag, "ops": len(tr.program.ops),
                    "pairs": [[o, r[:160]] for o, r in prs[:6]]})
    return out


TRUSTED = ["Lean 4.33.0 kernel", "axioms ⊆ {propext, Classical.choice, Quot.sound} (audited per theorem this run)",
           "the transcribed models + the shadow heap are the specification; real collections are sampled by the runs recorded below",
           "hx_gc / VerifVM binding (harness/src/vm.rs, rt.rs, bin/hx_gc.rs) reports real memory faithfully",
           "vlib/gcrun.py + checks/gcweak_common.py only transport lines between hx_gc and the Lean monitor"]
LEVEL = "proof (of the monitor's model; partial w.r.t. the code)"


def run_check(pid, argv, modules, theorems, keys, make_suite, oracle, corpus, stats, rule, assumptions, directives=None,
              malformed=None, comp="gcw", pre=(), extra_trusted=(), jobs=8, post=None):
    """keys: verdict keys of this property; make_suite(seed, tier) -> [Program]; oracle(trace) -> [(idx, key, what)];
    corpus: [(stable key, Program, description)]; stats(traces) -> (evaluations, distinct_nontrivial, distribution);
    malformed: [lines] for the monitor robustness test; post(traces) -> [Violation] extra checks."""
    ap = argparse.ArgumentParser()
    ap.add_argument("--tier", default=os.environ.get("VERIF_TIER", "quick"))
    ap.add_argument("--seed", type=int, default=int(os.environ.get("VERIF_SEED", "20260921")))
    ap.add_argument("--replay")
    a = ap.parse_args(argv)
    t0 = time.time()
    r = run_parts(pid, a.tier, a.seed, modules, theorems, keys, make_suite, oracle, corpus, stats, rule, directives=directives,
                  malformed=malformed, comp=comp, pre=pre, jobs=jobs, post=post, replay=a.replay)
    if isinstance(r, int):
        return r
    lean, corr, violations = r
    return E.finish(pid, a.tier, a.seed, t0, lean, corr, violations, level=LEVEL, assumptions=assumptions,
                    trusted=TRUSTED + list(extra_trusted))


def run_parts(pid, tier, seed, modules, theorems, keys, make_suite, oracle, corpus, stats, rule, directives=None,
              malformed=None, comp="gcw", pre=(), jobs=8, post=None, replay=None):
    """the check without its tail: returns (lean dict, correspondence dict, [Violation]) — nothing is written, nothing
    exits (an int is returned only for --replay)."""
    class A:
        pass
    a = A()
    a.tier, a.seed, a.replay = tier, seed, replay
    violations = []
    lean = E.lean_check(modules, theorems, fresh=False)
    lean["targets"] = modules
    if not lean["ok"]:
        violations.append(Violation("proof-broken", f"Lean obligations no longer check: {lean['failures']}", None, None, None,
                                    False, broken=str([f.get("theorem") or f["kind"] for f in lean["failures"]])))
    try:
        G.hx_gc_exe("fs_main", False)
        G.hx_gc_exe("fs_main", True)
    except RuntimeError as e:
        violations.append(Violation("harness-build-failed", str(e)[-1500:], found_input=False, broken="hx_gc build"))
        return lean, {}, violations
    keys = tuple(keys)
    if a.replay:
        d = json.load(open(a.replay))
        prog = G.Program.from_json(d["case"]["program"])
        tr = run(prog, directives, pre=pre)
        monitor([tr], comp)
        hit = [v for v in tr.verdicts if v[1] in keys + FATAL] + [v for v in oracle(tr) if v[1] in keys]
        print("REPLAY:", f"violation reproduced: {hit[0]}" if hit else "no violation on this tree")
        return 1 if hit else 0
    progs = make_suite(a.seed, a.tier)
    E.log(f"{pid}: {len(progs)} programs, {sum(len(p.ops) for p in progs)} ops")
    t1 = time.time()
    traces = run_many(progs, directives, jobs=jobs, pre=pre)
    t2 = time.time()
    monitor(traces, comp)
    t3 = time.time()
    seen = set()
    for tr in traces:
        for idx, key, detail in tr.verdicts or []:
            if key in keys or key in FATAL or key in PROG or key == "gc:panic-op":
                k2 = key if not key.startswith("prog:") else "machinery:" + key
                if (k2, tr.program.plan) in seen:
                    continue
                seen.add((k2, tr.program.plan))
                what = f"{tr.program.plan} w={tr.program.workers} {tr.program.tag}: {key} {detail} at `{tr.pairs[idx][0] if idx >= 0 else '?'}`"
                violations.append(Violation(k2, what, trace_payload(tr, idx), tr.pairs[idx][1][:400] if idx >= 0 else None,
                                            f"viol {key} {detail}", True))
                break
    disagreements = 0
    for tr in traces:
        mine = {(i, k) for i, k, _ in (tr.verdicts or []) if k in keys}
        theirs = {(i, k) for i, k, _ in oracle(tr) if k in keys}
        fm = min(mine) if mine else None
        ft = min(theirs) if theirs else None
        if fm != ft:
            disagreements += 1
            violations.append(Violation("monitor-vs-oracle", f"{tr.program.plan} w={tr.program.workers} {tr.program.tag}: Lean monitor says {fm}, Python oracle says {ft}",
                                        trace_payload(tr, (ft or fm)[0]), None, None, ft is not None,
                                        broken=None if ft is not None else "monitor/oracle agreement"))
    if post:
        violations += post(traces)
    ctr = run_many([p for _, p, _ in corpus], directives, jobs=4, pre=pre) if corpus else []
    if ctr:
        monitor(ctr, comp)
    corpus_report = []
    for (k, prog, desc), tr in zip(corpus, ctr):
        bad = [v for v in tr.verdicts if v[1] in keys or v[1] in FATAL or v[1] == "gc:panic-op"]
        bad += [v for v in oracle(tr) if v[1] in keys]
        corpus_report.append({"key": k, "plan": prog.plan, "still_fails": bool(bad), "observed": bad[0][1] + " " + bad[0][2][:120] if bad else None})
        if bad:
            idx = bad[0][0]
            violations.append(Violation(k, f"{desc} — observed {bad[0][1]} at `{tr.pairs[idx][0]}` -> `{tr.pairs[idx][1][:200]}`",
                                        trace_payload(tr, idx), tr.pairs[idx][1][:400], f"viol {bad[0][1]} {bad[0][2]}", True))
    mal_ok = None
    if malformed:
        outs, rc, _ = E.run_lines(E.model_exe(), malformed)
        mal_ok = rc == 0 and len(outs) == len(malformed) and all(o == "ok" or o.startswith("viol ") or o == "bad-op" for o in outs) \
            and sum(o.startswith("viol ") for o in outs) >= 3
        if not mal_ok:
            violations.append(Violation("monitor-malformed-stream", f"the monitor mishandles a malformed stream: rc={rc} {outs}", malformed, None, outs, False,
                                        broken="monitor robustness"))
    ev, nontriv, dist = stats(traces)
    for tr in traces:
        p = tr.program
        for k in (f"plan:{p.plan}", f"workers:{p.workers}", f"kind:{p.tag}"):
            dist[k] = dist.get(k, 0) + 1
    corr = {
        "evaluations": ev, "distinct_nontrivial": nontriv, "programs": len(traces),
        "traces_validated_against_impl": len(traces) + len(ctr),
        "ops_executed": sum(len(t.pairs) for t in traces), "rule": rule, "distribution": dist, "samples": samples_of(traces),
        "monitor_oracle_disagreements": disagreements, "corpus": corpus_report, "malformed_stream_ok": mal_ok,
        "run_s": round(t2 - t1, 1), "monitor_s": round(t3 - t2, 1), "verdict_keys": list(keys) + list(FATAL),
        "runs_died": sum(1 for t in traces if t.rc != 0),
    }
    return lean, corr, violations
