"""C16 — worker shutdown and fork round-trip every worker exactly once."""
import sys
from checks import sched_common as S

PID = "C16"
MODULES = ["MmtkModel.Props.C16"]
THEOREMS = ["Mmtk.Sched.exit_only_on_request", "Mmtk.Sched.exit_once", "Mmtk.Sched.surrender_once",
            "Mmtk.Sched.goal_completed_once", "Mmtk.Sched.no_work_lost_frame", "Mmtk.Sched.no_work_lost",
            "Mmtk.Sched.respawn_restores", "Mmtk.Sched.gc_after_fork", "Mmtk.Sched.step_invE", "Mmtk.Sched.step_invF",
            "Mmtk.Sched.step_other_exsu",
            "Mmtk.Sched.workers_exit_under_fairness", "Mmtk.Sched.workers_exit_after_goal", "Mmtk.Sched.exit_hypotheses_satisfiable", "Mmtk.Sched.step_late_stable",
            # the exit request arrives while a GC is pending or in progress
            "Mmtk.Sched.exit_request_survives_gc", "Mmtk.Sched.workers_exit_under_fairness_during_gc",
            "Mmtk.Sched.exit_during_gc_hypotheses_satisfiable", "Mmtk.Sched.onLastParked_completing",
            "Mmtk.Sched.onLastParked_keeps_exit_reqs", "Mmtk.Sched.gcPending_exitReq_step", "Mmtk.Sched.creation_prepared_step"]
KEYS = S.COMMON_KEYS + S.STOP_KEYS + ("sched:surrender", "sched:exit-not-once", "sched:respawn-count", "sched:not-quiescent")

META = {
    "text": "Lean model Model/Sched.lean with the goals StopForFork/Shutdown, WorkerCreationState and the pool of surrendered "
            "GCWorker structs. Proved for every reachable state / transition, all interleavings, all n >= 1: a worker is in "
            "the exited state only while an exit goal is current; a worker enters `exited` only through its own park/wake "
            "and leaves it only through its own surrender, a surrendered worker leaves only through respawn (exit_once); "
            "pool size = number of surrendered workers (surrender_once); the exit goal is completed by exactly the n-th "
            "surrender (goal_completed_once); stop/surrender/respawn touch no queue and every parked/exited/surrendered "
            "worker's local deque is empty (no_work_lost); after respawn all workers are at their loop head, Spawned, "
            "parked_workers = 0, no goal current (respawn_restores); the state after respawn is reachable, so C14/C15 apply "
            "to later GCs (gc_after_fork). Tie: programs with repeated fork cycles (prepare_to_fork, join, after_fork) "
            "between GCs on all plans; every MonExit/WorkerLeave/Surrender/SurrenderDone/MonAllExited/GoalCompleted/Respawn "
            "event must be the model's action; the GCs after the fork must again be runs of the model.",
    "note": "That every worker *does* exit is proved under weak fairness (workers_exit_after_goal: once an exit goal is current "
            "every worker reaches `surrendered`; workers_exit_under_fairness: from a pending Shutdown/StopForFork request with no "
            "GC requested meanwhile; workers_exit_under_fairness_during_gc: the request is pending while a Gc request is pending "
            "or a GC is in progress — the GC completes first (gc_request_completes, C14), the completing park of the last parker "
            "either starts the exit goal or, with concurrent work scheduled, leaves the request pending with every worker woken "
            "(exit_request_survives_gc), and then all n workers surrender; hypothesis: no further Gc request after that GC). "
            "Real runs: `fork` between collections, `forkgc` (prepare_to_fork from inside stop_all_mutators / "
            "scan_vm_specific_roots / process_weak_refs on the GC thread, or at resume_mutators from a helper thread) followed by "
            "further GCs and fork cycles, and Shutdown through memory_manager::mmtk_shutdown (`shutdown`, `shutdowngc`; terminal: "
            "this version has no way to respawn after Shutdown). Oracles: every worker exits and surrenders exactly once per "
            "request, nobody exits while the Gc goal is current, every request is served, all threads are joined.",
    "technique": "Lean 4 proof: inductive invariants of an n-thread model; event-log conformance monitor over fork cycles",
    "category": "proof",
}


def build_programs(rng, tier):
    n = 36 if tier == "quick" else 400
    progs = []
    for i in range(n):
        plan = S.ALL_PLANS[i % len(S.ALL_PLANS)]
        w = [1, 2, 4, 3, 8, 16][(i // 3) % 6]
        forks = [1, 2, 3][i % 3]
        body = S.body_storm(rng, plan, n_wide=1, fields=100, depth=100, gcs=forks + 1, mutators=2, eph=i % 2, fork=True,
                            forks=forks)
        progs.append(S.Prog(f"f{i}-{plan}-w{w}-x{forks}", plan, w, body, yseed=0 if i % 2 else rng.randrange(1, 1 << 30),
                            tags={"fork"}))
    # the stop request arrives DURING a collection (seeded regression C16 = C14: the request is lost at the end of the GC)
    progs += S.forkgc_programs(rng, 16 if tier == "quick" else 200)
    return progs


def main(argv=None):
    # the goal bookkeeping (`WorkerGoals`: a stop request stays pending until it is polled, whatever else is pending) is
    # shared with C14: the same unit differential + statement oracle runs here
    from checks.C14 import goals_differential
    return S.run_check(PID, MODULES, THEOREMS, KEYS + ("goals:priority", "goals:set-request-result", "goals:request-lost"),
                       build_programs, argv, META, extra=goals_differential)


if __name__ == "__main__":
    sys.exit(main(sys.argv[1:]))
