"""C15 — stop-the-world stages open in order; each packet runs exactly once."""
import sys
from checks import sched_common as S

PID = "C15"
MODULES = ["MmtkModel.Props.C15"]
THEOREMS = ["Mmtk.Sched.open_only_when_quiescent", "Mmtk.Sched.first_stw_opened_by_packet", "Mmtk.Sched.all_closed_at_end",
            "Mmtk.Sched.quiescent_at_end", "Mmtk.Sched.start_removes", "Mmtk.Sched.exactly_once_partial",
            "Mmtk.Sched.packet_conservation", "Mmtk.Sched.gc_end_accounting", "Mmtk.Sched.step_invK",
            "Mmtk.Sched.generated_wf", "Mmtk.Sched.onLastParked_opens", "Mmtk.Sched.onLastParked_gc_end",
            "Mmtk.Sched.updateLoop_opens", "Mmtk.Sched.step_other",
            "Mmtk.Sched.exactly_once", "Mmtk.Sched.ids_partition", "Mmtk.Sched.ids_nodup",
            "Mmtk.Sched.ids_classes_disjoint", "Mmtk.Sched.ids_complete", "Mmtk.Sched.runs_at_most_once",
            "Mmtk.Sched.ended_stable", "Mmtk.Sched.step_invU"]
KEYS = S.COMMON_KEYS + ("sched:not-quiescent", "sched:open-while-unparked", "sched:open-before-drained",
                        "sched:closed-nonempty", "sched:poll-closed-bucket", "sched:packet-twice", "sched:packet-never-run",
                        "sched:nested-start", "sched:end-without-start", "sched:start-without-poll",
                        "sched:stw-open-at-resume")

META = {
    "text": "Lean model Model/Sched.lean with the stage table regenerated from the linked crate (order, is_stw, "
            "is_sequentially_opened, ...; a changed stage order changes the model). Proved for every transition from every "
            "reachable state, all n >= 1, every well-formed stage table (the generated one is: generated_wf): a sequentially "
            "opened bucket goes closed->open only in the park transition of the last parked worker, with all other workers "
            "parked, a Gc goal current and every enabled bucket of its open condition empty (open_only_when_quiescent, via a "
            "loop invariant of update_buckets); the first STW bucket is opened only by a running packet after "
            "stop_all_mutators; the transition that completes a GC leaves every STW bucket closed and empty, no worker "
            "running and every local deque empty (all_closed_at_end, quiescent_at_end). Tie: event-log conformance of real "
            "GCs — inside on_last_parked the model predicts the exact sequence of BucketSchedSentinel / BucketOpen / "
            "UpdateBuckets / BucketClose / resume events; packet start/end, poll, steal and batch events must be enabled "
            "model actions; Python oracles re-check opens, closes, duplicate / missing packet executions on the log alone.",
    "note": "'Exactly once' is proved in counting form: added = queued + started and started = running + ended in every "
            "reachable state (packet_conservation), a packet starts only by being removed from its container, and at the end "
            "of a GC nothing runs, all deques/designated queues/STW queues are empty and started = ended "
            "(gc_end_accounting). Exactly-once is proved in full (exactly_once, ids_partition, ids_nodup, ids_classes_disjoint, runs_at_most_once: in every reachable state the packet ids added so far are partitioned into queued / running / ended with no id twice; at the end of a GC every packet has ended exactly once, except a packet still parked in a sentinel slot, which `sentinelRun` shows is reachable); packet ids are also checked on every replayed GC by monitor and oracle. "
            "Exemptions stated in the theorem file: packets pushed by mutators "
            "into closed buckets run in the next GC; Concurrent-bucket packets run after the pause.",
    "technique": "Lean 4 proof: loop invariants + transition lemmas of an n-thread model; event-log conformance monitor",
    "category": "proof",
}


def build_programs(rng, tier):
    return S.gen_programs(rng, tier, want_fork=False, count=40 if tier == "quick" else 500)


def main(argv=None):
    return S.run_check(PID, MODULES, THEOREMS, KEYS, build_programs, argv, META)


if __name__ == "__main__":
    sys.exit(main(sys.argv[1:]))
