"""C29 — discontiguous chunk allocation keeps the region map consistent (Map32)."""
from vlib import unit
from vlib.engine import Case
from checks import layoutlib

FIRST, LAST = 100, 131
N = LAST - FIRST + 1


class Sim:
    """Generator-side run-level simulation of the region map (first fit along the free-list order); used only to
    produce well-formed histories (valid region starts / list heads). The oracle below does not use it."""

    def __init__(self):
        self.runs = {FIRST: (N, True)}      # start -> (size, free)
        self.order = [FIRST]
        self.lists = {}                      # space id -> list of region starts, head first

    def alloc(self, n):
        for u in self.order:
            s = self.runs[u][0]
            if s >= n:
                self.order.remove(u)
                if s > n:
                    self.runs[u + n] = (s - n, True)
                    self.order.insert(0, u + n)
                self.runs[u] = (n, False)
                return u
        return None

    def free(self, u):
        s = self.runs[u][0]
        start, end = u, u + s
        for a, (sz, fr) in list(self.runs.items()):
            if fr and a + sz == u:
                start = a
            if fr and a == u + s:
                end = a + sz
        for a in [a for a in self.runs if start <= a < end]:
            if a in self.order:
                self.order.remove(a)
            del self.runs[a]
        self.runs[start] = (end - start, True)
        self.order.insert(0, start)


class Spec(unit.UnitSpec):
    pid = "C29"
    modules = ["MmtkModel.Props.C29", "MmtkModel.Props.C29PR"]
    theorems = ["Mmtk.Map32.freeNoLock_avail", "Mmtk.Map32.allocate_avail", "Mmtk.Map32.freeNoLock_unlinks",
                "Mmtk.Map32.freeNoLock_clears_descriptors", "Mmtk.Map32.allocate_sets_descriptors",
                "Mmtk.Map32.inv_init", "Mmtk.Map32.inv_allocate", "Mmtk.Map32.inv_free", "Mmtk.Map32.inv_freeAll",
                "Mmtk.Map32.freeAll_spec", "Mmtk.Map32.inv_step", "Mmtk.Map32.step_isSome", "Mmtk.Map32.history_inv",
                "Mmtk.Map32.history_no_panic", "Mmtk.Map32.history_inv_init", "Mmtk.Map32.history_regions_disjoint",
                "Mmtk.Map32.history_descriptor_exact", "Mmtk.Map32.history_links_exact",
                "Mmtk.Map32.history_avail_exact", "Mmtk.Map32.history_walk", "Mmtk.Map32.allocate_ok",
                "Mmtk.Map32.alloc_spec", "Mmtk.Map32.alloc_none_iff", "Mmtk.Map32.freeRun_spec",
                "Mmtk.Map32.freeRun_eq_strong", "Mmtk.Map32.finalize_fl", "Mmtk.Map32.alloc_full", "Mmtk.Map32.freeRun_full",
                "Mmtk.Map32.freeAll_spec_gen", "Mmtk.Map32.invX_init", "Mmtk.Map32.invX_allocate",
                "Mmtk.Map32.invX_free", "Mmtk.Map32.invX_freeAll", "Mmtk.Map32.history_invX",
                "Mmtk.Map32.alloc_fails_exact", "Mmtk.Map32.history_alloc_fails_exact",
                # page-resource layer (Props/C29PR.lean): every space's own head is the head of the list of the regions it owns
                "Mmtk.Map32.pinv_init", "Mmtk.Map32.pinv_grow", "Mmtk.Map32.grow_ok", "Mmtk.Map32.pinv_release",
                "Mmtk.Map32.release_isSome", "Mmtk.Map32.pinv_releaseAll", "Mmtk.Map32.releaseAll_isSome",
                "Mmtk.Map32.pr_history_inv", "Mmtk.Map32.pr_history_no_panic", "Mmtk.Map32.pr_history_inv_init",
                "Mmtk.Map32.head_is_list_head", "Mmtk.Map32.pr_history_walk", "Mmtk.Map32.pr_history_owned_regions"]
    component = "map32"
    relation = ("Mmtk.Map32.* ≙ util::heap::layout::map32::Map32 (+ run-level behaviour of util::freelist) via verif::layout::map32; "
                "Mmtk.Map32.PR.{grow,release,releaseAll} ≙ util::heap::pageresource::CommonPageResource::{grow_discontiguous_space, "
                "release_discontiguous_chunks, release_all_chunks} over one shared private Map32 via verif::layout::dpr")
    assumptions = ["histories follow the callers' protocol (`Pre`): allocate with k >= 1 and head = 0 or the current head of a list; "
                   "free of the start of an allocated region; free_all from 0 or a chunk on a list of at most 4097 regions (the "
                   "model's two free_all loops are fuel-bounded at 4096; the Rust loops are not)",
                   "the region map is modelled at run level (partition into runs + free-list order); the bit-level table is C26's",
                   "single-threaded use (Map32's own mutex); global SFT_MAP = 32-entry space map (default layout), cleared harmlessly",
                   "page-resource layer: histories follow `PPre` (grow with k >= 1; release of a region the space owns; release_all of a "
                   "space owning at most 4097 regions); that the head passed to allocate_contiguous_chunks is 0 or a list head is now a "
                   "CONSEQUENCE of the invariant (PInv.head_ok), not an assumption",
                   "whole-GC part: 4 (quick) / 12 (thorough) programs under `cfg layout compressed` (real Map32 as VM_MAP, real page "
                   "resources of the plan's spaces); the statement is evaluated on `regions` (lists walked from every page resource's "
                   "own head), the objects known to be live, and the available-chunk count"]
    rule = ("histories of 4..40 ops on a private Map32 finalised over chunks 100..131: allocate_contiguous_chunks for 1..4 "
            "spaces (own descriptor, own region list; sizes 1..12, exhaustion included), free_contiguous_chunks of list heads / "
            "middles / tails, free_all_chunks from any region of a list, walks of every list and descriptor/avail dumps after "
            "every op; malformed stream (debug profile): double free of a free run start, ops after the panic. non-trivial = "
            "at least one free of a middle/tail region or an exhausted allocation; distinct = distinct (history, outputs). "
            "component `dpr`: 1..4 CommonPageResources over one private Map32 (chunks 100..131), histories of 4..35 grow (1..33 chunks) / "
            "release of the head (2 in 5), tail, middle region / release_all / state; after EVERY op: every space's real head, the "
            "list walked from it (start:chunks:prev), all descriptors, avail; malformed (debug): double release. whole-GC: large "
            "objects of 2..4 chunks allocated and dropped head/tail/middle-first under GenImmix, SemiSpace, MarkSweep, Immix "
            "(thorough: + GenCopy, StickyImmix, MarkCompact, PageProtect) with the compressed-pointer layout")

    def gen(self, rng, tier, debug):
        n = 400 if tier == "quick" else 20000
        cases = []
        for i in range(n):
            sim = Sim()
            ops = ["map32 new"]
            nspaces = rng.randrange(1, 5)
            descs = [4 * (k + 1) for k in range(nspaces)]
            malformed = debug and rng.random() < 0.1
            for j in range(rng.randrange(4, 41)):
                r = rng.random()
                sp = rng.randrange(nspaces)
                lst = sim.lists.setdefault(sp, [])
                if r < 0.5 or not any(sim.lists.values()):
                    k = rng.choice([1, 1, 2, 3, 4, 5, 8, 12, rng.randrange(1, 34)])
                    head = lst[0] if lst else 0
                    ops.append(f"map32 alloc {descs[sp]} {k} {head}")
                    c = sim.alloc(k)
                    if c is not None:
                        lst.insert(0, c)
                elif r < 0.8:
                    cand = [s for s in sim.lists if sim.lists[s]]
                    sp = rng.choice(cand)
                    lst = sim.lists[sp]
                    pos = rng.choice([0, len(lst) - 1, rng.randrange(len(lst))])
                    c = lst.pop(pos)
                    ops.append(f"map32 free {c}")
                    sim.free(c)
                    if malformed and rng.random() < 0.5 and c in sim.runs and sim.runs[c][1]:
                        ops.append(f"map32 free {c}")      # double free of a free run start → debug assertion
                        ops.append(f"map32 alloc {descs[sp]} 1 0")
                        ops.append("map32 state")
                        break
                elif r < 0.9:
                    cand = [s for s in sim.lists if sim.lists[s]]
                    sp = rng.choice(cand)
                    lst = sim.lists[sp]
                    p = rng.randrange(len(lst))
                    ops.append(f"map32 freeall {lst[p]}")
                    # the code frees the next-chain first, then the prev-chain, then the chunk itself
                    for c in lst[p + 1:] + lst[:p][::-1] + [lst[p]]:
                        sim.free(c)
                    lst.clear()
                else:
                    ops.append("map32 state")
                for s in range(nspaces):
                    l = sim.lists.get(s, [])
                    ops.append(f"map32 walk {l[0] if l else 0}")
            cases.append(Case(ops))
        # the page-resource layer: CommonPageResource heads over one private Map32 (component `dpr`)
        return cases + layoutlib.dpr_gen(rng, 300 if tier == "quick" else 15000, debug)

    def corpus(self, debug):
        return layoutlib.DPR_CORPUS + [Case(["map32 new", "map32 alloc 4 3 0", "map32 alloc 4 2 100", "map32 alloc 8 5 0", "map32 alloc 4 1 103",
                      "map32 walk 110", "map32 walk 105", "map32 free 103", "map32 walk 110", "map32 alloc 8 2 105",
                      "map32 walk 103", "map32 freeall 100", "map32 walk 103", "map32 alloc 4 40 0", "map32 alloc 4 21 0", "map32 state"])]

    def oracle(self, case, impl_out):
        if case.ops and case.ops[0].startswith("dpr "):
            return layoutlib.dpr_oracle(case, impl_out, want=("pr", "map32", "dpr"))
        try:
            return self._oracle(case, impl_out)
        except Exception as e:       # output that is neither a result nor a panic line
            return [("map32:unparsable-output", f"cannot interpret the implementation's output ({e!r}): {impl_out[:6]}")]

    def _oracle(self, case, impl_out):
        """C29's statement evaluated on the implementation's outputs only."""
        bad = []
        regions = {}        # start -> (size, desc)
        lists = []          # each: list of starts, head first
        dead = False

        def check_state(op, txt):
            try:
                av, ds = txt.split()
                av = int(av.split("=")[1]); ds = [int(x) for x in ds.split("=")[1].split(",")]
            except Exception:
                return
            exp = [0] * (N + 2)
            for s, (sz, d) in regions.items():
                for c in range(s, s + sz):
                    if FIRST - 1 <= c <= LAST + 1:
                        exp[c - (FIRST - 1)] = d
            if ds != exp:
                bad.append(("map32:descriptor-exact", f"{op}: descriptors {ds} ≠ owners {exp}"))
            if av != N - sum(sz for sz, _ in regions.values()):
                bad.append(("map32:avail-exact", f"{op}: avail={av} but {N - sum(sz for sz, _ in regions.values())} chunks are not allocated"))

        for op, out in zip(case.ops, impl_out):
            t = op.split()
            if out.startswith("panic") or out.startswith("crash") or out == "no-instance":
                dead = True
                continue
            if dead:
                continue
            if t[1] == "new":
                regions, lists = {}, []
                check_state(op, out[3:])
            elif t[1] == "alloc":
                d, k, head = int(t[2]), int(t[3]), int(t[4])
                c, rest = out.split(" ", 1)
                c = int(c)
                if c != 0:
                    if c < FIRST or c + k - 1 > LAST or any(s < c + k and c < s + sz for s, (sz, _) in regions.items()):
                        bad.append(("map32:regions-disjoint", f"{op}: region [{c},{c + k}) overlaps an allocated region or leaves the range"))
                    regions[c] = (k, d)
                    for l in lists:
                        if l and l[0] == head:
                            l.insert(0, c); break
                    else:
                        lists.append([c])
                elif k <= max([0] + self._free_runs(regions)):
                    bad.append(("map32:alloc-fails", f"{op}: returned 0 although a free run of {k} chunks exists"))
                check_state(op, rest)
            elif t[1] == "free":
                c = int(t[2])
                nn, rest = out.split(" ", 1)
                if c in regions:
                    if int(nn) != regions[c][0]:
                        bad.append(("map32:free-size", f"{op}: freed {nn} chunks, region had {regions[c][0]}"))
                    del regions[c]
                    for l in lists:
                        if c in l: l.remove(c)
                check_state(op, rest)
            elif t[1] == "freeall":
                c = int(t[2])
                for l in lists:
                    if c in l:
                        for x in l: regions.pop(x, None)
                        l.clear()
                check_state(op, out[3:])
            elif t[1] == "state":
                check_state(op, out)
            elif t[1] == "walk":
                h = int(t[2])
                got = [] if out == "-" else [tuple(int(x) for x in e.split(":")) for e in out.split(",")]
                exp = next((l for l in lists if l and l[0] == h), [] if h == 0 else None)
                if exp is None or (not exp and not got):
                    continue
                if [g[0] for g in got] != exp:
                    bad.append(("map32:links-exact", f"{op}: next-links visit {[g[0] for g in got]}, allocated regions of the list are {exp}"))
                elif any(g[1] != regions[g[0]][0] for g in got) or [g[2] for g in got] != [0] + exp[:-1]:
                    bad.append(("map32:links-exact", f"{op}: sizes / prev links wrong: {got}"))
        seen, res = set(), []
        for k, w in bad:
            if k not in seen:
                seen.add(k); res.append((k, w))
        return res

    @staticmethod
    def _free_runs(regions):
        used = [False] * N
        for s, (sz, _) in regions.items():
            for c in range(s, s + sz):
                if FIRST <= c <= LAST: used[c - FIRST] = True
        runs, cur = [], 0
        for u in used:
            if u:
                if cur: runs.append(cur)
                cur = 0
            else:
                cur += 1
        if cur: runs.append(cur)
        return runs

    def nontrivial(self, case, out):
        if case.ops and case.ops[0].startswith("dpr "):
            return layoutlib.dpr_nontrivial(case, out)
        return any(o.startswith("0 ") for o in out) or sum(1 for o in case.ops if " free" in o) >= 2

    def summarize(self, cases, outs):
        h, k = {}, {}
        pr = {}
        layoutlib.dpr_summarize(cases, outs, h, pr)
        for c, o in zip(cases, outs):
            for op, out in zip(c.ops, o):
                if op.startswith("dpr "):
                    continue
                t = op.split()[1]
                h[t] = h.get(t, 0) + 1
                if t == "alloc":
                    r = "exhausted" if out.startswith("0 ") else "panic" if out.startswith("panic") else "ok"
                    k[r] = k.get(r, 0) + 1
        return {"op": h, "alloc_outcome": k, "page_resource": pr}


META = {
    "text": 'Page-resource layer added: Lean model PR (per-space head_discontiguous_region over the shared Map32; grow / release / release_all transcribed from pageresource.rs) with the invariant PInv proved over all protocol-respecting histories (head_is_list_head, pr_history_walk: the walk from the REAL head visits exactly the regions the space owns; pr_history_no_panic) and a decide-witness that reading the successor after the free loses the list; exact differential on several CommonPageResources over one private Map32 (component dpr) + statement oracle after every op; real GC runs under the compressed-pointer layout (Map32 as VM_MAP) with region lists walked from every space\'s own head, checked against live objects and the available-chunk count. Executable Lean model of Map32 (run-level region map with first-fit free-list order, prev/next links, descriptors, avail) compared exactly with a private Map32 on alloc/free/free-all histories for several spaces (heads, middles, tails, exhaustion, coalescing); the property statement (regions disjoint, descriptors exact, links exact, avail exact) is evaluated on the implementation after every op. Lean: the inductive invariant Inv (regions_disjoint, descriptor_exact, links_exact, avail_exact + the run-level free-list invariant) is proved for the finalised state and preserved by allocate / free / free_all; history_inv, history_no_panic (no assertion of the code fires on a protocol-respecting history) and the four user-facing corollaries follow by induction over operation lists; alloc_fails_exact: an allocation returns 0 only when no run of k free chunks exists.',
    "note": 'Trusted: hand-written model, sampling differential, add-only hooks (private Map32, prev_link accessor, global SFT map initialised).',
    "technique": 'Lean 4 proof (inductive invariant over all protocol-respecting histories of the run-level Map32 model) + exact differential + statement oracle',
}


def main(argv=None):
    return layoutlib.multi_main([Spec()], argv, extra=layoutlib.gc_part("C29", ("pr:", "map32:", "gc:")))
