"""C10 — Out-of-memory and allocation-option contract (Lean proof over the slow-path loop model +
differential run of the real allocator through hx_gc)."""
import argparse, json, os, random, re, sys, time
from concurrent.futures import ThreadPoolExecutor
from vlib import engine as E
from vlib.engine import Violation

PID = "C10"
N = "Mmtk.OOM."
THEOREMS = [N + t for t in [
    # the loop on this tree (after the two `fix:` commits)
    "oom_only_after_gc_or_obvious", "no_oom_call_when_disallowed", "oom_returns_null",
    "obvious_fails_immediately", "no_block_when_not_safepoint", "not_safepoint_one_attempt",
    "overcommit_gets_pages", "terminates", "terminates_obvious",
    # the loop of the pinned tree: why the repairs were needed
    "old_oom_only_after_gc_or_obvious", "old_oom_returns_null", "old_no_block_when_not_safepoint",
    "old_not_safepoint_one_attempt", "old_overcommit_gets_pages",
    "old_no_oom_call_when_disallowed_partial", "F5_witness", "old_no_oom_call_when_disallowed_FAILS",
    "old_obvious_fails_immediately_partial", "F6_diverges", "F6_witness_diverges", "old_obvious_fails_immediately_FAILS",
]]

META = {
    "text": "The retry loop of Allocator::alloc_slow_inline (with handle_obvious_oom_request, Space::acquire / not_acquiring) is a Lean state machine whose unknowns (poll, page resource, the global emergency_collection / allocation_success flags) are per-iteration environment answers; the clauses are proved for every request, every environment and every fuel. Two clauses were FALSE on the pinned tree (F5: the emergency branch called out_of_memory although allow_oom_call=false; F6: a request larger than the heap with allow_oom_call=false at a safepoint never left the loop): both were repaired by `fix:` commits, the model of the old loop is kept (`slowPathOld`) with kernel-checked witnesses, and all clauses + termination (under an explicit GC-progress hypothesis) are proved for the loop on this tree. Tie to the code: hx_gc programs fill small heaps of 9 plans with live data and issue alloc_with_options for every option combination and size class; every observation (result, out_of_memory calls, block_for_gc calls, pauses) is checked by a Python oracle (the clauses themselves) and must be a possible run of the Lean model (`oom accept`). The three defects found (F5, F6, and the large-object space indexing past its free list when pushed beyond its address range) are repaired; their programs stay in the corpus as regressions.",
    "note": "Trusted: Lean kernel; hx_gc/VerifVM counters (out_of_memory, block_for_gc, pauses); the model's environment abstraction (one Space::acquire per alloc_slow_once; mutator thread; stress-GC paths not distinguished). GC outcomes are environment choices: termination is proved under an explicit GC-progress hypothesis. Request sizes are limited to < 4 GiB by the harness object header.",
    "technique": "Lean 4 proof over a transcribed loop model (all environments), counter-example witnesses by kernel `decide`, differential acceptance of real runs by the model",
    "category": "proof",
}

PLANS = ["SemiSpace", "GenCopy", "Immix", "GenImmix", "StickyImmix", "MarkSweep", "MarkCompact", "PageProtect", "NoGC"]
HEAPS_MB = [2, 8, 16, 8]
# Third defect met while building this check (not in DESIGN.md): an allow_overcommit request that pushes the
# large-object space past the capacity of its page-resource free list panics with an index out of bounds in
# RawMemoryFreeList (observed capacity: 1024 pages for 2/4 MB heaps, 3072 for 8 MB, 7168 for 16 MB).
# The random stream keeps the overcommitted LOS pages below that; one dedicated program reproduces it.
LOS_LIMIT_PAGES = {2: 1024, 8: 3072, 16: 7168}
KEY_OVERCOMMIT_OOB = "gc:overcommit-freelist-oob"
COMBOS = [(o, s, c) for o in (0, 1) for s in (0, 1) for c in (0, 1)]
KEY_F6 = "gc:oom-loop-nooomcall"
KEY_F5 = "gc:oom-call-ignores-option"
PAGE = 4096


# ------------------------------------------------------------------------------------------------
# program generation
# ------------------------------------------------------------------------------------------------

class Prog:
    def __init__(self, plan, heap, workers, tag, events=False, dyn_min=None):
        self.plan, self.heap, self.workers, self.tag = plan, heap, workers, tag
        self.lines = [f"cfg plan {plan}", f"cfg heap {heap}", f"cfg workers {workers}", "cfg watchdog 20",
                      "init", "bind 0"]
        if dyn_min:
            # growable heap (DynamicHeapSize:min,max with max = `heap`): "larger than the maximum heap" still refers to
            # `heap`; a request between the current limit and the maximum must go through a GC, not fail at once
            # (added after seeded change C10b: will_oom_on_alloc compared with the CURRENT heap size).
            # Inserted before `cfg watchdog` so that the line indices of the tail (init at -2) stay as they were.
            self.lines[3:3] = [f"cfg opt gc_trigger DynamicHeapSize:{dyn_min},{heap}"]
        # events=True: the hook event log is on and every request is followed by `events`; the number of
        # PrGetNewPagesFail events (src/policy/space.rs, get_new_pages_and_initialize: the page resource itself
        # failed) is part of the observation (`prfail`)
        self.events = events
        if events:
            i = self.lines.index("init"); self.lines[i:i] = ["cfg events 1"]
            self.lines.append("kinds")
        self.meta = {}          # line index -> dict(opts, cls, size, obvious, phase)
        self.next_id = 1
        # half of the nominal room: the space also fragments (a new chunk is taken when no run is long enough)
        self.oc_budget = (LOS_LIMIT_PAGES.get(heap >> 20, heap // PAGE) - heap // PAGE) // 2 - 64

    def add(self, line):
        self.lines.append(line)
        return len(self.lines) - 1

    def alloco(self, payload, sem, slot, opts, cls, phase, exhaust=False):
        """stats / alloco / stats; the observation is attached to the alloco line.
        exhaust=True: the request is MEANT to push the space towards / beyond its address range (no budget)."""
        if not exhaust and opts[0] == 1 and sem == "Los" and (payload + 40) // PAGE + 1 <= self.heap // PAGE:
            need = (payload + 40) // PAGE + 2
            if need > self.oc_budget or need > 400:
                payload, sem, cls = 2000, "Default", "small"   # keep clear of the free-list capacity defect
            else:
                self.oc_budget -= need
        if self.events:
            self.add("events")          # drain: what the collector logged between two requests is not this request's
        self.add("stats")
        i = self.add(f"alloco 0 {self.next_id} 0 {payload} 8 0 {sem} {slot} {opts[0]} {opts[1]} {opts[2]}")
        self.add("stats")
        if self.events:
            self.add("events")
        self.next_id += 1
        size = max(32, (8 + 24 + payload + 7) // 8 * 8)
        # `will_oom_on_alloc`: pages(size) > max heap pages. LOS rounds the (aligned) size up to pages.
        pages = (size + PAGE - 1) // PAGE
        obvious = sem == "Los" and pages > self.heap // PAGE
        self.meta[i] = {"opts": list(opts), "cls": cls, "size": size, "obvious": obvious, "phase": phase,
                        "plan": self.plan, "heap": self.heap}
        if self.events:
            self.meta[i]["ev"] = i + 2
        return i


def size_of(rng, cls, heap):
    if cls == "small":
        return rng.choice([8, 64, 500, 2000, 4000]), "Default"
    if cls == "medium":
        return heap // 16 + rng.randrange(0, 4096), "Los"
    if cls == "big":
        return heap // 3 + rng.randrange(0, 65536), "Los"
    if cls == "over":
        return heap * 2 + heap // 2 + rng.randrange(0, 65536), "Los"
    if cls == "huge":
        return 4_000_000_000 + rng.randrange(0, 200_000_000), "Los"
    raise ValueError(cls)


def gen_program(rng, plan, heap, workers, tag, dyn_min=None):
    """Random stream: every option combination in every phase (the F5/F6 combinations were excluded
    until the two `fix:` commits)."""
    p = Prog(plan, heap, workers, tag, dyn_min=dyn_min)
    # a Default object that survives every GC (MarkCompact needs a survivor), slot 0
    p.add(f"alloc 0 {p.next_id} 0 64 8 0 Default 0"); p.next_id += 1
    combos = COMBOS[:]
    rng.shuffle(combos)
    # phase A: heap (almost) empty: everything fits, all eight combinations
    for opts in combos:
        cls = rng.choice(["small", "small", "medium"]) if plan != "NoGC" else "small"
        if dyn_min and rng.random() < 0.6:
            cls = "big"        # growable heap: above the CURRENT limit (min = heap/8), far below the maximum
        pay, sem = size_of(rng, cls, heap)
        p.alloco(pay, sem, 60 + rng.randrange(4), opts, cls, "A")
    # obviously too large requests (no GC involved): every combination
    for opts in combos:
        cls = rng.choice(["over", "huge"])
        pay, sem = size_of(rng, cls, heap)
        p.alloco(pay, sem, 59, opts, cls, "A")
    if plan == "NoGC":
        return p            # a GC request panics NoGC by design: never fill its heap
    # phase B: fill the heap with live chunks (default options) until it really runs out
    chunk = heap // 12
    nfill = 16
    for k in range(nfill):
        # some garbage in between so that collections do free memory
        if rng.random() < 0.3:
            p.alloco(chunk // 2, "Los", 58, (0, 1, 1), "medium", "B")
        p.alloco(chunk + rng.randrange(0, 4096), "Los", 1 + k, (0, 1, 1), "medium", "B")
    # phase C: heap full of live data
    rng.shuffle(combos)
    for opts in combos + combos[:3]:
        cls = rng.choice(["small", "medium", "big", "over", "huge"])
        pay, sem = size_of(rng, cls, heap)
        p.alloco(pay, sem, 57 if opts[0] == 0 else 50 + rng.randrange(6), opts, cls, "C")
    # phase D: half of the chunks become garbage; a GC now frees memory
    for k in range(0, nfill, 2):
        p.add(f"root 0 {1 + k} null")
    for slot in range(50, 59):
        p.add(f"root 0 {slot} null")
    rng.shuffle(combos)
    for opts in combos:
        p.alloco(chunk // 2 + rng.randrange(0, 4096), "Los", 57, opts, "medium", "D")
    return p


# ---- space exhaustion: the page resource itself fails (attempted_allocation_and_failed = true) -------------------
# A contiguous space owns about 2 x heap of address range (Space::estimate_reasonable_contiguous_extent; the free
# list of a FreeListPageResource is sized for it: LOS_LIMIT_PAGES). A request that PASSES the GC trigger
# (allow_overcommit, or the heap is not full) can still find no pages there: `get_new_pages` fails and
# Space::not_acquiring(.., attempted_allocation_and_failed = true) runs. Two ways to get there:
#   (E) overcommit: keep live objects of g pages with allow_overcommit=1 until the address range is used up;
#   (F) fragmentation: drop 3 of every 4 of them and collect: the heap is 3/4 empty, but no run of 4g pages is free
#       (a chunk boundary never coalesces), so a 4g-page request with allow_overcommit=0 passes the poll and fails in
#       the page resource.
# `prfail` (PrGetNewPagesFail events seen during the request) tells the oracle which requests met that case.
EXHAUST_PLANS = [p for p in PLANS if p not in ("NoGC", "PageProtect")]   # PageProtect: 2 TB extents, cannot run out
SP0 = [(0, 0, 0), (0, 0, 1), (1, 0, 0), (1, 0, 1)]


def pick_opts(rng, ov=None):
    """option combination, at_safepoint=0 twice as likely"""
    c = rng.choice([c for c in COMBOS if ov is None or c[0] == ov] + [c for c in SP0 if ov is None or c[0] == ov])
    return c


def gen_exhaust(rng, plan, heap, workers, tag):
    p = Prog(plan, heap, workers, tag, events=True)
    p.add(f"alloc 0 {p.next_id} 0 64 8 0 Default 0"); p.next_id += 1
    hp = heap // PAGE
    g = hp // 16
    limit = LOS_LIMIT_PAGES.get(heap >> 20, 2 * hp)
    n = min(limit // g + 2 + rng.randrange(0, 6), 56)
    # phase E: fill the large-object space beyond its address range (every request allow_overcommit=1)
    first = [(1, 1, 1)] * 2                  # the first ones always succeed whatever the options
    for k in range(n):
        opts = first[k] if k < len(first) else pick_opts(rng, ov=1)
        pay = g * PAGE - 40 - rng.choice([8, 64, 1000, 2000, 4000])      # exactly g pages
        p.alloco(pay, "Los", 1 + k, opts, "exh-fill", "E", exhaust=True)
    # + the four at_safepoint=0 / overcommit combinations once more, in the exhausted state for sure
    for opts in rng.sample([(1, 0, 0), (1, 0, 1), (1, 1, 0), (1, 1, 1)], 4):
        p.alloco(g * PAGE - 40 - 8, "Los", 59, opts, "exh-fill", "E", exhaust=True)
    # phase F: keep one of every four, collect
    for k in range(n):
        if k % 4 != 0:
            p.add(f"root 0 {1 + k} null")
    p.add("root 0 59 null")
    p.add("gc 0 1")
    combos = COMBOS + SP0
    rng.shuffle(combos)
    for opts in combos:
        pay = 4 * g * PAGE - rng.choice([0, 40, 1000, 2000])            # 4g or 4g+1 pages
        p.alloco(pay, "Los", 60, opts, "exh-frag", "F", exhaust=True)
        if rng.random() < 0.25:                                        # fits a hole (garbage right away)
            p.alloco(g * PAGE + rng.randrange(0, g * PAGE), "Los", 61, pick_opts(rng), "exh-fit", "F", exhaust=True)
            p.add("root 0 61 null")
    return p


def gen_exhaust_sem(rng, plan, heap, workers, tag, sem, objbytes, extent_pages):
    """Same as phase E in another space (Immortal: MonotonePageResource; the Default space of a non-moving plan:
    BlockPageResource): live objects with allow_overcommit=1 until the space has no address range left."""
    p = Prog(plan, heap, workers, tag, events=True)
    p.add(f"alloc 0 {p.next_id} 0 64 8 0 Default 0"); p.next_id += 1
    # the objects hang off 56-field carriers (rooted) so that any number of them stays live
    n = extent_pages * PAGE // objbytes + 8
    carrier, nf = None, 56
    for k in range(n):
        if k % nf == 0:
            carrier = p.next_id
            p.add(f"alloc 0 {carrier} {nf} 8 8 0 Default {1 + k // nf}"); p.next_id += 1
        opts = (1, 1, 1) if k < 2 else pick_opts(rng, ov=1)
        i = p.alloco(objbytes - 40 - rng.choice([8, 64, 200]), sem, 62, opts, "exh-" + sem.lower(), "E", exhaust=True)
        p.add(f"write 0 {carrier} {k % nf} {p.next_id - 1}")
    for opts in rng.sample([(1, 0, 0), (1, 0, 1), (1, 1, 0), (1, 1, 1)], 4):
        p.alloco(objbytes - 48, sem, 62, opts, "exh-" + sem.lower(), "E", exhaust=True)
    return p


def corpus_f6():
    p = Prog("SemiSpace", 8388608, 1, "corpus:F6")
    p.lines[p.lines.index("cfg watchdog 20")] = "cfg watchdog 8"
    p.alloco(20000000, "Los", 8, (0, 1, 0), "over", "known")
    return p


def corpus_overcommit_oob():
    p = Prog("SemiSpace", 4194304, 1, "corpus:overcommit-exhausts-space")
    p.oc_budget = 1 << 30
    for k in range(3):
        i = p.alloco(1400000, "Los", 1 + k, (1, 1, 1), "big", "known")
    # the third request needs a chunk beyond the address range of the space (2 x heap, one chunk of it holds the
    # free list): the page resource cannot deliver, which clause 5 does not promise (Lean: hypothesis pagesOk)
    p.meta[i]["space_exhausted"] = True
    return p


def corpus_exhaust_sp0(opts):
    """The request under test is NOT at a safepoint and the large-object space cannot deliver:
    overcommit=1: as above (the third 1.4 MB object needs a chunk the space does not have);
    overcommit=0: the space is filled with 64-page objects (overcommit), 3 of every 4 are dropped and collected:
    the heap is 3/4 empty, no 256-page run is free. Clause: null, block_for_gc never called, no retry."""
    p = Prog("SemiSpace", 4194304, 1, f"corpus:space-exhausted-{opts[0]}{opts[1]}{opts[2]}")
    p.oc_budget = 1 << 30
    if opts[0] == 1:
        for k in range(2):
            p.alloco(1400000, "Los", 1 + k, (1, 1, 1), "big", "known", exhaust=True)
    else:
        for k in range(16):
            p.alloco(64 * PAGE - 48, "Los", 1 + k, (1, 1, 1), "exh-fill", "known", exhaust=True)
        for k in range(16):
            if k % 4:
                p.add(f"root 0 {1 + k} null")
        p.add("gc 0 1")
    i = p.alloco(1400000 if opts[0] == 1 else 256 * PAGE, "Los", 60, opts, "big", "known", exhaust=True)
    p.meta[i]["space_exhausted"] = True
    p.meta[i]["must_fail"] = True
    return p


def corpus_f5():
    p = Prog("SemiSpace", 8388608, 1, "corpus:F5")
    for k in range(8):
        p.add(f"alloc 0 {p.next_id} 0 1000000 8 0 Los {1 + k}"); p.next_id += 1
    p.alloco(1000000, "Los", 9, (0, 1, 0), "medium", "known")
    return p


# ------------------------------------------------------------------------------------------------
# running + parsing
# ------------------------------------------------------------------------------------------------

def run_prog(exe, p):
    outs, rc, err = E.run_lines(exe, p.lines + ["quit"], timeout=120, env={"RUST_BACKTRACE": "0"})
    return outs, rc, err


RE_GCS = re.compile(r"\bgcs=(\d+)")


def observe(p, outs, rc):
    """-> list of observations (dict) for the alloco lines that were reached."""
    obs = []
    kind_fail = None
    if p.events:
        k = p.lines.index("kinds")
        if k < len(outs):
            mk = re.search(r"\b(\d+)=PrGetNewPagesFail\b", outs[k])
            kind_fail = mk.group(1) if mk else None
    for i, m in sorted(p.meta.items()):
        if i >= len(outs):
            break
        line = outs[i]
        o = dict(m, line_no=i, raw=line, prog=p.tag)
        if "ev" in m:
            evl = outs[m["ev"]] if m["ev"] < len(outs) else ""
            if kind_fail is None or not evl.startswith("ev"):
                o["prfail"] = None          # the log could not be read: the oracle reports it
            else:
                o["prfail"] = sum(1 for e in evl.split()[1:] if e.split(":")[2] == kind_fail)
        if line == "timeout":
            o.update(res="timeout", oom=0, blocked=0, gcs=0)
            obs.append(o)
            break
        if not (line.startswith("null") or line.startswith("a=0x")):
            o.update(res="error")
            obs.append(o)
            continue
        g0 = RE_GCS.search(outs[i - 1])
        g1 = RE_GCS.search(outs[i + 1]) if i + 1 < len(outs) else None
        mo = re.search(r"\boom=(\d+)", line)
        mb = re.search(r"\bblocked=(\d+)", line)
        o["res"] = "null" if line.startswith("null") else "addr"
        o["oom"] = int(mo.group(1)) if mo else 0
        o["blocked"] = int(mb.group(1)) if mb else 0
        if o["res"] == "addr":
            o["gcs"] = int(RE_GCS.search(line).group(1)) - int(g0.group(1))
        else:
            o["gcs"] = (int(g1.group(1)) if g1 else 0) - int(g0.group(1))
        obs.append(o)
    return obs


def oracle(o):
    """The clauses of C10 evaluated on one observation of the implementation. -> [(key, what)]"""
    ov, sp, oc = o["opts"]
    bad = []
    tag = f"{o['plan']} heap={o['heap']} opts(overcommit={ov},safepoint={sp},oomcall={oc}) size={o['size']} ({o['cls']})"
    if o["res"] == "timeout":
        key = KEY_F6 if (o["obvious"] and oc == 0 and sp == 1) else "gc:alloc-timeout"
        return [(key, f"alloc_with_options did not return: {tag}")]
    if o["res"] == "error":
        if o["raw"].startswith("panic:oob"):
            return [(KEY_OVERCOMMIT_OOB, f"allow_overcommit request panicked (index out of bounds in RawMemoryFreeList: the space's free list has no room left): {tag}")]
        return [("gc:alloc-error:" + o["raw"].split(" ")[0], f"unexpected answer `{o['raw'][:200]}`: {tag}")]
    oom, blk, gcs, null = o["oom"], o["blocked"], o["gcs"], o["res"] == "null"
    if oom > 0 and oc == 0:
        bad.append((KEY_F5, f"out_of_memory called {oom}x although allow_oom_call=false (blocked={blk}): {tag}"))
    if oom > 0 and not null:
        bad.append(("gc:oom-but-nonnull", f"out_of_memory called but a non-null address returned: {tag}"))
    if oom > 1:
        bad.append(("gc:oom-called-twice", f"out_of_memory called {oom}x for one request: {tag}"))
    if oom > 0 and not o["obvious"] and not (blk >= 1 and gcs >= 1):
        bad.append(("gc:oom-without-gc", f"out_of_memory without a collection attempted for the request (blocked={blk}, gcs={gcs}): {tag}"))
    if sp == 0 and blk > 0:
        bad.append(("gc:blocked-off-safepoint", f"block_for_gc called {blk}x with at_safepoint=false: {tag}"))
    if gcs < blk:
        bad.append(("gc:block-without-pause", f"block_for_gc returned {blk}x but only {gcs} pauses completed: {tag}"))
    prf = o.get("prfail", 0)
    if prf is None:
        bad.append(("gc:event-log-unreadable", f"no `events` answer after the request: {tag}"))
        prf = 0
    if sp == 0 and prf > 1:
        bad.append(("gc:retry-off-safepoint", f"the page resource was asked {prf}x with at_safepoint=false (one attempt only): {tag}"))
    if prf > 0 and not null and blk == 0:
        bad.append(("gc:prfail-but-nonnull", f"the page resource failed {prf}x and nothing blocked, yet an address was returned: {tag}"))
    if o.get("must_fail") and not null:
        bad.append(("gc:exhausted-space-delivered", f"a request beyond the address range of the space returned an address: {tag}"))
    if ov == 1 and not o["obvious"] and (null or blk > 0) and not (o.get("space_exhausted") or prf > 0):
        bad.append(("gc:overcommit-failed", f"allow_overcommit request {'returned null' if null else 'blocked'} (blocked={blk}): {tag}"))
    if o["obvious"]:
        if not null or blk > 0 or gcs > 0 and blk > 0:
            bad.append(("gc:obvious-not-immediate", f"request larger than the heap did not fail immediately (res={o['res']}, blocked={blk}): {tag}"))
        if oc == 1 and oom != 1:
            bad.append(("gc:obvious-no-oom-call", f"request larger than the heap, allow_oom_call=true, out_of_memory called {oom}x: {tag}"))
    if null and sp == 1 and oc == 1 and oom == 0:
        bad.append(("gc:null-without-oom", f"null returned at a safepoint without out_of_memory: {tag}"))
    return bad


def accept_line(o, old=False):
    ov, sp, oc = o["opts"]
    return (f"oom {'acceptold' if old else 'accept'} {ov} {sp} {oc} {int(o['obvious'])} {o['res']} "
            f"{o.get('oom', 0)} {o.get('blocked', 0)} {o.get('gcs', 0)}")


def model_answers(lines):
    if not lines:
        return []
    outs, rc, err = E.run_lines(E.model_exe(), lines, timeout=300)
    if rc != 0 or len(outs) != len(lines):
        raise RuntimeError(f"mmtk_model failed rc={rc} {err[-500:]}")
    return outs


def nontrivial(o):
    return o["res"] in ("null", "timeout") or o.get("blocked", 0) > 0 or o.get("oom", 0) > 0 or o.get("gcs", 0) > 0


# ------------------------------------------------------------------------------------------------
# self-test: mutated observations must be rejected
# ------------------------------------------------------------------------------------------------

def selftest(observations):
    """Mutate real observations; oracle and/or acceptor must reject. -> (report, failures)"""
    def pick(pred):
        return next((dict(o) for o in observations if o["res"] in ("null", "addr") and pred(o)), None)
    muts = []
    o = pick(lambda o: o["oom"] == 1 and not o["obvious"] and o["opts"] == [0, 1, 1])
    if o:
        m = dict(o, opts=[0, 1, 0]); muts.append(("flip oomcall to 0 on an OOM observation", m, "oracle+model"))
        m = dict(o, res="addr"); muts.append(("OOM observation but non-null result", m, "oracle+model"))
        m = dict(o, blocked=0, gcs=0); muts.append(("OOM observation without any block_for_gc", m, "oracle+model"))
        m = dict(o, oom=2); muts.append(("out_of_memory called twice", m, "oracle+model"))
        m = dict(o, oom=0); muts.append(("null at a safepoint without out_of_memory", m, "oracle+model"))
    o = pick(lambda o: o["opts"][1] == 0 and o["res"] == "null" and not o["obvious"])
    if o:
        m = dict(o, blocked=1, gcs=1); muts.append(("blocked count 1 with safepoint=0", m, "oracle+model"))
    o = pick(lambda o: o["opts"][0] == 1 and o["res"] == "addr")
    if o:
        m = dict(o, res="null"); muts.append(("overcommit request returns null", m, "oracle"))
    o = pick(lambda o: o["obvious"] and o["opts"][2] == 1)
    if o:
        m = dict(o, oom=0); muts.append(("obvious request, oomcall=1, no out_of_memory", m, "oracle+model"))
        m = dict(o, res="timeout", oom=0, blocked=0, gcs=0); muts.append(("obvious request with oomcall=1 times out", m, "oracle+model"))
    o = pick(lambda o: o["blocked"] >= 1 and o["res"] == "addr")
    if o:
        m = dict(o, gcs=0); muts.append(("block_for_gc returned without a pause", m, "oracle+model"))
    lines = [accept_line(m) for _, m, _ in muts] + [accept_line(m, old=True) for _, m, _ in muts]
    ans = model_answers(lines)
    report, failures = [], []
    for k, (what, m, expect) in enumerate(muts):
        orc = bool(oracle(m))
        mod, modf = ans[k] == "reject", ans[len(muts) + k] == "reject"
        caught = {"oracle": orc, "model": mod, "oldmodel": modf}
        ok = all(caught[w] for w in expect.split("+"))
        report.append({"mutation": what, "expected_to_be_caught_by": expect, "caught": caught, "ok": ok})
        if not ok:
            failures.append(what)
    return report, failures


# ------------------------------------------------------------------------------------------------

def build_programs(tier, seed):
    rng = random.Random(seed)
    n = 54 if tier == "quick" else 180
    progs = []
    for k in range(n):
        plan = PLANS[k % len(PLANS)]
        heap = HEAPS_MB[(k // len(PLANS)) % len(HEAPS_MB)] << 20
        if plan == "NoGC":
            heap = max(heap, 8 << 20)
        workers = 1 + (k // (len(PLANS) * len(HEAPS_MB))) % 3
        dyn = (heap >> 3) if (k % 3 == 2 and plan != "NoGC") else None       # every third program: growable heap
        progs.append(gen_program(random.Random(rng.randrange(1 << 60)), plan, heap, workers,
                                 f"rnd{k}:{plan}:{heap >> 20}M:w{workers}" + (":dyn" if dyn else ""), dyn))
    # space-exhaustion stream (drawn after the classic stream: the classic programs of a seed are unchanged)
    ne = 14 if tier == "quick" else 56
    for k in range(ne):
        plan = EXHAUST_PLANS[k % len(EXHAUST_PLANS)]
        heap = [4, 2, 8, 16][(k + 2 * (k // len(EXHAUST_PLANS))) % 4] << 20
        workers = 1 + k % 3
        progs.append(gen_exhaust(random.Random(rng.randrange(1 << 60)), plan, heap, workers, f"rnd-exh{k}:{plan}:{heap >> 20}M:w{workers}"))
    sems = [("SemiSpace", "Immortal", 262144), ("MarkSweep", "Default", 61440), ("Immix", "Immortal", 131072),
            ("GenImmix", "Immortal", 200000), ("MarkSweep", "Immortal", 262144), ("Immix", "Default", 16384)]
    for k, (plan, sem, ob) in enumerate(sems[:3 if tier == "quick" else len(sems)]):
        progs.append(gen_exhaust_sem(random.Random(rng.randrange(1 << 60)), plan, 2 << 20, 1 + k % 2, f"rnd-exh-{sem.lower()}{k}:{plan}:2M",
                                     sem, ob, 2048))
    return progs


def main(argv=None):
    ap = argparse.ArgumentParser()
    ap.add_argument("--tier", default=os.environ.get("VERIF_TIER", "quick"))
    ap.add_argument("--seed", type=int, default=int(os.environ.get("VERIF_SEED", "20260921")))
    ap.add_argument("--replay")
    a = ap.parse_args(argv)
    t0 = time.time()
    violations = []
    exe, err, build_s = E.cargo_build("hx_gc")
    if a.replay:
        payload = json.load(open(a.replay))
        if exe is None:
            print("REPLAY: hx_gc does not build:", err[-800:]); return 2
        case = payload["case"]
        p = Prog(case["plan"], case["heap"], 1, "replay")
        p.lines, p.meta = case["lines"], {int(k): v for k, v in case["meta"].items()}
        p.events = "kinds" in p.lines
        outs, rc, _ = run_prog(exe, p)
        print(f"REPLAY: hx_gc exit code {rc}")
        for l, o in zip(p.lines, outs + ["<no output>"] * len(p.lines)):
            print(f"  {l}\n     -> {o}")
        bad = [b for o in observe(p, outs, rc) for b in oracle(o)]
        for k, w in bad:
            print(f"REPLAY: oracle: [{k}] {w}")
        print("REPLAY:", "violation reproduced" if bad else "no violation on this tree")
        return 1 if bad else 0
    lean = E.lean_check(["MmtkModel.Props.C10"], THEOREMS, fresh=(a.tier == "thorough"))
    lean["targets"] = ["MmtkModel.Props.C10", "mmtk_model"]
    if not lean["ok"]:
        violations.append(Violation("proof-broken", f"Lean obligations of C10 no longer check: {lean['failures']}",
                                    None, None, None, False,
                                    broken=str([f.get('theorem') or f['kind'] for f in lean['failures']])))
    if exe is None:
        violations.append(Violation("harness-build-failed", f"hx_gc no longer builds: {err[-1200:]}",
                                    found_input=False, broken="hx_gc build"))
        return E.finish(PID, a.tier, a.seed, t0, lean, {}, violations, level="proof of the model, partial w.r.t. the code")
    progs = build_programs(a.tier, a.seed)
    corpus = [corpus_f6(), corpus_f5(), corpus_overcommit_oob()]     # regressions of the three repaired defects
    corpus += [corpus_exhaust_sp0(o) for o in SP0]                   # page resource fails off a safepoint
    allp = corpus + progs
    with ThreadPoolExecutor(5) as ex:
        results = list(ex.map(lambda p: run_prog(exe, p), allp))
    observations, crashed = [], []
    for p, (outs, rc, err_) in zip(allp, results):
        obs = observe(p, outs, rc)
        for o in obs:
            o["case"] = {"plan": p.plan, "heap": p.heap, "lines": p.lines, "meta": p.meta}
        timed_out = any(o["res"] == "timeout" for o in obs)
        if p.tag.startswith("known"):
            # dedicated programs: only the observation of the request under test counts
            obs = obs[-1:] if p.tag != "corpus:overcommit-exhausts-space" else ([o for o in obs if o["res"] == "error"][:1] or obs[-1:])
        observations += obs
        if p.tag.startswith("known"):
            pass
        elif rc != 0 and not timed_out:
            crashed.append(p.tag)
            last = outs[-1] if outs else ""
            violations.append(Violation(f"gc:crash:{p.plan}", f"hx_gc exited with code {rc} in program {p.tag}: {last[:300]} {err_[-300:]}",
                                        {"plan": p.plan, "heap": p.heap, "lines": p.lines, "meta": p.meta}, outs[-5:], None, True))
        elif rc == 0 and len(obs) != len(p.meta):
            violations.append(Violation("gc:lost-sync", f"program {p.tag}: {len(obs)} of {len(p.meta)} observations", None, outs[-5:], None,
                                        False, broken="hx_gc protocol"))
    # Python oracle
    n_bad = 0
    for o in observations:
        for key, what in oracle(o):
            n_bad += 1
            violations.append(Violation(key, what, o["case"], o["raw"], None, True))
    # Lean acceptance
    try:
        ans = model_answers([accept_line(o) for o in observations if o["res"] != "error"])
        ansf = model_answers([accept_line(o, old=True) for o in observations if o["res"] != "error"])
    except RuntimeError as e:
        ans, ansf = [], []
        violations.append(Violation("model-driver-broken", str(e), None, None, None, False, broken="mmtk_model oom"))
    rejected, rejected_fixed = 0, []
    for o, r, rf in zip([o for o in observations if o["res"] != "error"], ans, ansf):
        o["model"], o["model_fixed"] = r, rf
        if r != "ok":
            rejected += 1
            violations.append(Violation("model:observation-not-a-run-of-the-model",
                f"observation `{accept_line(o)}` ({o['plan']}, size {o['size']}, `{o['raw'][:120]}`) is not a possible run of Mmtk.OOM.slowPath: model answered {r}",
                o["case"], o["raw"], r, True))
        if rf != "ok":
            rejected_fixed.append(accept_line(o))
    # self-test of oracle and acceptor on mutated observations
    try:
        st_report, st_fail = selftest([o for o in observations if o["prog"].startswith("rnd")])
    except RuntimeError as e:
        st_report, st_fail = [], [str(e)]
    if st_fail or (len(st_report) < 6 and progs):
        violations.append(Violation("selftest:mutation-not-caught", f"mutated observations not rejected: {st_fail} (ran {len(st_report)})",
                                    None, None, None, False, broken="C10 oracle/acceptor self-test"))
    # coverage gate: the exhaustion stream must really reach `attempted_allocation_and_failed` off a safepoint
    reach = {ov: sum(1 for o in observations if o["opts"][0] == ov and o["opts"][1] == 0 and (o.get("prfail") or 0) > 0
                     and o["prog"].startswith("rnd")) for ov in (0, 1)}
    if progs and (reach[0] == 0 or reach[1] == 0):
        violations.append(Violation("coverage:space-exhaustion-not-reached",
            f"no at_safepoint=0 request met a failing page resource (overcommit=0: {reach[0]}, overcommit=1: {reach[1]} observations)",
            None, None, None, False, broken="C10 space-exhaustion programs (generator / PrGetNewPagesFail hook)"))
    dist = {}
    for o in observations:
        if o.get("prfail"):
            k = f"prfail:{''.join(map(str, o['opts']))}/{o['res']}/blk{min(o.get('blocked', 0), 3)}"
            dist[k] = dist.get(k, 0) + 1
        for k in (f"plan:{o['plan']}", f"opts:{''.join(map(str, o['opts']))}", f"cls:{o['cls']}", f"phase:{o['phase']}",
                  f"res:{o['res']}", f"oom:{o.get('oom', 0)}", f"blocked:{min(o.get('blocked', 0), 4)}",
                  f"outcome:{''.join(map(str, o['opts']))}/{'obv' if o['obvious'] else 'fit?'}/{o['res']}/oom{o.get('oom', 0)}/blk{min(o.get('blocked', 0), 3)}"):
            dist[k] = dist.get(k, 0) + 1
    shapes = {(tuple(o["opts"]), o["obvious"], o["res"], o.get("oom", 0), o.get("blocked", 0)) for o in observations}
    known_obs = [{"program": o["prog"], "alloco": o["case"]["lines"][o["line_no"]], "impl": o["raw"],
                  "model_on_this_tree": o.get("model"), "model_of_pinned_tree": o.get("model_fixed")}
                 for o in observations if o["prog"].startswith("corpus")][-6:]
    corr = {
        "evaluations": len(observations),
        "distinct_nontrivial": len({s for s in shapes if s[2] != "addr" or s[3] or s[4]}),
        "programs": len(allp), "plans": PLANS,
        "samples": [{"program": o["prog"], "alloco": o["case"]["lines"][o["line_no"]], "impl": o["raw"], "gcs_delta": o.get("gcs"),
                     "model": o.get("model")} for o in observations if nontrivial(o)][:4],
        "traces_validated_against_impl": len(ans) - rejected,
        "observations_nontrivial": sum(1 for o in observations if nontrivial(o)),
        "oracle_failures": n_bad, "model_rejections": rejected,
        "page_resource_failed_off_safepoint": {"overcommit=0": reach[0], "overcommit=1": reach[1]},
        "observations_impossible_before_the_repairs": sorted(set(rejected_fixed)),
        "repaired_defect_regression_programs": known_obs,
        "mutation_selftest": st_report,
        "crashed_programs": crashed,
        "distribution": dict(sorted(dist.items())),
        "rule": "per program: plan x heap(2..16 MB; every third program DynamicHeapSize:heap/8,heap) x workers; phase A (empty heap): 8 option combinations x {small,medium} + obviously-too-large {2.5x heap, ~4 GB}; phase B: 16+ live chunks of heap/12 with default options until the heap runs out; phase C (full heap): option combinations x {small, medium, heap/3, >heap, ~4GB}; phase D: half of the chunks dropped, GC frees memory. Observation per alloc_with_options: result, out_of_memory calls, block_for_gc calls, pauses. distinct = distinct (options, obvious, result, oom, blocked) tuples other than plain success. Corpus (runs first): the programs of the three repaired defects (F6 obviously-too-large with safepoint=1,oomcall=0; F5 unsatisfiable with overcommit=0,safepoint=1,oomcall=0; overcommit beyond the address range of the large-object space). Sizes < 4 GiB (harness object header). Space-exhaustion stream (7 plans x heaps 2..16 MB, event log on, `prfail` = PrGetNewPagesFail events during the request): phase E keeps g-page large objects live with allow_overcommit=1 (at_safepoint / allow_oom_call random, at_safepoint=0 twice as likely) until the large-object space has no address range left, then every overcommit combination once more; phase F drops 3 of every 4, collects, and issues 4g-page requests with all 8 combinations (heap 3/4 empty, no 4g-page run free: the poll passes, the page resource fails) plus requests that fit a hole; the same phase E in the Immortal space (MonotonePageResource) and the MarkSweep default space (BlockPageResource). A null result of an allow_overcommit request is tolerated only where prfail > 0 (or in the corpus program that says so). Corpus: + the page resource failing for each of the four at_safepoint=0 combinations.",
        "hx_gc_build_s": build_s, "lean_s": lean.get("lean_s"),
    }
    return E.finish(PID, a.tier, a.seed, t0, lean, corr, violations,
                    level="proof of the model, partial w.r.t. the code",
                    assumptions=["mutator thread (the collector branch of alloc_slow_inline returns the first result)",
                                 "alloc_slow_once performs at most one Space::acquire (true of the bump, large-object, immix and free-list allocators read)",
                                 "every block_for_gc returns (C14); GC outcomes are environment answers",
                                 "termination: after finitely many GCs memory is found or the emergency flag is raised (Progress)",
                                 "will_oom_on_alloc is constant during a request (fixed maximal heap size)"],
                    trusted=["Lean 4.33.0 kernel", "axioms ⊆ {propext, Classical.choice, Quot.sound} (audited per theorem this run)",
                             "hand-written Lean model Model/OOM.lean, tied to the code by the hx_gc differential run recorded below (sampling)",
                             "hx_gc / VerifVM counters of Collection::out_of_memory, Collection::block_for_gc, resume_mutators"])


if __name__ == "__main__":
    sys.exit(main())
