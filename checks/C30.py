"""C30 — mmap chunk states only move Unmapped → Quarantined → Mapped."""
from vlib import unit
from vlib.engine import Case

CH = 1 << 22
PG = 1 << 12
BASE = 1 << 40
WIN = 16
W0 = BASE - 8 * CH
W1 = W0 + WIN * CH


def rounded(start, nbytes):
    c0 = start // CH
    c1 = (start + nbytes + CH - 1) // CH
    return c0, c1 - c0


class Spec(unit.UnitSpec):
    pid = "C30"
    modules = ["MmtkModel.Props.C30"]
    theorems = []   # filled below
    component = "csm"
    relation = "Mmtk.CSM.* ≙ util::heap::layout::mmapper::csm::{ChunkStateMmapper, TwoLevelStateStorage} (via verif::layout::csm)"
    assumptions = ["OS behaviour is trusted: dzmmap = Linux mmap with MAP_FIXED_NOREPLACE (fails atomically if any page is mapped) or "
                   "MAP_FIXED; the theorems quantify over an arbitrary OS that may fail at any call",
                   "chunk-aligned addresses are represented by their chunk index (addr_slab_index / addr_in_slab_index lemmas)",
                   "single mutator of the mmapper at a time (transition_lock); a panic while the lock is held poisons it",
                   "`Mapped chunks are readable and writable` is checked for chunks mapped by ensure_mapped; mark_as_mapped "
                   "records memory the VM mapped itself (no OS call), by design"]
    rule = ("histories of 3..14 ops on a private ChunkStateMmapper over the 16-chunk window [2^40-8·4MiB, 2^40+8·4MiB) that "
            "straddles a slab boundary (2^35-aligned): quarantine / ensure_mapped / mark_as_mapped with unaligned starts, "
            "page counts 0..window, foreign PROT_NONE mappings that make the OS call fail mid-range, and a malformed stream "
            "(re-quarantine → panic, ranges at/after 2^48, ops after a panic); after every op all 16 states, "
            "is_mapped_address and a read/write probe (write(2)/read(2) on a pipe) are printed. non-trivial = at least one "
            "state changed; distinct = distinct (history, outputs)")

    def gen(self, rng, tier, debug):
        n = 500 if tier == "quick" else 20000
        cases = []
        for i in range(n):
            ops = ["csm new"]
            k = rng.randrange(3, 15)
            malformed = rng.random() < 0.2
            sim = [0] * WIN          # generator-side flat spec, only used to steer away from panics
            osm = set()              # really mapped chunks (foreign or by the mmapper)

            def simulate(kind, s, nbytes):
                c0, n = rounded(s, nbytes)
                idx = [c - W0 // CH for c in range(c0, c0 + n)]
                if kind == "mark":
                    for i in idx: sim[i] = 2
                    return
                j = 0
                while j < len(idx):
                    e = j
                    while e < len(idx) and sim[idx[e]] == sim[idx[j]]: e += 1
                    g, stt = idx[j:e], sim[idx[j]]
                    if stt == 0:
                        if any(x in osm for x in g): return
                        osm.update(g)
                        for x in g: sim[x] = 1 if kind == "q" else 2
                    elif stt == 1 and kind == "em":
                        for x in g: sim[x] = 2
                    j = e
            for j in range(k):
                r = rng.random()
                # a range inside the window; biased to straddle the slab boundary BASE
                if rng.random() < 0.5:
                    s = BASE - rng.randrange(0, 5) * CH - rng.choice([0, 0, PG, 8, CH // 2, CH - 1])
                else:
                    s = W0 + rng.randrange(0, WIN) * CH + rng.choice([0, 0, 0, PG, 8, CH // 2, CH - PG, CH - 1])
                s = max(W0, min(s, W1 - 1))
                maxpages = (W1 - s) // PG
                pages = min(maxpages, rng.choice([0, 1, 1, 1023, 1024, 1025, 2048, 3 * 1024, rng.randrange(0, 8 * 1024), 16 * 1024]))
                if r < 0.3:
                    c0, n = rounded(s, pages * PG)
                    if not malformed and any(sim[c - W0 // CH] == 1 for c in range(c0, c0 + n)):
                        r = 0.5      # would panic (already quarantined): make it an ensure_mapped
                    else:
                        ops.append(f"csm q {s:#x} {pages}")
                        simulate("q", s, pages * PG)
                if r < 0.3:
                    pass
                elif r < 0.65:
                    ops.append(f"csm em {s:#x} {pages}")
                    simulate("em", s, pages * PG)
                elif r < 0.8:
                    nbytes = min(W1 - s, rng.choice([0, 1, 8, PG, CH, CH + 1, 3 * CH, rng.randrange(0, 6 * CH)]))
                    ops.append(f"csm mark {s:#x} {nbytes}")
                    simulate("mark", s, nbytes)
                elif r < 0.9:
                    c = rng.randrange(0, WIN)
                    nn = rng.randrange(1, min(3, WIN - c) + 1)
                    ops.append(f"csm foreign {c} {nn}")
                    if not any(x in osm for x in range(c, c + nn)):
                        osm.update(range(c, c + nn))
                elif r < 0.95:
                    a = rng.choice([0, 8, W0 - 8, W0, BASE - 1, BASE, W1 - 1, W1, 1 << 41, (1 << 48) - 8, 1 << 48, (1 << 64) - 8,
                                    W0 + rng.randrange(0, WIN * CH)])
                    ops.append(f"csm probe {a:#x}")
                elif malformed:
                    ops.append(rng.choice([f"csm q {1 << 48:#x} 1", f"csm em {(1 << 48) + 5 * CH:#x} 2048", f"csm mark {1 << 48:#x} {3 * CH}",
                                           f"csm mark {1 << 50:#x} 1", "csm dump"]))
                else:
                    ops.append("csm dump")
            cases.append(Case(ops))
        return cases

    def corpus(self, debug):
        return [Case(["csm new", f"csm q {W0:#x} {16 * 1024}", f"csm em {BASE - CH:#x} 2048", f"csm em {W0:#x} {16 * 1024}"]),
                Case(["csm new", "csm foreign 9 1", f"csm em {BASE - 2 * CH:#x} {4 * 1024}", f"csm q {BASE - 3 * CH:#x} {6 * 1024}", "csm dump"]),
                Case(["csm new", f"csm q {BASE - CH:#x} 2048", f"csm q {BASE:#x} 1", f"csm em {BASE:#x} 1", "csm probe 0x10000000000"]),
                Case(["csm new", f"csm mark {BASE - 8:#x} 16", f"csm q {BASE - 2 * CH:#x} {4 * 1024}", f"csm em {BASE - 2 * CH + 8:#x} {3 * 1024}"]),
                Case(["csm new", f"csm q {1 << 48:#x} 1", "csm dump", f"csm em {W0:#x} 1"])]

    def oracle(self, case, impl_out):
        """C30's statement on the implementation's observed behaviour (flat spec, no model)."""
        bad = []
        prev = None            # states before the op
        rwmust = set()         # chunks (window idx) moved to Mapped by a successful ensure_mapped
        after_panic = False
        for op, out in zip(case.ops, impl_out):
            t = op.split()
            f = out.split()
            if t[1] == "new":
                prev, rwmust = "0" * WIN, set()
                if len(f) < 4 or f[1] != prev:
                    bad.append(("csm:new", f"fresh mmapper not all-unmapped: {out}"))
                continue
            if t[1] == "probe":
                if len(f) == 2 and (f[0] == "2") != (f[1] == "true"):
                    bad.append(("csm:is-mapped", f"{op}: state {f[0]} but is_mapped_address = {f[1]}"))
                continue
            if len(f) != 4 or prev is None:
                # panic (quarantine of a quarantined range, out of range, poisoned lock): excluded by the
                # statement, but states may have moved (forward) before the panic
                after_panic = True
                continue
            res, st, im, rw = f
            frame_ok = not after_panic
            after_panic = False
            if any(a > b for a, b in zip(prev, st)):
                bad.append(("csm:monotone", f"{op}: a chunk state went back: {prev} -> {st}"))
            if any((s == "2") != (m == "1") for s, m in zip(st, im)):
                bad.append(("csm:is-mapped", f"{op}: is_mapped_address {im} disagrees with states {st}"))
            if t[1] in ("q", "em", "mark") and res == "ok":
                s = int(t[2], 0)
                nbytes = int(t[3], 0) * (PG if t[1] != "mark" else 1)
                c0, n = rounded(s, nbytes)
                want = "1" if t[1] == "q" else "2"
                for c in range(c0, c0 + n):
                    i = c - W0 // CH
                    if 0 <= i < WIN:
                        if st[i] < want:
                            bad.append(("csm:reaches", f"{op}: chunk {i} is {st[i]} after success, wanted ≥ {want}"))
                        if t[1] == "em" and prev[i] != "2" and frame_ok:
                            rwmust.add(i)
                # nothing outside the rounded range changes
                for i in range(WIN):
                    c = W0 // CH + i
                    if frame_ok and not (c0 <= c < c0 + n) and st[i] != prev[i]:
                        bad.append(("csm:frame", f"{op}: chunk {i} outside the range changed {prev[i]} -> {st[i]}"))
            if t[1] == "foreign" and frame_ok and st != prev:
                bad.append(("csm:frame", f"{op}: states changed without an mmapper op"))
            for i in rwmust:
                if st[i] != "2" or rw[i] != "1":
                    bad.append(("csm:mapped-rw", f"{op}: chunk {i} was mapped by ensure_mapped but state={st[i]} rw={rw[i]}"))
            # only mapped chunks of this mmapper may be accessible (window is otherwise unmapped / PROT_NONE)
            if any(r == "1" and s != "2" for r, s in zip(rw, st)):
                bad.append(("csm:rw-unmapped", f"{op}: a non-Mapped chunk is readable/writable: {st} {rw}"))
            prev = st
        # dedupe keys
        seen, res = set(), []
        for k, w in bad:
            if k not in seen:
                seen.add(k)
                res.append((k, w))
        return res

    def nontrivial(self, case, out):
        sts = [o.split()[1] for o in out if len(o.split()) == 4]
        return len(set(sts)) > 1

    def summarize(self, cases, outs):
        h, k, strad = {}, {}, 0
        for c, o in zip(cases, outs):
            for op, out in zip(c.ops, o):
                t = op.split()
                h[t[1]] = h.get(t[1], 0) + 1
                r = out.split()[0] if out else "?"
                if t[1] in ("q", "em", "mark"):
                    k[f"{t[1]}:{r}"] = k.get(f"{t[1]}:{r}", 0) + 1
                    s = int(t[2], 0)
                    nb = int(t[3], 0) * (PG if t[1] != "mark" else 1)
                    c0, n = rounded(s, nb)
                    if c0 < BASE // CH < c0 + n:
                        strad += 1
        return {"op": h, "outcome": k, "ranges_straddling_slab_boundary": {"count": strad}}


Spec.theorems = ["Mmtk.CSM.slab_slices_cover", "Mmtk.CSM.two_level_refines_flat", "Mmtk.CSM.state_monotone",
                 "Mmtk.CSM.range_reaches_state", "Mmtk.CSM.is_mapped_iff_M"]

META = {
    "text": 'Lean theorems over all ranges and all op histories, for an arbitrary OS that may fail at any call: the slab slices visited for a chunk range are exactly its chunks in ascending order (incl. ranges crossing slab boundaries); the two-level storage refines the flat chunk→state map; no op ever decreases a chunk state (also on OS failure / panic); on success every chunk of the chunk-rounded range reaches the requested state; is_mapped_address ⇔ Mapped. Model (built on the C40 group-by model) compared exactly with a private ChunkStateMmapper over a window straddling a slab boundary, incl. real OS failures and a read/write probe.',
    "note": 'Trusted: Lean kernel + {propext, Classical.choice, Quot.sound}; OS behaviour (mmap NOREPLACE/FIXED) trusted and modelled per chunk; chunk-aligned addresses represented by chunk indices; tie = sampling differential on histories through add-only hooks (private mmapper, get_state accessor).',
    "technique": 'Lean 4 proof (loop invariant for the slab loop, induction over groups reusing the C40 theorems) + exact differential hx_unit vs compiled Lean model',
}


def main(argv=None):
    return unit.main(Spec(), argv)
