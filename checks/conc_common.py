"""Shared by C17 / C18 / C19: the cell layouts of harness/src/comp/conc/vms.rs (an independent Python
copy, used by the oracles), and a `main` that runs (1) the Lean obligations, (2) the exact sequential
differential through vlib.unit.run_profile, (3) real-thread races judged by the executable Lean
predicate (`mmtk_model … judge`) AND by the Python oracle."""
import argparse, json, os, random, time
from vlib import engine as E, unit
from vlib.engine import Case, Violation

M64 = (1 << 64) - 1
MASK = 0x00ff_ffff_ffff_fff8
WIN = 0x1e0_0000_0000
NEW = WIN + 0x10000
LOCS = ["w0", "w1", "w2", "mf", "mm", "mg", "mp", "ml"]


def obj_addr(slot):
    return WIN + 0x1040 + 8 * slot


def new_addr(k):
    return NEW + 64 * k


# kind -> per layout (loc, shift(slot), width)
FIELDS = {
    "fwd": [("mf", lambda s: 2 * (s % 4), 2), ("w1", lambda s: 0, 2), ("w1", lambda s: 2, 2), ("w1", lambda s: 56, 2)],
    "mark": [("mm", lambda s: s % 8, 1), ("w2", lambda s: 2, 1), ("w1", lambda s: 7, 1), ("w2", lambda s: 63, 1)],
    "log": [("mg", lambda s: s % 8, 1), ("w2", lambda s: 5, 1), ("w1", lambda s: 0, 1), ("w2", lambda s: 8, 1)],
    "pin": [("mp", lambda s: s % 8, 1), ("w2", lambda s: 7, 1), ("w1", lambda s: 1, 1), ("w2", lambda s: 15, 1)],
    "los": [("ml", lambda s: 2, 2),          # side LOS spec: 2 bits per 4 KiB page
            ("w2", lambda s: 8, 2), ("w1", lambda s: 4, 2), ("w2", lambda s: 22, 2)],
}
PTR_LOC = ["w0", "w1", "w0", "w1"]
ONE_STEP = [None, 0, None, 56]


class Cell:
    def __init__(self, l, slot, vals, page=1):
        self.l, self.slot = l, slot
        self.page = page        # 4 KiB page (mod 4) of the object: its 2-bit field of the side LOS byte (slots: page 1)
        self.v = dict(zip(LOCS, vals))

    @staticmethod
    def parse_set(line):
        t = line.split()
        assert t[:2] == ["cell", "set"], line
        n = [int(x, 0) for x in t[2:]]
        return Cell(n[0], n[1], n[2:])

    @staticmethod
    def parse_hex(l, slot, toks):
        return Cell(l, slot, [int(x, 16) for x in toks])

    def fld(self, kind):
        loc, sh, w = FIELDS[kind][self.l]
        if kind == "los" and self.l == 0:
            return loc, 2 * (self.page % 4), w
        return loc, sh(self.slot), w

    def get(self, kind):
        loc, sh, w = self.fld(kind)
        return (self.v[loc] >> sh) & ((1 << w) - 1)

    def put(self, kind, val):
        loc, sh, w = self.fld(kind)
        m = ((1 << w) - 1) << sh
        self.v[loc] = (self.v[loc] & ~m) | ((val << sh) & m)

    def ptr(self):
        return self.v[PTR_LOC[self.l]] & MASK

    def set_line(self):
        return "cell set %d %d " % (self.l, self.slot) + " ".join("0x%x" % self.v[k] for k in LOCS)

    def others(self, *kinds, ptr=False):
        """Everything but the named fields (and the pointer bits): must not change."""
        c = Cell(self.l, self.slot, [self.v[k] for k in LOCS])
        for k in kinds:
            c.put(k, 0)
        if ptr:
            if ONE_STEP[self.l] is not None:
                c.v[PTR_LOC[self.l]] = 0       # the combined store overwrites the whole word
            else:
                c.v[PTR_LOC[self.l]] &= ~MASK & M64
        return tuple(c.v[k] for k in LOCS)

    def copy(self):
        return Cell(self.l, self.slot, [self.v[k] for k in LOCS], self.page)

    def at(self, j, los=False):
        """the same memory seen from object `j` of a group (LOS groups: one object per page)"""
        return Cell(self.l, self.slot if los else j, [self.v[k] for k in LOCS], j if los else self.page)


def fmt_ref(slot, a):
    if a == obj_addr(slot):
        return "orig"
    if NEW < a < NEW + 64 * 4096 and (a - NEW) % 64 == 0:
        return "new:%d" % ((a - NEW) // 64)
    return "raw:%x" % a


def split_out(line):
    """`<result> | <cell hex…>` -> (result, [hex tokens]) or (line, None)."""
    if " | " not in line:
        return line, None
    r, c = line.split(" | ", 1)
    return r, c.split()


def rand_word(rng):
    return rng.choice([0, M64, rng.getrandbits(64), rng.getrandbits(64) & MASK, new_addr(rng.randrange(1, 9)),
                       new_addr(rng.randrange(1, 9)) | 0xab00_0000_0000_0007, 0x8000_0000_0000_0000, 7])


def rand_byte(rng):
    return rng.choice([0, 0xff, rng.getrandbits(8), 0x55, 0xaa])


def rand_cell(rng, l=None, slot=None):
    l = rng.randrange(4) if l is None else l
    slot = rng.randrange(8) if slot is None else slot
    return Cell(l, slot, [rand_word(rng), rand_word(rng), rand_word(rng)] + [rand_byte(rng) for _ in range(5)])


class ConcSpec(unit.UnitSpec):
    """A UnitSpec with an additional real-thread race stage."""
    release_in_thorough = True
    race_component = ""

    def race_cases(self, rng, tier):
        """-> list of Case(ops=[race line], pre=[cfg debug 1, cell set …])"""
        return []

    def judge_ops(self, case, out):
        """the `… judge …` line(s) fed to mmtk_model for this race outcome"""
        raise NotImplementedError

    def race_oracle(self, case, out):
        """independent Python verdict: list of (key, what)"""
        return []

    def race_summary(self, cases, outs):
        return {}

    # multi-object races (harness/src/comp/conc/group.rs): k objects whose fields share one metadata byte
    def group_cases(self, rng, tier):
        """-> list of Case(ops=[`… mrace …` line], pre=[cfg debug 1, cell set 0 0 <template>])"""
        return []

    def group_judge_op(self, case, j, obj):
        """the `… judgeat <j> …` line fed to mmtk_model for object j's outcome text `obj`"""
        raise NotImplementedError

    def group_oracle(self, case, rounds):
        """independent Python verdict on all rounds of one case (rounds = [[object text, …], …]): list of (key, what)"""
        return []

    def group_summary(self, cases, parsed):
        return {}


def run_races(spec, tier, seed, violations, stats):
    exe, err, bs = E.cargo_build(spec.bin, fs=spec.fs)
    if exe is None:
        return
    rng = random.Random(seed * 7919 + 13)
    cases = spec.race_cases(rng, tier)
    if not cases:
        return
    t0 = time.time()
    outs = E.run_cases(exe, cases, timeout=3000)
    stats["race_s"] = round(time.time() - t0, 1)
    jcases = [Case(spec.judge_ops(c, o), c.pre, c.tag) for c, o in zip(cases, outs)]
    verdicts = E.run_cases(E.model_exe(), jcases, timeout=1800)
    stats["races"] = len(cases)
    stats["race_samples"] = [{"case": c.pre[1:] + c.ops, "impl": o, "lean_verdict": v}
                             for c, o, v in list(zip(cases, outs, verdicts))[:3]]
    seen = set()
    nrej = 0
    for c, o, j, v in zip(cases, outs, jcases, verdicts):
        orc = spec.race_oracle(c, o)
        lean_ok = all(x == "ok" for x in v) and len(v) == len(j.ops)
        if not lean_ok:
            nrej += 1
        if not lean_ok and not orc:
            orc = [(f"race:{spec.race_component}:lean-verdict", f"outcome rejected by the executable Lean predicate ({v}) but accepted by the Python oracle")]
        for key, what in orc:
            if key in seen:
                continue
            seen.add(key)
            violations.append(Violation(key, what + f" [race: {' ; '.join(c.pre[1:] + c.ops)} -> {o}; lean verdict {v}]",
                                        Case(c.ops, c.pre), o, v, True))
    stats["race_rejected_by_lean"] = nrej
    d = stats.setdefault("distribution", {})
    for k, v in spec.race_summary(cases, outs).items():
        d[k] = v


def parse_group(line):
    """`o ; o ;; o ; o` -> [[o, o], [o, o]] or None (the race did not finish)"""
    if not line or " | " not in line:
        return None
    return [[o.strip() for o in r.split(" ; ")] for r in line.split(" ;; ")]


def run_groups(spec, tier, seed, violations, stats):
    """Multi-object races: every object of every round is judged on its own by the executable Lean predicate
    (`… judgeat`, distinct outcomes are judged once per case) and by the Python oracle."""
    exe, err, bs = E.cargo_build(spec.bin, fs=spec.fs)
    if exe is None:
        return
    rng = random.Random(seed * 104729 + 71)
    cases = spec.group_cases(rng, tier)
    if not cases:
        return
    t0 = time.time()
    outs = E.run_cases(exe, cases, timeout=3000)
    stats["group_race_s"] = round(time.time() - t0, 1)
    parsed = [parse_group(o[0] if o else "") for o in outs]
    stats["group_hang"] = any(o and o[0] == "hang" for o in outs)
    jcases, jkeys = [], []
    for c, rounds in zip(cases, parsed):
        distinct = []
        seen = set()
        for r in rounds or []:
            for j, obj in enumerate(r):
                if (j, obj) not in seen:
                    seen.add((j, obj))
                    distinct.append((j, obj))
        jkeys.append(distinct)
        jcases.append(Case([spec.group_judge_op(c, j, obj) for j, obj in distinct] or ["cell set 0 0 0 0 0 0 0 0 0 0"], c.pre, c.tag))
    verdicts = E.run_cases(E.model_exe(), jcases, timeout=1800)
    nrounds = sum(len(r) for r in parsed if r)
    nobj = sum(len(o) for r in parsed if r for o in r)
    stats["group_rounds"] = nrounds
    stats["group_objects_judged"] = nobj
    stats["group_distinct_outcomes_judged_by_lean"] = sum(len(d) for d in jkeys)
    stats["group_samples"] = [{"case": c.pre[1:] + c.ops, "impl_first_round": (r[0] if r else o), "lean_verdicts_first": v[:8]}
                              for c, r, o, v in list(zip(cases, parsed, outs, verdicts))[:2]]
    seen = set()
    nrej = 0
    for c, o, rounds, dk, v in zip(cases, outs, parsed, jkeys, verdicts):
        where = " ; ".join(c.pre[1:] + c.ops)
        if rounds is None:
            orc = [(f"race:{spec.race_component}:group:crash", f"multi-object race did not finish: {str(o)[:200]}")]
            rej = []
        else:
            orc = spec.group_oracle(c, rounds)
            rej = [(j, obj, x) for (j, obj), x in zip(dk, v) if x != "ok"]
            if len(v) != len(dk):
                rej.append((-1, "", f"model answered {len(v)} of {len(dk)} judge lines"))
        nrej += len(rej)
        if rej and not orc:
            j, obj, x = rej[0]
            orc = [(f"race:{spec.race_component}:group:lean-verdict",
                    f"object {j}: outcome `{obj}` rejected by the executable Lean predicate ({x}) but accepted by the Python oracle")]
        for key, what in orc:
            if key in seen:
                continue
            seen.add(key)
            lv = [f"object {j}: {x}: {obj}" for j, obj, x in rej[:3]]
            violations.append(Violation(key, what + f" [multi-object race: {where}; rejected by Lean: {lv}]",
                                        Case(c.ops, c.pre), [str(o)[:2000]], lv, True))
    stats["group_rejected_by_lean"] = nrej
    d = stats.setdefault("distribution", {})
    for k, v in spec.group_summary(cases, parsed).items():
        d[k] = v


def main(spec, argv=None, env=None):
    ap = argparse.ArgumentParser()
    ap.add_argument("--tier", default=os.environ.get("VERIF_TIER", "quick"))
    ap.add_argument("--seed", type=int, default=int(os.environ.get("VERIF_SEED", "20260921")))
    ap.add_argument("--replay")
    a = ap.parse_args(argv)
    for k, v in (env or {}).items():
        os.environ[k] = v
    t0 = time.time()
    if a.replay:
        return replay(spec, a.replay)
    violations, stats = [], {}
    lean = E.lean_check(spec.modules, spec.theorems, fresh=(a.tier == "thorough"))
    lean["targets"] = spec.modules
    unit.run_profile(spec, a.tier, a.seed, True, lean["ok"], violations, stats)
    if a.tier == "thorough" and spec.release_in_thorough:
        unit.run_profile(spec, a.tier, a.seed, False, lean["ok"], violations, stats)
    if not any(v.key == "harness-build-failed" for v in violations):
        # the multi-object races first: they detect a thread stuck inside mmtk-core (answer `hang` after 10 s); the
        # single-object races join their threads and would then block until the engine's timeout
        run_groups(spec, a.tier, a.seed, violations, stats)
        if not stats.get("group_hang"):
            run_races(spec, a.tier, a.seed, violations, stats)
        if getattr(spec, "extra_part", None):
            spec.extra_part(a.tier, a.seed, violations, stats)
    if not lean["ok"] and not any(v.found_input for v in violations):
        names = [f.get("theorem") or f.get("module") or f["kind"] for f in lean["failures"]]
        violations.append(Violation("proof-broken", f"Lean obligations no longer check: {lean['failures']}",
                                    None, None, None, False, broken=f"theorems/modules: {names}"))
    distinct = len(stats.pop("_distinct", set()))
    n = stats.get("evaluations", 0) + stats.get("races", 0) + stats.get("group_rounds", 0) + stats.get("reader_windows", 0)
    corr = {
        "evaluations": n,
        "distinct_nontrivial": distinct + stats.get("races", 0) + stats.get("group_rounds", 0),
        "rule": spec.rule,
        "samples": stats.get("samples", []) + stats.get("race_samples", []) + stats.get("group_samples", []),
        "traces_validated_against_impl": n,
        "sequential_cases": stats.get("evaluations", 0),
        "real_thread_races": stats.get("races", 0),
        "races_rejected_by_lean_predicate": stats.get("race_rejected_by_lean", 0),
        "multi_object_race_rounds": stats.get("group_rounds", 0),
        "reader_windows_on_real_spaces": stats.get("reader_windows", 0),
        "multi_object_outcomes_judged": stats.get("group_objects_judged", 0),
        "multi_object_distinct_outcomes_judged_by_lean": stats.get("group_distinct_outcomes_judged_by_lean", 0),
        "multi_object_outcomes_rejected_by_lean_predicate": stats.get("group_rejected_by_lean", 0),
        "group_race_s": stats.get("group_race_s"),
        "disagreements_checked": stats.get("disagreements", 0),
        "op_lines": stats.get("op_lines", 0),
        "distribution": stats.get("distribution", {}),
        "harness_build_s": stats.get("build_s"),
        "race_s": stats.get("race_s"),
        "lean_s": lean.get("lean_s"),
    }
    return E.finish(spec.pid, a.tier, a.seed, t0, lean, corr, violations,
                    level="proof of the model (all thread counts, all interleavings); partial w.r.t. the code "
                          "(exact sequential differential + sampled real-thread schedules)",
                    assumptions=spec.assumptions)


def replay(spec, path):
    data = json.load(open(path))
    lines = data["case"]
    if isinstance(lines, dict) and "reader_program" in lines:
        from checks import c17_reader
        return c17_reader.replay(path)
    pre = [l for l in lines if l.startswith("cfg ") or l.startswith("cell set")]
    ops = [l for l in lines if l not in pre]
    is_race = any(" race " in l for l in ops)
    if any(" mrace " in l for l in ops):
        return replay_group(spec, pre, ops)
    if not is_race:
        return unit.replay(spec, path)
    exe, err, _ = E.cargo_build(spec.bin, fs=spec.fs)
    E.run(["lake", "build", "mmtk_model"], cwd=E.LEAN_DIR)
    bad = False
    for i in range(200):       # a race is a schedule sample: repeat it
        c = Case(ops, pre)
        o = E.run_cases(exe, [c])[0]
        v = E.run_cases(E.model_exe(), [Case(spec.judge_ops(c, o), pre)])[0]
        orc = spec.race_oracle(c, o)
        if orc or any(x != "ok" for x in v):
            print("race:", ops, "->", o, "lean verdict:", v, "oracle:", orc)
            bad = True
            break
    print("REPLAY:", "violation reproduced" if bad else "no longer reproduces (200 schedules)")
    return 1 if bad else 0


def replay_group(spec, pre, ops):
    exe, err, _ = E.cargo_build(spec.bin, fs=spec.fs)
    E.run(["lake", "build", "mmtk_model"], cwd=E.LEAN_DIR)
    for i in range(20):       # a race is a schedule sample: repeat it (each op already runs many rounds)
        c = Case(ops, pre)
        o = E.run_cases(exe, [c])[0]
        rounds = parse_group(o[0] if o else "")
        if rounds is None:
            print("multi-object race did not finish:", o)
            print("REPLAY: violation reproduced")
            return 1
        orc = spec.group_oracle(c, rounds)
        dk = sorted({(j, obj) for r in rounds for j, obj in enumerate(r)})
        v = E.run_cases(E.model_exe(), [Case([spec.group_judge_op(c, j, obj) for j, obj in dk], pre)])[0]
        rej = [(j, obj, x) for (j, obj), x in zip(dk, v) if x != "ok"]
        if orc or rej:
            print("multi-object race:", ops, "oracle:", orc[:5], "rejected by the Lean predicate:", rej[:5])
            print("REPLAY: violation reproduced")
            return 1
    print("REPLAY: no longer reproduces (20 runs of the multi-object race)")
    return 0
