"""C19 — the block pool never loses or duplicates a block."""
import re
from collections import Counter
from checks import conc_common as CC
from vlib.engine import Case

CAP = 256


def parse_q(t):
    """`[a..b,c]` -> list"""
    assert t[0] == "[" and t[-1] == "]", t
    body = t[1:-1]
    out = []
    if body:
        for item in body.split(","):
            if ".." in item:
                a, b = item.split("..")
                out += list(range(int(a), int(b) + 1))
            else:
                out.append(int(item))
    return out


DUMP = re.compile(r"^(.*) \| c=(\d+) h=(\S+) g=(\S+) l=(\S+)$")


def parse(line):
    """-> (result, count, head|None, [global queues], [local queues]) or None"""
    m = DUMP.match(line)
    if not m:
        return None
    h = None if m.group(3) == "-" else parse_q(m.group(3))
    g = [] if m.group(4) == "-" else [parse_q(x) for x in m.group(4).split(";")]
    l = [parse_q(x) for x in m.group(5).split(";")]
    return m.group(1), int(m.group(2)), h, g, l


class Spec(CC.ConcSpec):
    pid = "C19"
    modules = ["MmtkModel.Props.C19"]
    theorems = ["Mmtk.BlockPool.conservation", "Mmtk.BlockPool.conservation_count", "Mmtk.BlockPool.pop_only_pushed",
                "Mmtk.BlockPool.popped_le_pushed", "Mmtk.BlockPool.no_duplication", "Mmtk.BlockPool.popped_nodup",
                "Mmtk.BlockPool.len_counts", "Mmtk.BlockPool.len_ge_held", "Mmtk.BlockPool.len_exact",
                "Mmtk.BlockPool.conservation_quiescent", "Mmtk.BlockPool.global_nonempty", "Mmtk.BlockPool.pop_never_panics",
                "Mmtk.BlockPool.install_over_empty_head", "Mmtk.BlockPool.head_lock_exclusive",
                "Mmtk.BlockPool.pop_succeeds", "Mmtk.BlockPool.flush_done", "Mmtk.BlockPool.flush_makes_poppable",
                "Mmtk.BlockPool.race_outcome_sound", "Mmtk.BlockPool.step_inv"]
    component = "bpool"
    race_component = "bpool"
    relation = ("Mmtk.BlockPool.{pushSeq, popSeq, flushSeq} (threads of the transition system run to completion) ≙ "
                "BlockPool::{push, pop, flush_all, len, iterate_blocks} with BlockQueue::CAPACITY = 256")
    assumptions = [
        "sequentially consistent interleaving semantics; RwLocks are modelled as exclusive locks taken in one atomic step",
        "ownership (guards of the model's transition relation, true in the code because flush_all is the FlushPageResource "
        "epilogue): local queue i is written only by worker i's push and by flush_all; flush_all starts only when no push is in "
        "progress and no push starts during a flush — this is what makes the owner-only push_relaxed / replace atomic steps",
        "BlockQueue (array + cursor) is a stack (List, top first); blocks are opaque numbers (a Region wrapper around an address)",
        "the worker ordinal is the thread-local WORKER_ORDINAL, set through an add-only hook; one thread per ordinal",
        "real-thread histories sample schedules (yield points BlockPoolPush / BlockPoolPop armed)",
    ]
    rule = ("sequential: histories of push (chosen worker ordinal), pushn (bursts that cross CAPACITY=256, several times), pop, popn, "
            "flush, len, iter on 1-8 workers, blocks re-pushed after being popped, duplicates, plus a malformed stream (bad "
            "ordinal, ops before new); every op prints count + every queue in internal order; exact differential + Python oracle "
            "(multiset conservation, count = held, non-empty global queues, pop returns a held block / none only if nothing is "
            "outside the local queues, locals empty after flush). races: W pushers x P poppers real threads, then flush + drain, "
            "judged by Mmtk.BlockPool.raceOk (Lean; race_outcome_sound, flush_makes_poppable) and the Python oracle")

    def gen(self, rng, tier, debug):
        n = 260 if tier == "quick" else 3000
        pre0 = [f"cfg debug {1 if debug else 0}"]
        cases = []
        for i in range(n):
            w = rng.choice([1, 1, 2, 3, 4, 8])
            ops = [f"bpool new {w}"]
            nxt = 0
            big = rng.random() < 0.35
            for _ in range(rng.randrange(4, 40)):
                r = rng.random()
                if r < 0.35:
                    if nxt and rng.random() < 0.12:
                        b = rng.randrange(nxt)        # a block released again (or, if still held, a duplicate: multiset semantics)
                    else:
                        b = nxt
                        nxt += 1
                    ops.append(f"bpool push {rng.randrange(w)} {b}")
                elif r < 0.47:
                    k = rng.choice([CAP - 1, CAP, CAP + 1, 2 * CAP, 2 * CAP + 3, 3 * CAP + 1]) if big else rng.randrange(1, 12)
                    ops.append(f"bpool pushn {rng.randrange(w)} {nxt} {k}")
                    nxt += k
                elif r < 0.67:
                    ops.append("bpool pop")
                elif r < 0.77:
                    ops.append(f"bpool popn {rng.choice([CAP, CAP + 1, 2 * CAP]) if big and rng.random() < 0.5 else rng.randrange(0, 9)}")
                elif r < 0.89:
                    ops.append("bpool flush")
                elif r < 0.95:
                    ops.append("bpool len")
                else:
                    ops.append("bpool iter")
            if rng.random() < 0.08:
                ops.insert(rng.randrange(1, len(ops) + 1),
                           rng.choice([f"bpool push {w} 1", f"bpool push {w + 7} 1", "bpool nonsense", "bpool push 0", "bpool new 0",
                                       "bpool push 0 3", "bpool push 0 3"]))
            cases.append(Case(ops, pre0, "seq"))
        return cases

    def corpus(self, debug):
        pre0 = [f"cfg debug {1 if debug else 0}"]
        return [
            # (must stay first: no pool exists yet in a fresh process)
            Case(["bpool pop", "bpool push 0 1", "bpool flush", "bpool len", "bpool iter"], pre0, "corpus"),
            Case(["bpool cap", "bpool new 2", "bpool pop", "bpool push 0 1", "bpool pop", "bpool len", "bpool flush", "bpool pop", "bpool pop"], pre0, "corpus"),
            Case(["bpool new 1", f"bpool pushn 0 0 {CAP}", "bpool push 0 999", "bpool pop", f"bpool popn {CAP - 1}", "bpool pop", "bpool flush", "bpool pop", "bpool pop"], pre0, "corpus"),
            Case(["bpool new 3", f"bpool pushn 0 0 {2 * CAP + 5}", f"bpool pushn 1 1000 {CAP + 1}", "bpool iter", "bpool flush", "bpool iter", f"bpool popn {3 * CAP + 10}", "bpool len"], pre0, "corpus"),
            Case(["bpool new 2", "bpool push 0 7", "bpool push 1 7", "bpool flush", "bpool popn 3"], pre0, "corpus"),
        ]

    def oracle(self, case, impl_out):
        bad = []
        pushed, popped = Counter(), Counter()
        prev = None
        workers = None
        for op, out in zip(case.ops, impl_out):
            t = op.split()
            if out.startswith("panic") or out.startswith("crash"):
                bad.append(("bpool:panic", f"{op} -> {out}"))
                return bad
            p = parse(out)
            if p is None:
                continue
            res, count, head, glob, loc = p
            held = Counter((head or []) + [b for q in glob for b in q] + [b for q in loc for b in q])
            if t[1] == "new":
                pushed, popped = Counter(), Counter()
                workers = int(t[2])
            elif t[1] == "push":
                pushed[int(t[3])] += 1
            elif t[1] == "pushn":
                for k in range(int(t[4])):
                    pushed[int(t[3]) + k] += 1
            elif t[1] in ("pop", "popn"):
                rs = [res] if t[1] == "pop" else ([] if res == "-" else res.split(","))
                poppable_before = prev is not None and ((prev[2] or []) != [] or prev[3] != [])
                for i, r in enumerate(rs):
                    if r in ("none", "x"):
                        # nothing outside the local queues may be left when pop gives up
                        if i == 0 and poppable_before:
                            bad.append(("bpool:pop-none-while-poppable", f"{op} returned none although head/global held blocks"))
                    else:
                        popped[int(r)] += 1
                if any(r in ("none", "x") for r in rs) and ((head or []) != [] or glob != []):
                    bad.append(("bpool:pop-none-while-poppable", f"{op} gave up although head/global still hold blocks: {out[:200]}"))
            elif t[1] == "flush":
                if count > 0 and any(q for q in loc):
                    bad.append(("bpool:flush-leaves-local", f"after flush_all a local queue is non-empty: {out[:200]}"))
            elif t[1] == "len":
                if int(res) != count:
                    bad.append(("bpool:len", f"len() = {res}, count = {count}"))
            elif t[1] == "iter":
                it = Counter([] if res == "-" else [int(x) for x in res.split(",")])
                if it != held:
                    bad.append(("bpool:iterate", f"iterate_blocks yields {sum(it.values())} blocks, the queues hold {sum(held.values())}"))
            if pushed != popped + held:
                lost = pushed - popped - held
                extra = (popped + held) - pushed
                bad.append(("bpool:conservation", f"after `{op}`: lost {dict(list(lost.items())[:5])} duplicated/invented {dict(list(extra.items())[:5])}"))
            if count != sum(held.values()):
                bad.append(("bpool:count", f"after `{op}`: count = {count} but {sum(held.values())} blocks are held"))
            if any(not q for q in glob):
                bad.append(("bpool:empty-global-queue", f"after `{op}`: an empty queue sits in global"))
            if any(len(q) > CAP for q in glob + loc + ([head] if head else [])):
                bad.append(("bpool:capacity", f"after `{op}`: a queue exceeds CAPACITY"))
            prev = p
            if bad:
                break
        return bad

    def nontrivial(self, case, out):
        return any(" g=[" in o for o in out)

    def summarize(self, cases, outs):
        ops, feat = Counter(), Counter()
        for c, o in zip(cases, outs):
            for op, x in zip(c.ops, o):
                t = op.split()
                ops[t[1] if len(t) > 1 else "?"] += 1
                p = parse(x)
                if p:
                    if len(p[3]) >= 2:
                        feat["global>=2 queues"] += 1
                    if p[2] is not None and p[2]:
                        feat["head non-empty"] += 1
                    if any(len(q) == CAP for q in p[3]):
                        feat["full queue in global"] += 1
                    if p[0] in ("none",) and p[1] > 0:
                        feat["pop none with count>0 (blocks only in locals)"] += 1
                elif x.startswith("bad-op"):
                    feat["bad-op"] += 1
        return {"op": dict(ops), "state_features": dict(feat)}

    # ---------------------------------------------------------------- real-thread histories
    def race_cases(self, rng, tier):
        n = 120 if tier == "quick" else 4000
        cases = []
        for i in range(n):
            w = rng.choice([1, 2, 2, 3, 4, 6, 8])
            p = rng.choice([0, 1, 2, 2, 3, 4, 8])
            per = rng.choice([1, 5, 40, CAP - 1, CAP, CAP + 1, 2 * CAP + 7, 700])
            cases.append(Case([f"bpool race {w} {p} {rng.getrandbits(40)} {per} {rng.randrange(2)}"], ["cfg debug 1"], "race"))
        return cases

    def judge_ops(self, case, out):
        t = case.ops[0].split()
        return [f"bpool judge {t[6]} {out[0] if out else 'crash'}"]

    def race_oracle(self, case, out):
        t = case.ops[0].split()
        w, per, flush = int(t[2]), int(t[5]), t[6] != "0"
        line = out[0] if out else "crash"
        if not line.startswith("pushed="):
            return [("race:bpool:crash", f"history did not finish: {line}")]
        f = dict(x.split("=", 1) for x in line.split())
        N = int(f["pushed"])
        popped, held, drained = parse_q(f["popped"]), parse_q(f["held"]), parse_q(f["drained"])
        bad = []
        if N != w * per:
            bad.append(("race:bpool:pushed", f"{N} != {w}*{per}"))
        both = Counter(popped) + Counter(held)
        if both != Counter(range(N)):
            lost = Counter(range(N)) - both
            extra = both - Counter(range(N))
            bad.append(("race:bpool:conservation", f"lost {sorted(lost)[:8]} duplicated/invented {sorted(extra.elements())[:8]}"))
        if int(f["len_after_conc"]) != len(held):
            bad.append(("race:bpool:len", f"len() = {f['len_after_conc']} at quiescence, {len(held)} blocks held"))
        if Counter(drained) - Counter(held):
            bad.append(("race:bpool:drain-invented", "the final drain returned blocks that were not held"))
        if int(f["len_end"]) + len(drained) != len(held):
            bad.append(("race:bpool:len-end", f"len_end {f['len_end']} + drained {len(drained)} != held {len(held)}"))
        if flush and (sorted(drained) != sorted(held) or int(f["len_end"]) != 0):
            bad.append(("race:bpool:flush-not-poppable", f"after flush_all only {len(drained)} of {len(held)} held blocks could be popped"))
        return bad

    def race_summary(self, cases, outs):
        conc, shapes = Counter(), Counter()
        for c, o in zip(cases, outs):
            t = c.ops[0].split()
            shapes[f"{t[2]}w/{t[3]}p"] += 1
            if o and o[0].startswith("pushed="):
                f = dict(x.split("=", 1) for x in o[0].split())
                k = int(f["conc"])
                conc["0" if k == 0 else "1..255" if k < 256 else ">=256"] += 1
        return {"race_threads": dict(shapes), "blocks_popped_concurrently": dict(conc)}


META = {
    "text": "Lean theorems about an interleaving transition system of BlockPool (atomic steps: count fetch_add, owner-only local "
            "push / overflow replace, push of the full queue to global, count check, head lock, head pop, global refill, "
            "fetch_sub, flush) for any number of workers and poppers, any capacity >= 1 and every interleaving: multiset "
            "conservation pushed = popped + held + in flight, pop only pushed / at most once, count exact at quiescence, every "
            "global queue non-empty (the unwrap cannot panic), head replaced only when empty, flush_all makes every held block "
            "poppable. Tie: exact sequential differential of histories (worker ordinal settable, CAPACITY overflow reached) with "
            "full queue dumps, plus real-thread histories with armed yield points judged by a Lean predicate and a Python oracle.",
    "note": "Proof over the SC model under the stated ownership guards; partial w.r.t. the code (sequential histories exact, "
            "concurrent schedules sampled; parking_lot RwLock and crossbeam-free array queue trusted as atomic steps).",
    "technique": "Lean 4 inductive invariant (weighted ledger over function-indexed threads) + exact differential + real-thread "
                 "histories checked by an executable Lean predicate proved sound",
}


def main(argv=None):
    return CC.main(Spec(), argv)
