"""C40 — revisitable group-by partitions its input into maximal runs."""
from vlib import unit
from vlib.engine import Case


class Spec(unit.UnitSpec):
    pid = "C40"
    modules = ["MmtkModel.Props.C40"]
    theorems = ["Mmtk.RevGroup.groups_concat", "Mmtk.RevGroup.group_nonempty_same_key",
                "Mmtk.RevGroup.adjacent_keys_differ", "Mmtk.RevGroup.len_eq_count",
                "Mmtk.RevGroup.groups_fuel_irrelevant"]
    component = "revgroup"
    relation = "Mmtk.RevGroup.groups ≙ util::rust_util::rev_group (via verif::rev_group)"
    assumptions = ["the underlying Iterator+Clone is a slice iterator (List in the model)",
                   "key functions exercised by the differential: identity and x % m"]
    rule = ("random u64 sequences (lengths 0..60, run-heavy: values drawn from a small alphabet so that runs of equal "
            "keys of length 1..k occur) × key moduli {0(identity),1(constant),2,3,5,7}; non-trivial = at least two "
            "groups or a group of length ≥ 2; distinct = distinct (input, output)")

    def gen(self, rng, tier, debug):
        n = 1500 if tier == "quick" else 60000
        cases = []
        for i in range(n):
            m = rng.choice([0, 1, 2, 2, 3, 5, 7])
            ln = rng.choice([0, 1, 2, 3, 5, 8, 13, 21, 40, 60]) if rng.random() < 0.5 else rng.randrange(0, 30)
            alpha = rng.choice([1, 2, 3, 4, 10, 1 << 40])
            xs = []
            while len(xs) < ln:
                v = rng.randrange(alpha) if alpha < (1 << 40) else rng.getrandbits(64)
                xs += [v] * rng.choice([1, 1, 1, 2, 3, 7])
            xs = xs[:ln]
            cases.append(Case([f"revgroup {m} " + " ".join(map(str, xs))]))
        return cases

    def corpus(self, debug):
        return [Case(["revgroup 2 1 3 5 2 4 6 7 9"]), Case(["revgroup 0"]), Case(["revgroup 1 4 4 9"]),
                Case(["revgroup 10 10 20 30 40 11 21 31 12 22"])]

    @staticmethod
    def parse(out):
        if out == "-":
            return []
        gs = []
        for g in out.split(";"):
            k, ln, items = g.split(":")
            items = items.strip("[]")
            # `len` as read before the group is iterated / after one item was pulled / after the group was exhausted:
            # printed as one number when the three agree, else `a/b/c`
            lns = [int(x) for x in ln.split("/")]
            its = [int(x) for x in items.split(",")] if items else []
            gs.append((int(k), lns[0] if len(set(lns)) == 1 else next((x for x in lns if x != len(its)), lns[0]), its))
        return gs

    def oracle(self, case, impl_out):
        toks = case.ops[0].split()
        m, xs = int(toks[1]), [int(t) for t in toks[2:]]
        key = (lambda x: x) if m == 0 else (lambda x: x % m)
        out = impl_out[0] if impl_out else "crash"
        try:
            gs = self.parse(out)
        except Exception:
            return [("revgroup:panic-or-garbage", f"group-by did not return groups on {case.ops[0]!r}: {out}")]
        bad = []
        if [x for _, _, it in gs for x in it] != xs:
            bad.append(("revgroup:concat", "groups do not concatenate to the input"))
        if any(not it or any(key(x) != k for x in it) for k, _, it in gs):
            bad.append(("revgroup:same-key", "a group is empty or has an item with a different key"))
        if any(a[0] == b[0] for a, b in zip(gs, gs[1:])):
            bad.append(("revgroup:maximal", "adjacent groups share a key"))
        if any(ln != len(it) for _, ln, it in gs):
            bad.append(("revgroup:len", "a group's reported len differs from its item count (len is read before iterating the group, "
                                        "after pulling one item, and after exhausting it): " + out[:200]))
        return bad

    def nontrivial(self, case, out):
        try:
            gs = self.parse(out[0])
        except Exception:
            return True
        return len(gs) >= 2 or any(ln >= 2 for _, ln, _ in gs)

    def summarize(self, cases, outs):
        h = {}
        for c in cases:
            n = len(c.ops[0].split()) - 2
            b = "len0" if n == 0 else "len1" if n == 1 else "len2-9" if n < 10 else "len10+"
            h[b] = h.get(b, 0) + 1
        return {"input_length": h}


META = {
    "text": 'Lean theorems over all lists and all key functions: groups concatenate to the input, non-empty same-key groups, adjacent keys differ, len = item count, termination; model transcribes the iterator state machine and is compared exactly with the real iterator.',
    "note": 'Trusted: Lean kernel + standard axioms; iterator modelled as a list (Clone = keep the list); tie = sampling differential through the verif::rev_group wrapper (u64 items, keys x % m).',
    "technique": 'Lean 4 proof (induction on fuel with state invariant) + exact differential',
}


def main(argv=None):
    return unit.main(Spec(), argv)
