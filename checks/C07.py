"""C07 — after an exhaustive GC, MMTk reports exactly the surviving objects (`enumerate_objects`, `is_mmtk_object`):
after every forced exhaustive GC of generated programs the enumerated ids and the `ismo` answer on every enumerated
and every previously known address are compared with the monitor's survivor set."""
import random, re
from checks import gcweak_common as W
from checks.C06 import RefModel, RGen, GENERATIONAL, gen_refs, gen_resurrect
from vlib import gcrun as G

PLANS = list(G.PLANS)
THEOREMS = ["Mmtk.VO.vo_exact_after_full_gc", "Mmtk.VO.enumerate_exact_once", "Mmtk.VO.dead_not_reported", "Mmtk.VO.postAlloc_exact",
            "Mmtk.VO.copy_exact", "Mmtk.VO.sweep_exact", "Mmtk.VO.immix_exact", "Mmtk.VO.compact_exact", "Mmtk.VO.compressor_exact",
            "Mmtk.VO.mem_scanRange", "Mmtk.VO.scanRange_nodup",
            "Mmtk.VO.sweepBlockLines_vo", "Mmtk.VO.gcImmixLines_eq", "Mmtk.VO.immix_lines_exact", "Mmtk.VO.immix_exact_full_block"]
KEYS = ("gc:enum-dup", "gc:enum-missing", "gc:enum-extra", "gc:ismo-missing", "gc:ismo-stale")
NEVER = ("immortal", "code_space", "large_code_space", "ro_space", "vm_space")
META = {
    "text": "VO-bit model (Model/VO.lean): the bit set as a function on word addresses with the primitive operations of vo_bit/mod.rs (set, unset, bzero, bcopy-from-mark-bits) and each policy's collection-time update transcribed as a fold over them — CopySpace (set on copy, bzero of the from-space regions), ImmixSpace (set on forward, per-block copy of the side mark bits / bzero at sweep), native MarkSweepSpace and LargeObjectSpace (unset per dead cell / object), MarkCompactSpace (linear scan in address order: unset old, set new), CompressorSpace (bzero region, set new), immortal spaces (never cleared). Theorem `vo_exact_after_full_gc`: if the bits were exactly the objects of the space before a full-heap collection, afterwards they are exactly the new references of the traced objects (reachable, soft-retained or finalizer-resurrected), for every object list, liveness and forwarding map satisfying the policy's layout conditions; a never-collected space keeps all; `dead_not_reported`. Immix at line level: `sweepBlockLines` transcribes `Block::sweep` with line marks branch for branch (no marked line: zero + release; otherwise the VO bits are copied from the mark bits AFTER the `if is_reusable` that only picks the block state); `sweepBlockLines_vo` / `gcImmixLines_eq`: its VO effect does not depend on reusability, `immix_exact_full_block`: a block that ends the collection with all of its lines marked (`NoReuse`) has exactly the survivors' bits, a dead object sharing its lines with survivors is not reported. `enumerate_exact_once`: scanning pairwise disjoint regions plus a duplicate-free treadmill visits every set bit exactly once and nothing else. Real collections: generated programs (all semantics, sharing, cycles, root churn, reference objects and finalizers that resurrect subgraphs, soft-retained referents) on all 11 plans x {1,4} workers, plus the dense-lines class (whole 32 KB Immix blocks filled with 128 / 64-byte objects, survivors chosen per 256-byte line: every 2nd, first / last of the line only, random, one line dead as control; dying young or after being matured; repeated exhaustive GCs, more deaths, new objects in the holes) on Immix, GenImmix, StickyImmix, ConcurrentImmix and on the non-moving ImmixSpace of Immix / SemiSpace / MarkSweep — there EVERY former object address is probed and the `immix` dump must show a block with all 128 lines marked that holds dead objects; after every forced exhaustive GC hx_gc's `enum` (MMTK::enumerate_objects) and `ismo` (memory_manager::is_mmtk_object) on every enumerated and every previously known address are compared with the survivor set computed by the Lean monitor (reach of the shadow heap + the reference / finalizer pipeline + never-collected spaces + allocations since the pause), each object once.",
    "note": "Level: proof of the model, partial w.r.t. the code. After a nursery collection only soundness (no valid object missing) is checked: dead mature objects legitimately keep their bit until the next full-heap collection. Known defects that fall under the generators' avoidance rules are inherited from C01/C06 (NonMoving on most plans, gc:los-nursery-weak-dangling, gc:markcompact-immortal-referent).",
    "technique": "Lean 4 proof (per-policy bit-set invariants, exactly-once enumeration) + run-time verification of real collections by the survivor-set monitor + independent oracle",
    "category": "proof",
}


def d_vo(ctx, args):
    """!vo <n>: `enum`, then `ismo` on every enumerated address and on up to n previously known addresses"""
    n = (1 << 30 if args[0] == "all" else int(args[0])) if args else 300
    res = ctx.send("enum")
    if not res or not res.startswith("enum"):
        return
    body = res.split(" ", 1)[1] if " " in res else ""
    addrs = [int(e.split(":")[1], 16) for e in body.split(",") if e]
    known = sorted(set(ctx.refs.values()) - set(addrs))
    rnd = random.Random(len(ctx.pairs))
    for a in (addrs if len(addrs) <= n else rnd.sample(addrs, n)) + (known if len(known) <= n else rnd.sample(known, n)):
        ctx.send(f"ismo {a:#x}")


DIRECTIVES = {"vo": d_vo}


def with_vo(ops, n=200):
    """insert `!vo` after every forced exhaustive GC (the runner injects the snapshot itself); n = "all": every
    enumerated and EVERY former object address is probed"""
    out, skip = [], False
    for i, op in enumerate(ops):
        out.append(op)
        t = op.split()
        if t[0] == "gc" and t[2] == "1":
            out.append(f"!vo {n}")
    return out


def gen_nursery_then_full(rnd, plan, info, heap, workers):
    """generational plans: objects die old (floating garbage after a nursery GC keeps its VO bit: soundness only),
    then a full GC must clear them"""
    g = G.Gen(rnd, plan, info, "fs_main", heap)
    g.anchor()
    keep = []
    for k in range(30):
        x = g.alloc(0, rnd.choice([0, 1, 2]), rnd.choice([32, 64, 512, 4000]), rnd.choice(["Default", "Default", "Los"]), slot=k % 40)
        keep.append(x)
    g.ops += ["gc 0 0", "enum"]
    for s in range(0, 20):
        g.root(0, s, None)
    for k in range(10):
        g.alloc(0, 1, 64, "Default", slot=45)
    g.ops += ["gc 0 0", "enum", "gc 0 1", "gc 0 0", "enum"]
    for s in range(0, 48):
        g.root(0, s, None)
    g.ops += ["gc 0 1"]
    return G.Program(plan, with_vo(G.normalize(g.ops)), heap=heap, workers=workers, tag="nursery-full")


IMMIX_LINE_PLANS = ("Immix", "GenImmix", "StickyImmix", "ConcurrentImmix")
NONMOVING_IMMIX_PLANS = ("Immix", "SemiSpace", "MarkSweep")      # NonMoving = the plan's default non-moving ImmixSpace


def dense_suite(seed, tier):
    """dense-lines (vlib/gcrun.gen_dense_lines): whole Immix blocks of 128 / 64-byte objects, survivors chosen per
    line, on every plan whose default space is an ImmixSpace with lines + the non-moving ImmixSpace of other plans.
    Quick: per plan, w=1 runs a pattern that leaves EVERY line marked (full block with garbage), w=4 any pattern
    (controls included); thorough: every pattern x {die young, die old}."""
    progs = []
    thorough = tier == "thorough"
    for plan in IMMIX_LINE_PLANS + tuple(f"{p}/NonMoving" for p in NONMOVING_IMMIX_PLANS):
        plan, _, sem = plan.partition("/")
        sem = sem or "Default"
        info = G.plan_info(plan, "fs_main")
        if not info["vobit"] or not info["collects"]:
            continue
        if thorough:
            combos = [(w, pat, old) for pat in G.DENSE_PATTERNS for old in (False, True) for w in ((1, 4) if sem == "Default" else (1,))]
        else:
            combos = [(1, None, None), (4, "any", None)] if sem == "Default" else [(1, None, None)]
        for k, (w, pat, old) in enumerate(combos):
            rnd = random.Random(f"{seed}/C07/dense/{plan}/{sem}/{w}/{k}")
            if pat is None:
                pat = rnd.choice(G.DENSE_FULL)
            elif pat == "any":
                pat = rnd.choice(G.DENSE_PATTERNS)
            p = G.gen_dense_lines(rnd, plan, info, "fs_main", 64 * G.MB, w, blocks=rnd.choice([2, 3, 4]), sem=sem, pattern=pat,
                                  old=old, probe="")
            p.ops = with_vo(p.ops, "all")
            p.yield_seed = rnd.randrange(1, 1 << 30) if thorough else 0
            progs.append(p)
    return progs


def parse_immix(res):
    """`immix` answer -> [(space, line mark state, [(block start, state byte, [line bytes])])]"""
    out = []
    for part in res.split(" space=")[1:]:
        f = part.split()
        kv = dict(x.split("=", 1) for x in f[1:] if "=" in x)
        blocks = []
        for b in kv.get("blocks", "").split(";"):
            if b:
                st, state, lines = b.split(":")
                blocks.append((int(st, 16), int(state), [int(lines[i:i + 2], 16) for i in range(0, len(lines), 2)]))
        out.append((f[0], int(kv.get("cur", "0")), blocks))
    return out


def dense_coverage(tr):
    """per `immix` dump of a trace (taken right after a forced exhaustive GC + probes): (number of blocks whose 128
    lines are ALL marked and that contain the former address of >= 1 dead object, number of reusable blocks with garbage)"""
    refs, last, out = {}, set(), []
    for op, res in tr.pairs:
        t = op.split()
        if t[0] == "alloc" and res.startswith("a="):
            refs[int(t[2])] = int(re.search(r"\br=(0x[0-9a-f]+)", res).group(1), 16)
        elif t[0] == "snap" and res.startswith("snap"):
            cur = {}
            G._note_refs(res, cur)
            refs.update(cur)
            last = set(cur)
        elif t[0] == "immix" and res.startswith("immix"):
            dead = sorted(a for i, a in refs.items() if i not in last)
            full = reusable = 0
            for name, cur, blocks in parse_immix(res):
                for start, state, lines in blocks:
                    if not any(start <= a < start + 32768 for a in dead):
                        continue
                    if state == 255 and all(x == cur for x in lines):
                        full += 1
                    elif state not in (0, 254, 255):
                        reusable += 1
            out.append((full, reusable))
    return out


def post(traces):
    """the dense-lines programs must really produce what they are for: a block that ends an exhaustive GC with all of
    its lines marked and dead objects inside (otherwise Block::sweep's not-reusable branch is not exercised)"""
    miss = []
    for plan in sorted({tr.program.plan for tr in traces if tr.program.tag.startswith("dense-lines")}):
        trs = [tr for tr in traces if tr.program.plan == plan and tr.program.tag.startswith("dense-lines") and tr.rc == 0]
        if trs and not any(f for tr in trs for f, _ in dense_coverage(tr)):
            miss.append(plan)
    if miss:
        return [W.Violation("machinery:dense-lines-coverage", f"no dense-lines program produced a completely full Immix block with garbage on {miss}",
                            None, None, None, False, broken="generator coverage (dense-lines)")]
    return []


def make_suite(seed, tier):
    progs = dense_suite(seed, tier)
    thorough = tier == "thorough"
    for plan in PLANS:
        info = G.plan_info(plan, "fs_main")
        if not info["vobit"]:
            continue
        for w in (1, 4):
            for rep in range(4 if thorough else 1):
                rnd = random.Random(f"{seed}/C07/{plan}/{w}/{rep}")
                ys = rnd.randrange(1, 1 << 30) if thorough else 0
                heap = 64 * G.MB
                ps = []
                mixed = G.gen_mixed(rnd, plan, info, "fs_main", heap, 250 if not thorough else 1000, w)
                mixed.ops = with_vo(mixed.ops)
                mixed.tag = "mixed+vo"
                ps.append(mixed)
                if info["collects"] and (w == 1 or thorough):
                    p = gen_refs(rnd, plan, info, heap, w, rounds=3)
                    p.ops = with_vo(p.ops)
                    p.tag = "refs+vo"
                    ps.append(p)
                    p = gen_resurrect(rnd, plan, info, heap, w)
                    p.ops = with_vo(p.ops)
                    p.tag = "resurrect+vo"
                    ps.append(p)
                if plan in GENERATIONAL and w == 4:
                    ps.append(gen_nursery_then_full(rnd, plan, info, heap, w))
                for p in ps:
                    p.yield_seed = ys
                progs += ps
    return progs


def oracle(trace, findint=None):
    """independent statement: S = survivors of the last pause (Python reference / finalizer pipeline on its own shadow
    heap) + never-collected objects + allocations since; after a full-heap GC `enum` must list exactly S, each id once
    (after a nursery GC: at least S); `ismo a` answers the id of the object of S whose current reference is a, and
    `none` when S has no object there (and the address of every object of S is known)."""
    m = RefModel(trace.program.plan in GENERATIONAL)
    out, gcs = [], 0
    ref, space, moves, collects = {}, {}, True, True
    exact, in_snap, fixed, refoff = True, set(), set(), 8
    for idx, (op, res) in enumerate(trace.pairs):
        t, r = op.split(), res.split()
        if not r or r[0].startswith("crash:") or r[0] in ("fatal", "timeout"):
            continue
        g = G._GCS.search(res)
        if g and int(g.group(1)) != gcs:
            gcs = int(g.group(1))
            nursery = m.generational and not (t[0] == "gc" and t[2] == "1")
            m.gc(nursery=nursery)
            exact, in_snap = not nursery, set()
        k = t[0]

        def alive(i):
            return ref.get(i, 0) != 0 and (not collects or space.get(i) in NEVER or i >= m.born_before or i in m.alive)

        def known(i):
            return i >= m.born_before or i in in_snap or i in fixed

        if k == "constraints":
            moves, collects = "moves=1" in r, "collects=1" in r
            refoff = int(re.search(r"refoff=(\d+)", res).group(1))
        elif k == "alloc":
            if r[0].startswith("a="):
                kv = dict(x.split("=", 1) for x in r if "=" in x)
                m.sh.apply(t, int(kv["sz"]))
                i = int(t[2])
                ref[i], space[i] = int(kv["r"], 16), kv["space"]
                if kv["space"] in NEVER:
                    m.immortal.add(i)
                if t[7] != "Default" or not moves:
                    fixed.add(i)
            else:
                m.sh.apply(t, 0)
                m.sh._set_root(G.mut_key(int(t[1]), int(t[8])), None)
        elif k in ("root", "vmroot", "write", "copyrange", "destroy", "mkref") and r[0] == "ok":
            m.sh.apply(t)
        elif k in ("pin", "unpin") and r[0] in ("true", "false"):
            (fixed.add if k == "pin" else fixed.discard)(int(t[1]))
        elif k == "addref" and r[0] == "ok":
            if int(t[2]) not in m.tab[t[3]]:
                m.tab[t[3]].append(int(t[2]))
        elif k == "addfin" and r[0] == "ok":
            m.cand.append(int(t[2]))
        elif k == "getfin":
            want = m.ready.pop() if m.ready else None
            if want is not None and len(t) >= 3 and res == str(want):
                m.sh._set_root(G.mut_key(int(t[1]), int(t[2])), want)
                m.sh._reach = None
        elif k == "getallfin":
            m.cand, m.ready = [], []
        elif k == "enqueued":
            m.enq = []
        elif k == "snap" and r[0] == "snap":
            kv = dict(p.split("=", 1) for p in r[1:] if "=" in p)
            for e in (kv.get("objs", "").split(";") if kv.get("objs") else []):
                f = e.split(":")
                ref[int(f[0])] = int(f[1], 16)
                in_snap.add(int(f[0]))
        elif k == "enum" and r[0] == "enum":
            ids = [int(e.split(":")[0]) for e in (r[1].split(",") if len(r) > 1 else []) if e]
            S = {i for i in m.sh.objs if alive(i)}
            dup = [i for i in set(ids) if ids.count(i) > 1] if len(set(ids)) != len(ids) else []
            if dup:
                out.append((idx, "gc:enum-dup", f"id={min(dup)}"))
            elif S - set(ids):
                out.append((idx, "gc:enum-missing", f"id={min(S - set(ids))}"))
            elif exact and set(ids) - S:
                out.append((idx, "gc:enum-extra", f"id={min(set(ids) - S)}"))
        elif k == "findint" and findint is not None:
            valid = [(ref[i], i, m.sh.objs[i]["size"], space.get(i, ""), ref[i] - refoff) for i in ref if alive(i) and known(i)]
            floaters = any(alive(i) and not known(i) for i in ref)
            e = findint(t, res, valid, exact and not floaters)
            if e:
                out.append((idx,) + e)
        elif k == "ismo" and t[1].startswith("0x") and r[0] != "unsupported":
            a = int(t[1], 16)
            cands = sorted(i for i, v in ref.items() if v == a and alive(i) and known(i))
            if a and cands:
                if res != str(cands[0]):
                    out.append((idx, "gc:ismo-missing", f"id={cands[0]} at {a:#x}: {res}"))
            elif exact and res != "none" and not res.startswith("panic") and not any(alive(i) and not known(i) for i in ref):
                out.append((idx, "gc:ismo-stale", f"{a:#x}: {res}"))
    return sorted(set(out))


def stats(traces):
    """evaluations = `enum` comparisons + `ismo` probes; non-trivial = an `enum` after >= 1 pause that lists >= 2 objects while
    >= 1 object had been reclaimed, distinct by (plan, workers, kind, pause, listed)"""
    ev, nontriv, dist = 0, set(), {}
    bump = lambda k, n=1: dist.__setitem__(k, dist.get(k, 0) + n)
    for tr in traces:
        p = tr.program
        gcs, allocs = 0, 0
        for op, res in tr.pairs:
            t, r = op.split(), res.split()
            if not r:
                continue
            g = G._GCS.search(res)
            if g:
                gcs = int(g.group(1))
            if t[0] == "alloc" and r[0].startswith("a="):
                allocs += 1
            elif t[0] == "enum" and r[0] == "enum":
                ev += 1
                n = len(r[1].split(",")) if len(r) > 1 and r[1] else 0
                bump("enum")
                bump("enumerated_objects", n)
                if gcs and n >= 2 and n < allocs:
                    nontriv.add((p.plan, p.workers, p.tag, gcs, n))
            elif t[0] == "ismo":
                ev += 1
                bump("ismo:" + ("valid" if r[0] not in ("none", "unsupported") and not r[0].startswith("panic") else r[0]))
        if p.tag.startswith("dense-lines"):
            for k, (full, reusable) in enumerate(dense_coverage(tr)):
                bump("dense:full-blocks-with-garbage", full)
                bump("dense:reusable-blocks-with-garbage", reusable)
                if full:
                    nontriv.add((p.plan, p.workers, p.tag, "full-block", k, full))
    return ev, len(nontriv), dist


CORPUS = []
MALFORMED = ["gcw reset", "gcw res ok", "gcw op enum", "gcw res enum 1:zz", "gcw op enum", "gcw res enum 3:10,3:18", "gcw op enum", "gcw res enum 9:10",
             "gcw op ismo 0x10", "gcw res 4", "gcw op ismo junk", "gcw res none", "gcw op enum", "gcw res unsupported", "gcw bogus"]


def main(argv=None):
    return W.run_check("C07", argv, ["MmtkModel.Props.C07"], THEOREMS, KEYS, make_suite, oracle, CORPUS, stats,
                       rule="one evaluation = one `enum` (ids compared with the survivor set, each once) or one `ismo` probe on an enumerated / previously known address (dense-lines programs: EVERY former object address); non-trivial = an `enum` after >= 1 pause listing >= 2 objects while >= 1 allocated object had been reclaimed, or an `immix` dump showing >= 1 block with all 128 lines marked that holds dead objects; distinct by (plan, workers, kind, pause, listed)",
                       assumptions=["`gc m 1` is a full-heap collection on every plan (ConcurrentImmix: Pause::Full); after a nursery collection only `no valid object is missing` is checked",
                                    "object ids are read from the object header by hx_gc (`enum` prints id:reference)",
                                    "addresses of unreachable-but-alive objects in moving spaces are unknown to the monitor: while such objects exist `none` answers are not asserted",
                                    "the VerifVM binding calls post_alloc for every allocation (VO bit set at birth)"],
                       directives=DIRECTIVES, malformed=MALFORMED, post=post)
