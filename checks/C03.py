"""C03 — allocation results honour size, alignment, offset, zeroing and semantics."""
from checks import gcmon_common as C

THEOREMS = ["Mmtk.Heap.checkAlloc_none_iff", "Mmtk.Heap.sizeFor_ge", "Mmtk.Heap.sizeFor_aligned", "Mmtk.Heap.sizeFor_min",
            # the allocators' arithmetic (every legal input), Props/C03Algo.lean
            "Mmtk.AllocArith.alignAllocation_good", "Mmtk.AllocArith.maxAlignedSize_val", "Mmtk.AllocArith.bump_fast_cases", "Mmtk.AllocArith.bump_fast_ok", "Mmtk.AllocArith.bump_fast_never_panics", "Mmtk.AllocArith.bump_fast_refines", "Mmtk.AllocArith.fresh_buffer_fits", "Mmtk.AllocArith.acquireBlockSize_spec", "Mmtk.AllocArith.fresh_block_cases", "Mmtk.AllocArith.fresh_block_fits_iff", "Mmtk.AllocArith.fresh_block_ok", "Mmtk.AllocArith.fresh_block_never_panics_old", "Mmtk.AllocArith.fresh_block_fits_offset_multiple", "Mmtk.AllocArith.fresh_block_with_slack_fits", "Mmtk.AllocArith.bump_align_leak", "Mmtk.AllocArith.bump_align_leak_witness", "Mmtk.AllocArith.immix_hole_fits", "Mmtk.AllocArith.immix_clean_block_fits", "Mmtk.AllocArith.los_alloc_within_pages", "Mmtk.AllocArith.los_no_slack_overflows", "Mmtk.AllocArith.los_pages_without_slack_too_small", "Mmtk.AllocArith.freelist_alloc_within_cell", "Mmtk.AllocArith.bump_alloc_result_good", "Mmtk.AllocArith.acquire_block_result_good_old", "Mmtk.AllocArith.immix_hole_result_good", "Mmtk.AllocArith.los_alloc_result_good", "Mmtk.AllocArith.freelist_alloc_result_good", "Mmtk.AllocArith.alloc_result_good",
            # the repaired acquire_block (this tree)
            "Mmtk.AllocArith.fresh_block_always_fits", "Mmtk.AllocArith.fresh_block_never_panics", "Mmtk.AllocArith.acquire_block_result_good", "Mmtk.AllocArith.acquireBlock_eq_old_of_min_align"]
META = {
    "text": "At every `alloc` of every run the monitor evaluates the clauses of C03 on what the real allocator returned: non-null, (a+offset) % align = 0, granted size = requested object size, is_in_mmtk_spaces, bytes zero, SFT space = the plan's allocator mapping for the semantics (asked from the live plan: `allocmap`), and `timeout` = non-termination (watchdog). Proved: `checkAlloc` answers none exactly when the conjunction of the clauses holds (`checkAlloc_none_iff`), and the requested size covers header + fields + payload, is 8-aligned and >= 32 (`sizeFor_*`). Inputs: structured sweep of every legal semantics x boundary sizes (TLAB 32 KB, Immix line/block, mark-sweep classes and the 64 KB limit, the plan's LOS threshold +-8/64, pages, up to 256 KB) x aligns 8..64 x offsets 0..72, on all 11 plans, plus the allocations of all other programs.",
    "note": "Level: proof of the verdict function, partial w.r.t. the code. NEW defect gc:bump-align-leak (BumpAllocator::acquire_block ignores the alignment slack; the request never fits its fresh block, leaks a block per retry and ends in out_of_memory / `GC triggered in nogc`) is reported by a dedicated corpus program and kept out of the random stream. copyspace0/copyspace1 are identified (the mapping flips at every GC).",
    "technique": "Lean 4 proof (verdict function = clause conjunction) + run-time verification of real allocations + independent oracle",
    "category": "proof",
}


def main(argv=None):
    return C.run_check("C03", argv, ["MmtkModel.Props.C03", "MmtkModel.Props.C03Algo"], THEOREMS, "common",
                       rule="one evaluation = one successful `alloc`; distinct non-trivial = distinct (plan, semantics, size, align, offset)",
                       assumptions=["termination is observed through the 60 s watchdog (a non-returning call prints `timeout`)",
                                    "semantics the plan maps to no allocator (Code/ReadOnly/LargeCode without the code_space / ro_space features) are not legal inputs"])
