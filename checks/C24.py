"""C24 — side-metadata tables in use by one configuration never alias (translator + kernel-checked table)."""
import json, os, sys, time, argparse
from concurrent.futures import ThreadPoolExecutor
from vlib import engine as E
from vlib.engine import Violation
sys.path.insert(0, os.path.join(E.VERIF, "gen"))
import emit_spectable as T

PLANS = ["NoGC", "SemiSpace", "GenCopy", "GenImmix", "MarkSweep", "PageProtect", "Immix", "MarkCompact",
         "Compressor", "StickyImmix", "ConcurrentImmix"]
FS_QUICK = ["fs_main", "fs_malloc"]
FS_THOROUGH = ["fs_main", "fs_malloc", "fs_plain", "fs_ms_nonmoving", "fs_imm_nonmoving", "fs_small"]
THEOREMS = ["Mmtk.Generated.SpecTable.all_rows_ok", "Mmtk.Layout.config_tables_never_alias",
            "Mmtk.Layout.sortedDisjoint_pairwise", "Mmtk.Layout.chain_disjoint", "Mmtk.Layout.rowOk_sound",
            "Mmtk.Layout.table_nonempty"]

META = {
    "text": "The configuration space is finite: the translator (hx_consts, linked against /repo's working tree) dumps, for every plan x feature set, the side specs each space of the live plan uses, and every placement/order of the VM specs computed with the real side_first/side_after; gen/emit_spectable.py regenerates Generated/SpecTable.lean every run; `decide +kernel` discharges pairwise disjointness + containment in the reserved range for every row, lifted by proved lemmas (sorted-adjacent check => pairwise non-overlap; any first/offset_after chain is disjoint). Exhaustive over the enumerated space.",
    "note": "Trusted: Lean kernel; the translator (hx_consts + emitter, ~250 lines) prints what the linked crate reports; a plan's use of a VM spec is taken from the all-on-side binding and assumed independent of placement (cross-checked against differently configured bindings in the thorough tier); forwarding pointer on the side is excluded (rejected by mmtk's own size budget); 64-bit target only.",
    "technique": "Lean 4 proof: regenerated finite table decided by kernel `decide`, lifted by general layout lemmas",
    "category": "proof",
}


def run_consts(fs, args):
    # the Compressor only instantiates on a binding whose reference == object start
    tdir = "cargo-" + fs + ("-unified_ref" if args[:2] == ["specs", "Compressor"] else "")
    exe = os.path.join(E.BUILD, tdir, "debug", "hx_consts")
    p = E.run([exe, *args], timeout=120, env={"RUST_BACKTRACE": "0"})
    if p.returncode != 0:
        raise RuntimeError(f"hx_consts {args} failed ({fs}): {p.stderr[:1500]}")
    return [json.loads(l) for l in p.stdout.splitlines() if l.startswith("{")]


def main(argv=None):
    ap = argparse.ArgumentParser()
    ap.add_argument("--tier", default=os.environ.get("VERIF_TIER", "quick"))
    ap.add_argument("--seed", type=int, default=int(os.environ.get("VERIF_SEED", "20260921")))
    ap.add_argument("--replay")
    a = ap.parse_args(argv)
    t0 = time.time()
    fss = FS_QUICK if a.tier == "quick" else FS_THOROUGH
    violations = []
    # 1. translator front end, built against /repo's working tree
    builds = {}
    variants = [(fs, extra) for fs in fss for extra in ((), ("unified_ref",))]
    with ThreadPoolExecutor(min(4, len(variants))) as ex:      # independent target dirs: up to 4 builds side by side
        built = list(ex.map(lambda v: E.cargo_build("hx_consts", fs=v[0], extra_features=v[1]), variants))
    for (fs, extra), (exe, err, bs) in zip(variants, built):
        builds[fs + ("+unified_ref" if extra else "")] = bs
        if exe is None:
            violations.append(Violation("harness-build-failed", f"hx_consts no longer builds ({fs} {extra}): {err[-1200:]}",
                                        found_input=False, broken="translator build"))
            return E.finish("C24", a.tier, a.seed, t0, {"obligations": len(THEOREMS), "discharged": 0}, {}, violations)
    dumps, panics = {}, []
    with ThreadPoolExecutor(8) as ex:
        futs = {(fs, p): ex.submit(run_consts, fs, ["specs", p]) for fs in fss for p in PLANS}
        for (fs, p), f in futs.items():
            try:
                dumps.setdefault(fs, []).append(f.result()[0])
            except Exception as e:
                panics.append((fs, p, str(e)))
    # VM placements, core chain and reserved sizes are constants of the linked crate: one set per feature set
    placements, core, reserved_by_placement = {}, {}, {}
    for fs in fss:
        placements[fs] = run_consts(fs, ["vmplacements"])
        core[fs] = run_consts(fs, ["core"])[0]["core"]
        with ThreadPoolExecutor(16) as ex:
            res = list(ex.map(lambda i, fs=fs: run_consts(fs, ["vmreserved", str(i)])[0], range(len(placements[fs]))))
        reserved_by_placement[fs] = {r["placement"]: r["reserved"] for r in res}
    rows, configs, core_end = T.build_rows(dumps, placements, core, reserved_by_placement)
    names = {s[0] for (_, specs) in rows for s in specs}
    T.emit(rows, names, os.path.join(E.LEAN_DIR, "MmtkModel", "Generated", "SpecTable.lean"))
    if a.replay:
        bad = T.find_violations(rows)
        print("REPLAY:", "violation reproduced: " + str(bad[0][:3]) if bad else "no aliasing configuration on this tree")
        return 1 if bad else 0
    # 2. kernel-checked obligations on the regenerated table
    lean = E.lean_check(["MmtkModel.Props.C24"], THEOREMS, extra_targets=(), fresh=(a.tier == "thorough"))
    lean["targets"] = ["MmtkModel.Props.C24"]
    # 3. independent search for a concrete aliasing configuration
    bad = T.find_violations(rows)
    for kind, s1, s2, reserved, cfgs in bad[:5]:
        what = (f"{kind}: {s1[0]} [{s1[2]:#x},{s1[2] + T.rsize(s1[3], s1[4]):#x})" +
                (f" and {s2[0]} [{s2[2]:#x},{s2[2] + T.rsize(s2[3], s2[4]):#x})" if s2 else f" beyond reserved {reserved:#x}") +
                f" in configurations {cfgs}")
        violations.append(Violation(f"layout:{kind}:{s1[0]}:{s2[0] if s2 else '-'}", what,
                                    {"configs": cfgs, "spec1": s1, "spec2": s2, "reserved": reserved}, None, None, True))
    import re
    for fs, plan, msg in panics:
        m = re.search(r"Overlapping metadata specs detected:.*?SideMetadataSpec (\w+) .*?offset: (0x[0-9a-f]+).*?SideMetadataSpec (\w+) .*?offset: (0x[0-9a-f]+)", msg, re.S)
        if m:
            a_, b_ = sorted([m.group(1), m.group(3)])
            violations.append(Violation(f"layout:overlap:{a_}:{b_}",
                f"plan {plan} ({fs}) cannot be created: mmtk's own sanity check reports that {m.group(1)}@{m.group(2)} and {m.group(3)}@{m.group(4)} overlap",
                {"fs": fs, "plan": plan, "spec1": m.group(1), "spec2": m.group(3)}, msg[-600:], None, True))
        else:
            violations.append(Violation(f"translator:plan-not-instantiable:{plan}",
                f"plan {plan} ({fs}) can no longer be instantiated by the translator, so its configurations are not covered: {msg[-400:]}",
                {"fs": fs, "plan": plan}, msg[-600:], None, False, broken="translator (hx_consts specs %s)" % plan))
    if not lean["ok"] and not bad:
        violations.append(Violation("proof-broken", f"Lean obligations on the regenerated table no longer check: {lean['failures']}",
                                    None, None, None, False, broken=str([f.get('theorem') or f['kind'] for f in lean['failures']])))
    # plans that cannot be instantiated with this binding are recorded, not hidden
    sample_rows = [{"reserved": r, "specs": [f"{n}@{o:#x}/{lb}b/{lr}" for n, g, o, lb, lr in specs], "configurations": len(c)}
                   for (r, specs), c in list(sorted(rows.items()))[:2]]
    corr = {
        "evaluations": len(configs), "distinct_nontrivial": len(rows), "exhaustive": True,
        "rule": "every (feature set, plan, VM placement) triple: feature sets %s x plans that instantiate x %d placements (log bit header/side x every order of every subset of {forwarding bits, mark bit, pinning bit, LOS mark/nursery} on the side); distinct = distinct (reserved, spec set) rows; every row is non-trivial (>= 1 spec)" % (fss, len(placements[fss[0]])),
        "samples": sample_rows,
        "programs": len(configs), "disagreements_checked": len(bad),
        "plans_not_instantiable": [(f, p, m[-200:]) for f, p, m in panics],
        "translator_build_s": builds, "lean_s": lean.get("lean_s"),
        "distribution": {"rows": len(rows), "configs": len(configs), "max_specs_in_row": max(len(s) for (_, s) in rows)},
    }
    return E.finish("C24", a.tier, a.seed, t0, lean, corr, violations,
                    assumptions=["64-bit target", "a plan's use of a VM spec does not depend on its placement",
                                 "bindings declare VM side specs as one side_first/side_after chain per kind (documented contract)",
                                 "the binding used to instantiate plans is VerifVM (all VM specs but the forwarding pointer on the side)"])
