"""C01 — collection preserves every reachable object and the reachable graph (snapshot monitor on real GC runs)."""
from checks import gcmon_common as C

THEOREMS = ["Mmtk.Heap.reachFrom_iff", "Mmtk.Heap.reach_iff", "Mmtk.Heap.reachAux_sound", "Mmtk.Heap.reachAux_complete",
            "Mmtk.Heap.reach_mono_roots", "Mmtk.Heap.reach_drop_root", "Mmtk.Heap.applyOp_wf", "Mmtk.Heap.wf_empty",
            "Mmtk.Heap.checkSnap_sound", "Mmtk.Heap.strictIncr_pairwise",
            # the abstract algorithm (every schedule / every history), package algo
            "Mmtk.Trace.trace_step_decreases", "Mmtk.Trace.trace_terminates", "Mmtk.Trace.trace_completes", "Mmtk.Trace.trace_reach_exact", "Mmtk.Trace.trace_injective", "Mmtk.Trace.trace_iso", "Mmtk.Trace.trace_onto", "Mmtk.Trace.trace_iso_snap", "Mmtk.Trace.trace_still_reachable", "Mmtk.Trace.trace_identity", "Mmtk.Trace.trace_schedule_independent", "Mmtk.Trace.twoPhase_iso", "Mmtk.Trace.slide_injective", "Mmtk.Trace.slide_nonoverlap", "Mmtk.Trace.slide_le", "Mmtk.Trace.markCompact_iso"]
META = {
    "text": "Shadow-heap model (Model/Heap.lean) + snapshot monitor `gcm` (Driver/GCMon): the executable worklist closure `reach` is proved sound and complete w.r.t. the inductive reachability relation for every heap (fuel = #objects + 1), monotone in the roots, every mutator op preserves well-formedness, and a snapshot accepted by `checkSnap` lists exactly the reachable ids once each with the shadow heap's size / payload hash / fields-as-ids / root slots. Real collections: generated mutator programs (sharing hubs, cycles, 10^3-10^4-long lists, wide objects, old->young stores, several mutators, mutators destroyed while they hold roots and a non-empty write-barrier buffer followed by a nursery GC, user + natural GCs) run on a real MMTk instance (hx_gc, all 11 plans x {1,4} workers); after every pause the real heap is walked from the real roots and compared by the Lean monitor; an independent Python oracle re-evaluates the comparison.",
    "note": "Level: proof of the monitor's model, partial w.r.t. the code (the collector itself is sampled, not proved; the abstract algorithm theorems go in the section `algorithm` of Props/C01.lean). Known defects are kept out of the random stream and reported by dedicated corpus programs under stable keys gc:nonmoving-default-trace, gc:nonmoving-gen-lost, gc:compressor-immortal-fwd, gc:markcompact-empty, gc:markcompact-nonmoving-dead.",
    "technique": "Lean 4 proof (graph closure, invariants) + run-time verification of real GC runs by the proved monitor + independent oracle",
    "category": "proof",
}


def main(argv=None):
    return C.run_check("C01", argv, ["MmtkModel.Props.C01", "MmtkModel.Props.C01Algo"], THEOREMS, "common",
                       rule="one evaluation = one `snap` (a walk of real memory from the real roots, injected after every observed pause and placed by the generators) compared with the shadow heap by checkSnap; non-trivial = a snapshot with >= 2 objects taken after >= 1 pause; distinct by (plan, workers, program kind, pause count, object count)",
                       assumptions=["the VerifVM binding reports roots and scans objects as documented in harness/HX_GC.md",
                                    "ids used by a program are reachable in the shadow heap when used (enforced by gcrun.normalize)",
                                    "weak referents (field 0 of reference objects) are not compared here (C06)"])
