"""Helpers shared by the `layout` package's checks (C29–C32).

`multi_main(specs)`: like `vlib.unit.main`, but runs several spec *variants* of one property, each in
its own pair of processes. Needed because the VM layout (`cfg layout 32|64`) is process-global in
mmtk-core and can only be set before its first use, while `unit.run_profile` feeds all cases of a
spec to one process."""
import os, time
from vlib import unit
from vlib import engine as E
from vlib.engine import Violation


def multi_main(specs, argv=None):
    import argparse
    ap = argparse.ArgumentParser()
    ap.add_argument("--tier", default=os.environ.get("VERIF_TIER", "quick"))
    ap.add_argument("--seed", type=int, default=int(os.environ.get("VERIF_SEED", "20260921")))
    ap.add_argument("--replay")
    a = ap.parse_args(argv)
    t0 = time.time()
    spec = specs[0]
    if a.replay:
        import json
        lines = json.load(open(a.replay))["case"]
        for s in specs:   # the variant whose cfg lines the replay file carries
            if all(p in lines for p in s.pre(True)[1:]):
                return unit.replay(s, a.replay)
        return unit.replay(spec, a.replay)
    violations, stats = [], {}
    lean = E.lean_check(spec.modules, spec.theorems, fresh=(a.tier == "thorough"))
    lean["targets"] = spec.modules
    for i, s in enumerate(specs):
        st = {}
        unit.run_profile(s, a.tier, a.seed + 7919 * i, True, lean["ok"], violations, st)
        if a.tier == "thorough" and s.release_in_thorough:
            unit.run_profile(s, a.tier, a.seed + 7919 * i, False, lean["ok"], violations, st)
        # merge
        for k in ("evaluations", "op_lines", "disagreements"):
            stats[k] = stats.get(k, 0) + st.get(k, 0)
        stats.setdefault("build_s", []).extend(st.get("build_s", []))
        stats.setdefault("_distinct", set()).update(st.get("_distinct", set()))
        stats.setdefault("samples", []).extend(st.get("samples", [])[:2])
        for k, v in st.get("distribution", {}).items():
            if isinstance(v, dict):
                d = stats.setdefault("distribution", {}).setdefault(k, {})
                for kk, vv in v.items():
                    d[kk] = d.get(kk, 0) + vv
            else:
                stats.setdefault("distribution", {})[k] = v
    if not lean["ok"]:
        names = [f.get("theorem") or f.get("module") or f["kind"] for f in lean["failures"]]
        if not any(v.found_input for v in violations):
            violations.append(Violation("proof-broken", f"Lean obligations no longer check: {lean['failures']}",
                                        None, None, None, False, broken=f"theorems/modules: {names}"))
    # the same key may be found by several variants: report once
    seen, uniq = set(), []
    for v in violations:
        if (v.key, v.found_input) not in seen:
            seen.add((v.key, v.found_input))
            uniq.append(v)
    distinct = len(stats.pop("_distinct", set()))
    corr = {
        "evaluations": stats.get("evaluations", 0),
        "distinct_nontrivial": distinct,
        "rule": spec.rule,
        "samples": stats.get("samples", []),
        "traces_validated_against_impl": stats.get("evaluations", 0),
        "disagreements_checked": stats.get("disagreements", 0),
        "op_lines": stats.get("op_lines", 0),
        "distribution": stats.get("distribution", {}),
        "harness_build_s": stats.get("build_s"),
        "lean_s": lean.get("lean_s"),
        "variants": [getattr(s, "variant", "") for s in specs],
    }
    return E.finish(spec.pid, a.tier, a.seed, t0, lean, corr, uniq, assumptions=spec.assumptions)
