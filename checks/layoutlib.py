"""Helpers shared by the `layout` package's checks (C29–C32).

`multi_main(specs)`: like `vlib.unit.main`, but runs several spec *variants* of one property, each in
its own pair of processes. Needed because the VM layout (`cfg layout 32|64`) is process-global in
mmtk-core and can only be set before its first use, while `unit.run_profile` feeds all cases of a
spec to one process."""
import os, time
from vlib import unit
from vlib import engine as E
from vlib.engine import Violation


def multi_main(specs, argv=None, extra=None):
    """`extra(tier, seed, violations, stats)`: an additional part of the check (e.g. real GC runs under a
    discontiguous layout) that appends Violations and merges its numbers into `stats`."""
    import argparse
    ap = argparse.ArgumentParser()
    ap.add_argument("--tier", default=os.environ.get("VERIF_TIER", "quick"))
    ap.add_argument("--seed", type=int, default=int(os.environ.get("VERIF_SEED", "20260921")))
    ap.add_argument("--replay")
    a = ap.parse_args(argv)
    t0 = time.time()
    spec = specs[0]
    if a.replay:
        import json
        lines = json.load(open(a.replay))["case"]
        if isinstance(lines, dict) and "program" in lines:
            return replay_gc(a.replay)
        for s in specs:   # the variant whose cfg lines the replay file carries
            if all(p in lines for p in s.pre(True)[1:]):
                return unit.replay(s, a.replay)
        return unit.replay(spec, a.replay)
    violations, stats = [], {}
    lean = E.lean_check(spec.modules, spec.theorems, fresh=(a.tier == "thorough"))
    lean["targets"] = spec.modules
    for i, s in enumerate(specs):
        st = {}
        unit.run_profile(s, a.tier, a.seed + 7919 * i, True, lean["ok"], violations, st)
        if a.tier == "thorough" and s.release_in_thorough:
            unit.run_profile(s, a.tier, a.seed + 7919 * i, False, lean["ok"], violations, st)
        # merge
        for k in ("evaluations", "op_lines", "disagreements"):
            stats[k] = stats.get(k, 0) + st.get(k, 0)
        stats.setdefault("build_s", []).extend(st.get("build_s", []))
        stats.setdefault("_distinct", set()).update(st.get("_distinct", set()))
        stats.setdefault("samples", []).extend(st.get("samples", [])[:2])
        for k, v in st.get("distribution", {}).items():
            if isinstance(v, dict):
                d = stats.setdefault("distribution", {}).setdefault(k, {})
                for kk, vv in v.items():
                    d[kk] = d.get(kk, 0) + vv
            else:
                stats.setdefault("distribution", {})[k] = v
    if extra is not None:
        extra(a.tier, a.seed, violations, stats)
    if not lean["ok"]:
        names = [f.get("theorem") or f.get("module") or f["kind"] for f in lean["failures"]]
        if not any(v.found_input for v in violations):
            violations.append(Violation("proof-broken", f"Lean obligations no longer check: {lean['failures']}",
                                        None, None, None, False, broken=f"theorems/modules: {names}"))
    # the same key may be found by several variants: report once
    seen, uniq = set(), []
    for v in violations:
        if (v.key, v.found_input) not in seen:
            seen.add((v.key, v.found_input))
            uniq.append(v)
    distinct = len(stats.pop("_distinct", set()))
    corr = {
        "evaluations": stats.get("evaluations", 0),
        "distinct_nontrivial": distinct,
        "rule": spec.rule,
        "samples": stats.get("samples", []),
        "traces_validated_against_impl": stats.get("evaluations", 0),
        "disagreements_checked": stats.get("disagreements", 0),
        "op_lines": stats.get("op_lines", 0),
        "distribution": stats.get("distribution", {}),
        "harness_build_s": stats.get("build_s"),
        "lean_s": lean.get("lean_s"),
        "variants": [getattr(s, "variant", "") for s in specs],
    }
    if "gc_part" in stats:
        corr["gc_part"] = stats["gc_part"]
    return E.finish(spec.pid, a.tier, a.seed, t0, lean, corr, uniq, assumptions=spec.assumptions)


# ================================================================================================
# `dpr` component: CommonPageResource heads over a private Map32 (+ the sparse SFT map under layout 32)
# ================================================================================================
from vlib.engine import Case

DFIRST, DLAST = 100, 131
DN = DLAST - DFIRST + 1


class _Sim:
    """First-fit run-level simulation (as in checks/C29.py) used ONLY to generate well-formed histories."""

    def __init__(self):
        self.runs = {DFIRST: (DN, True)}
        self.order = [DFIRST]

    def alloc(self, n):
        for u in self.order:
            s = self.runs[u][0]
            if s >= n:
                self.order.remove(u)
                if s > n:
                    self.runs[u + n] = (s - n, True)
                    self.order.insert(0, u + n)
                self.runs[u] = (n, False)
                return u
        return None

    def free(self, u):
        s = self.runs[u][0]
        start, end = u, u + s
        for a, (sz, fr) in list(self.runs.items()):
            if fr and a + sz == u:
                start = a
            if fr and a == u + s:
                end = a + sz
        for a in [a for a in self.runs if start <= a < end]:
            if a in self.order:
                self.order.remove(a)
            del self.runs[a]
        self.runs[start] = (end - start, True)
        self.order.insert(0, start)


def dpr_gen(rng, n, debug):
    """Histories of grow / release (head, middle, tail) / release_all over 1..4 page resources."""
    cases = []
    for i in range(n):
        sim = _Sim()
        nsp = rng.randrange(1, 5)
        descs = [4 * (k + 1) for k in range(nsp)]
        owned = [[] for _ in range(nsp)]
        ops = [f"dpr new {nsp}"]
        malformed = debug and rng.random() < 0.08
        for j in range(rng.randrange(4, 36)):
            r = rng.random()
            sp = rng.randrange(nsp)
            if r < 0.6 or not any(owned):
                k = rng.choice([1, 1, 1, 2, 2, 3, 4, 5, 8, rng.randrange(1, 34)])
                ops.append(f"dpr grow {sp} {descs[sp]} {k}")
                c = sim.alloc(k)
                if c is not None:
                    owned[sp].insert(0, c)
            elif r < 0.88:
                sp = rng.choice([s for s in range(nsp) if owned[s]])
                l = owned[sp]
                pos = rng.choice([0, 0, len(l) - 1, rng.randrange(len(l)), rng.randrange(len(l))])     # the head twice as often
                c = l.pop(pos)
                ops.append(f"dpr release {sp} {c}")
                sim.free(c)
                if malformed and rng.random() < 0.5 and c in sim.runs and sim.runs[c][1]:
                    ops += [f"dpr release {sp} {c}", f"dpr grow {sp} {descs[sp]} 1", "dpr state"]   # double release → debug assertion
                    break
            elif r < 0.96:
                ops.append(f"dpr releaseall {sp}")
                l = owned[sp]
                # free_all_chunks(head): the next-chain first, then the head itself
                for c in l[1:] + l[:1]:
                    sim.free(c)
                l.clear()
            else:
                ops.append("dpr state")
        if rng.random() < 0.3:
            ops.append(f"dpr sft {rng.choice([DFIRST, DFIRST + 1, DLAST, DLAST + 1, 1 << 25, (1 << 25) - 1]) << 22:#x}")
        cases.append(Case(ops))
    return cases


DPR_CORPUS = [
    # seeded C29: the head region is released while the space owns older regions, then release_all
    Case(["dpr new 2", "dpr grow 0 4 1", "dpr grow 1 8 2", "dpr grow 0 4 2", "dpr grow 0 4 1", "dpr grow 1 8 1",
          "dpr release 0 105", "dpr releaseall 0", "dpr releaseall 1", "dpr state"]),
    # seeded C31: multi-chunk regions freed (one by release, one by release_all), chunks reused by another space
    Case(["dpr new 2", "dpr grow 0 4 3", "dpr grow 0 4 4", "dpr grow 1 8 2", "dpr release 0 100", "dpr sft 0x19400000",
          "dpr releaseall 0", "dpr sft 0x1a000000", "dpr grow 1 8 5", "dpr grow 1 8 3", "dpr releaseall 1"]),
]


def parse_dpr_state(txt):
    d = dict(f.split("=", 1) for f in txt.split())
    return dict(avail=int(d["avail"]), heads=[int(x) for x in d["heads"].split(",")] if d["heads"] else [],
                lists=[[] if l == "-" else [tuple(int(x) for x in e.split(":")) for e in l.split("/")] for l in d["lists"].split(";")],
                desc=[int(x) for x in d["desc"].split(",")],
                sft=None if d["sft"] == "n/a" else [0 if x == "-" else int(x) for x in d["sft"].split(",")])


def dpr_oracle(case, out, want=("pr", "map32", "sft")):
    """The statements of C29 (page-resource level) and C31 (SFT = owner) evaluated on the implementation's outputs only.
    Bookkeeping: what each space owns = regions returned by its grows and not yet released."""
    bad = []
    owned, size, desc_of = [], {}, {}
    dead = False

    def check(op, st):
        regs = {c: (size[c], desc_of[c]) for l in owned for c in l}
        for sp, l in enumerate(owned):
            if sp >= len(st["heads"]):
                continue
            if st["heads"][sp] != (l[0] if l else 0):
                bad.append(("pr:head-not-list-head", f"{op}: head of space {sp} is {st['heads'][sp]}, but the space owns {l} "
                            f"(most recent first): the regions {l} are unreachable from the page resource's head"))
            elif [e[0] for e in st["lists"][sp]] != l:
                bad.append(("pr:links-exact", f"{op}: walk from the head of space {sp} visits {[e[0] for e in st['lists'][sp]]}, owned {l}"))
            elif any(e[1] != size[e[0]] for e in st["lists"][sp]) or [e[2] for e in st["lists"][sp]] != ([0] + l[:-1] if l else []):
                bad.append(("pr:links-exact", f"{op}: sizes / prev links wrong for space {sp}: {st['lists'][sp]}"))
        exp = [0] * (DN + 2)
        for c, (n, d) in regs.items():
            for x in range(c, c + n):
                if DFIRST - 1 <= x <= DLAST + 1:
                    exp[x - (DFIRST - 1)] = d
        if st["desc"] != exp:
            bad.append(("map32:descriptor-exact", f"{op}: descriptors {st['desc']} ≠ owners {exp}"))
        if st["avail"] != DN - sum(n for n, _ in regs.values()):
            bad.append(("map32:avail-exact", f"{op}: avail={st['avail']} but {DN - sum(n for n, _ in regs.values())} chunks are not allocated"))
        if st["sft"] is not None and st["sft"] != exp:
            stale = [DFIRST - 1 + i for i, (a, b) in enumerate(zip(st["sft"], exp)) if a != b and b == 0]
            if stale:
                bad.append(("sft:freed-chunk-resolves", f"{op}: chunks {stale} belong to no space (descriptor 0) but the SFT map still "
                            f"resolves them to spaces {[st['sft'][c - DFIRST + 1] for c in stale]}"))
            else:
                bad.append(("sft:not-owner", f"{op}: SFT entries {st['sft']} ≠ owners {exp}"))

    for op, o in zip(case.ops, out):
        t = op.split()
        if t[0] != "dpr":
            continue
        if o.startswith("panic") or o.startswith("crash") or o == "no-instance":
            # a double release (malformed stream) is allowed to hit the debug assertion; anything else is not
            if not dead and not (t[1] == "release" and int(t[3]) not in [c for l in owned for c in l]):
                bad.append(("pr:panics", f"{op}: {o} on a protocol-respecting history"))
            dead = True
            continue
        if dead or o in ("bad-op", "n/a"):
            continue
        try:
            if t[1] == "new":
                owned, size, desc_of = [[] for _ in range(min(int(t[2]), 8))], {}, {}
                check(op, parse_dpr_state(o[3:]))
            elif t[1] == "grow":
                sp, d, k = int(t[2]), int(t[3]), int(t[4])
                c, rest = o.split(" ", 1)
                c = int(c)
                if c != 0:
                    if c < DFIRST or c + k - 1 > DLAST or any(s < c + k and c < s + size[s] for l in owned for s in l):
                        bad.append(("map32:regions-disjoint", f"{op}: region [{c},{c + k}) overlaps an owned region or leaves the range"))
                    owned[sp].insert(0, c); size[c] = k; desc_of[c] = d
                check(op, parse_dpr_state(rest))
            elif t[1] == "release":
                sp, c = int(t[2]), int(t[3])
                if c not in owned[sp]:
                    dead = True          # not a protocol-respecting history (e.g. produced by shrinking): nothing to check
                    continue
                owned[sp].remove(c)
                check(op, parse_dpr_state(o[3:]))
            elif t[1] == "releaseall":
                owned[int(t[2])] = []
                check(op, parse_dpr_state(o[3:]))
            elif t[1] == "state":
                check(op, parse_dpr_state(o))
            elif t[1] == "sft":
                a = int(t[2], 0) >> 22
                he, name = o.split()
                regs = {c: (size[c], desc_of[c]) for l in owned for c in l}
                own = next((d for c, (n, d) in regs.items() if c <= a < c + n), 0)
                if (he == "true") != (a < (1 << 25)) or name != ("empty" if own == 0 else f"s{own}"):
                    bad.append(("sft:freed-chunk-resolves" if own == 0 else "sft:not-owner",
                                f"{op}: SFT lookup answers {o}, the chunk's owner is {own or 'nobody'}"))
        except Exception as e:
            bad.append(("dpr:unparsable-output", f"{op}: cannot interpret {o!r} ({e!r})"))
    seen, res = set(), []
    for k, w in bad:
        if k.split(":")[0] in want and k not in seen:
            seen.add(k); res.append((k, w))
    return res


def dpr_nontrivial(case, out):
    rel = [op.split() for op in case.ops if op.startswith("dpr release ")]
    return len(rel) >= 1 and any(op.startswith("dpr grow") and int(op.split()[4]) >= 2 for op in case.ops)


def dpr_summarize(cases, outs, h, k):
    """op histogram + which list position each release hit (head / middle / tail / only) + freed region sizes."""
    for c, o in zip(cases, outs):
        owned, size = [], {}
        for op, out in zip(c.ops, o):
            t = op.split()
            if t[0] != "dpr":
                continue
            h[f"dpr:{t[1]}"] = h.get(f"dpr:{t[1]}", 0) + 1
            try:
                if t[1] == "new":
                    owned, size = [[] for _ in range(min(int(t[2]), 8))], {}
                elif t[1] == "grow" and not out.startswith("panic"):
                    c0 = int(out.split()[0])
                    key = "grow:exhausted" if c0 == 0 else ("grow:multi-chunk" if int(t[4]) > 1 else "grow:single-chunk")
                    k[key] = k.get(key, 0) + 1
                    if c0:
                        owned[int(t[2])].insert(0, c0); size[c0] = int(t[4])
                elif t[1] == "release":
                    l = owned[int(t[2])]
                    c0 = int(t[3])
                    if c0 in l:
                        pos = l.index(c0)
                        key = "release:only" if len(l) == 1 else "release:head" if pos == 0 else "release:tail" if pos == len(l) - 1 else "release:middle"
                        if size[c0] > 1:
                            k["release:multi-chunk"] = k.get("release:multi-chunk", 0) + 1
                        l.remove(c0)
                    else:
                        key = "release:malformed"
                    k[key] = k.get(key, 0) + 1
                elif t[1] == "releaseall":
                    key = f"releaseall:{min(len(owned[int(t[2])]), 3)}{'+' if len(owned[int(t[2])]) >= 3 else ''}-regions"
                    k[key] = k.get(key, 0) + 1
                    owned[int(t[2])] = []
            except Exception:
                pass


# ================================================================================================
# `dpr` component, C28 part: discontiguous MonotonePageResources over the same private Map32
# ================================================================================================
PGC = 1024                         # pages in a chunk
MONO_DESCS = [40, 44, 48, 52]


def parse_mono(txt):
    """` mono=` entries of a state dump → list of dicts (cursor / sentinel in bytes)."""
    d = dict(f.split("=", 1) for f in txt.split())
    out = []
    for e in (d.get("mono") or "").split(";"):
        if not e:
            continue
        f = e.split(",")
        grants = [] if f[7] == "-" else [(int(g.split("+")[0]), int(g.split("+")[1].split("*")[0]), int(g.split("*")[1])) for g in f[7].split("/")]
        out.append(dict(cursor=int(f[0]), sentinel=int(f[1]), cc=f[2], res=int(f[3]), com=int(f[4]), head=int(f[5]),
                        list=[] if f[6] == "-" else [tuple(int(x) for x in r.split(":")) for r in f[6].split("/")], grants=grants))
    return out


def mono_gen(rng, n, debug):
    """Histories over 1..3 monotone resources and 0..2 free-list-side page resources sharing the pool of 32 chunks:
    exhaust the pool from the monotone side / from the free-list side / fragment it; retry after a failure; release and
    retry; request more chunks than remain; reset after grants and after failures. In the debug profile the cursor of a
    resource that stands two or more chunks above its current chunk makes the next request self-deadlock (known finding;
    the harness answers `deadlock` instead of calling, a probe under a timeout shows the real hang): the generator resets
    such a resource first, 9 times out of 10."""
    cases = []
    for i in range(n):
        sim = _Sim()
        nsp = rng.choice([1, 1, 1, 2])
        nm = rng.choice([1, 1, 2, 3])
        ops = [f"dpr new {nsp}"] + [f"dpr mnew {MONO_DESCS[k]}" for k in range(nm)]
        owned = [[] for _ in range(nsp)]
        mown = [[] for _ in range(nm)]
        left = [0] * nm                 # pages left in the current region (simulation: only steers the generator)
        kind = rng.choice(["mono-exhaust", "fl-exhaust", "fragment", "random", "random"])
        malformed = rng.random() < 0.06

        off = [0] * nm                  # cursor - current chunk, in pages (simulation)
        cz = [True] * nm                # the cursor is zero (fresh, after a reset, after a FAILED growth)

        def malloc(k, pages):
            if debug and off[k] >= 2 * PGC and rng.random() < 0.9:
                ops.append(f"dpr mreset {k}"); reset(k, emit=False)
            ops.append(f"dpr malloc {k} {pages}")
            if pages <= left[k]:
                left[k] -= pages; off[k] += pages
                return True
            rc = -(-pages // PGC)
            c = sim.alloc(rc)
            if c is None:
                left[k] = 0; off[k] = 0; cz[k] = True
                return False
            mown[k].insert(0, c); left[k] = rc * PGC - pages; off[k] = pages; cz[k] = False
            return True

        def reset(k, emit=True):
            if emit:
                ops.append(f"dpr mreset {k}")
            off[k] = 0
            # release_all only happens when the cursor is non-zero
            if mown[k] and not cz[k]:
                l = mown[k]
                for c in l[1:] + l[:1]:
                    sim.free(c)
                l.clear()
            left[k] = 0; cz[k] = True

        failed = [False] * nm

        def grow(sp, k):
            ops.append(f"dpr grow {sp} {4 * (sp + 1)} {k}")
            c = sim.alloc(k)
            if c is not None:
                owned[sp].insert(0, c)

        def free_chunks():
            return sum(sz for sz, fr in sim.runs.values() if fr)

        if kind == "fl-exhaust" and nsp:
            keep = rng.choice([0, 0, 1, 2, 3])
            grow(0, max(1, free_chunks() - keep))
            if rng.random() < 0.5 and nsp > 1 and free_chunks() > 1:
                grow(1, 1)
        elif kind == "fragment" and nsp:
            for j in range(rng.choice([6, 10, 16, 32])):
                grow(j % nsp if nsp > 1 else 0, 1)
            for sp in range(nsp):
                for c in list(owned[sp])[::2] if nsp == 1 else (list(owned[sp]) if sp == 1 else []):
                    owned[sp].remove(c); ops.append(f"dpr release {sp} {c}"); sim.free(c)
        for j in range(rng.randrange(4, 30)):
            r = rng.random()
            k = rng.randrange(nm)
            if kind == "mono-exhaust" and r < 0.7:
                ok = malloc(k, rng.choice([512, 1024, 1024, 1536, 2047 if debug else 2048, 1000, 4000 if not debug else 1024]))
                failed[k] = not ok
                if not ok and rng.random() < 0.6:
                    failed[k] = not malloc(k, rng.choice([1, 100, 1024, 1025]))      # retry after the failure
            elif r < 0.55:
                avail_pages = free_chunks() * PGC
                pages = rng.choice([1, 1, 8, 100, 256, 512, 513, 1023, 1024, 1025, 1500, 2047, 2048, 2049, 3000, 4096,
                                    max(1, left[k]), left[k] + 1, max(1, avail_pages), avail_pages + 1, 33 * PGC, rng.randrange(1, 5000)])
                failed[k] = not malloc(k, pages)
            elif r < 0.70 and nsp:
                grow(rng.randrange(nsp), rng.choice([1, 1, 2, 3, 5, 8, max(1, free_chunks()), max(1, free_chunks() - 1), free_chunks() + 1]))
            elif r < 0.82 and any(owned):
                sp = rng.choice([s for s in range(nsp) if owned[s]])
                c = owned[sp].pop(rng.randrange(len(owned[sp])))
                ops.append(f"dpr release {sp} {c}"); sim.free(c)
            elif r < 0.86 and any(owned):
                sp = rng.choice([s for s in range(nsp) if owned[s]])
                ops.append(f"dpr releaseall {sp}")
                l = owned[sp]
                for c in l[1:] + l[:1]:
                    sim.free(c)
                l.clear()
            elif r < 0.96:
                reset(k); failed[k] = False
            else:
                ops.append("dpr state")
        if malformed:
            ops += rng.choice([[f"dpr malloc {nm} 1", "dpr malloc 0 1"], ["dpr malloc 0 0", "dpr malloc 0 1", "dpr state"],
                               ["dpr malloc x 1", "dpr mreset 9", f"dpr malloc 0 {1 << 32}", "dpr malloc 0 1"],
                               ["dpr mnew 60", "dpr mnew 64", "dpr mnew 68", "dpr mnew 72", "dpr state"], ["dpr mreset", "dpr malloc 0", "dpr mnew"]])
        cases.append(Case(ops))
    return cases


MONO_CORPUS = [
    # seeded C28b: pool exhausted from the monotone side, requests that must fail, retried
    Case(["dpr new 1", "dpr mnew 40"] + ["dpr malloc 0 512"] * 2 + ["dpr malloc 0 1024"] * 31 + ["dpr malloc 0 512", "dpr malloc 0 512", "dpr malloc 0 1", "dpr state"]),
    # exhausted from the free-list side; retry after a release; failed growth, then reset
    Case(["dpr new 1", "dpr mnew 40", "dpr grow 0 4 31", "dpr malloc 0 500", "dpr malloc 0 600", "dpr malloc 0 100", "dpr mreset 0",
          "dpr malloc 0 10", "dpr release 0 100", "dpr malloc 0 10", "dpr mreset 0", "dpr state"]),
    # more chunks than remain; fragmentation: no run of two chunks
    Case(["dpr new 2", "dpr mnew 40", "dpr mnew 44"] + [f"dpr grow {j % 2} {4 * (j % 2 + 1)} 1" for j in range(32)] + ["dpr releaseall 1",
          "dpr malloc 0 1025", "dpr malloc 0 1024", "dpr malloc 1 1024", "dpr malloc 1 2000", "dpr malloc 0 1", "dpr mreset 0", "dpr mreset 1", "dpr malloc 1 33792"]),
    Case(["dpr new 1", "dpr mnew 40", "dpr malloc 0 0", "dpr malloc 0 1"]),
    Case(["dpr new 1", "dpr malloc 0 1", "dpr mnew x", "dpr mnew 40", "dpr malloc 1 1", "dpr malloc 0 4294967296", "dpr mreset 1", "dpr mreset 0"]),
]


def _free_runs_of(desc):
    runs, cur = [], 0
    for x in desc[1:-1]:                    # chunks DFIRST..DLAST
        if x == 0:
            cur += 1
        else:
            if cur: runs.append(cur)
            cur = 0
    if cur: runs.append(cur)
    return runs


def mono_oracle(case, out, debug=True):
    """C28's statement for discontiguous monotone page resources, evaluated on the implementation's answers and dumps only:
    every grant is page aligned, of the requested size, inside chunks that carry the resource's descriptor and lie on the
    resource's own region list, disjoint from every live grant of every resource; reserved == committed == live granted
    pages after every op; a failed request changes nothing (and is only refused when neither the current region nor the
    pool can serve it); after a reset the resource owns nothing; no chunk is lost."""
    bad = []
    descs, grants, prev, dead, malformed = [], [], None, False, False

    def add(k, w):
        if k not in [b[0] for b in bad]:
            bad.append((k, w))

    def common(op, st, ms):
        # accounting
        for k, m in enumerate(ms):
            tot = sum(n for _, _, n in grants[k])
            if m["res"] != tot or m["com"] != tot:
                add("mono:counters-ne-granted", f"{op}: resource {k}: reserved={m['res']} committed={m['com']} but {tot} pages are granted ({len(grants[k])} live grants)")
            if m["grants"] != grants[k]:
                add("dpr:unparsable-output", f"{op}: resource {k}: the dump lists grants {m['grants'][:4]}, the answers were {grants[k][:4]}")
        # every chunk belongs to exactly the resource whose list it is on; none is lost
        exp = [0] * (DN + 2)
        on_lists = 0
        lists = [(4 * (sp + 1), l) for sp, l in enumerate(st["lists"])] + [(descs[k], m["list"]) for k, m in enumerate(ms)]
        for sp, l in enumerate(st["lists"]):
            for c, n, _ in l:
                if exp[c - DFIRST + 1:c - DFIRST + 1 + n] != [0] * n or c < DFIRST or c + n - 1 > DLAST:
                    add("mono:regions-overlap", f"{op}: region [{c},{c + n}) of space {sp} overlaps another region or leaves the range")
        for d, l in lists:
            for c, n, _ in l:
                on_lists += n
                for x in range(c, c + n):
                    if DFIRST <= x <= DLAST:
                        if exp[x - DFIRST + 1] not in (0, d) :
                            add("mono:regions-overlap", f"{op}: chunk {x} is on the region lists of two resources")
                        exp[x - DFIRST + 1] = d
                    else:
                        add("mono:regions-overlap", f"{op}: region [{c},{c + n}) leaves the range")
        if st["avail"] + on_lists != DN:
            add("mono:chunks-lost", f"{op}: avail={st['avail']} + {on_lists} chunks on the region lists != {DN}")
        if not dead_desc[0] and st["desc"] != exp:
            add("map32:descriptor-exact", f"{op}: descriptors {st['desc']} != owners by the region lists {exp}")

    dead_desc = [False]
    for op, o in zip(case.ops, out):
        t = op.split()
        if t[0] != "dpr":
            continue
        if o == "no-instance":
            dead = True          # not a history (produced by shrinking)
            continue
        if t[1] == "release" and len(t) == 4 and not dead:
            try:
                if prev is None or int(t[3]) not in [r[0] for r in prev[0]["lists"][int(t[2])]]:
                    dead = malformed = True     # the space does not own that region: not a protocol-respecting history
                    continue
            except (ValueError, IndexError):
                dead = malformed = True
                continue
        if o.startswith(("panic", "crash", "deadlock")):
            legit = malformed or (t[1] == "malloc" and len(t) == 4 and t[3] == "0")
            if o == "deadlock" and not dead:
                pm = prev[1][int(t[2], 0)] if prev else {}
                add("mono:debug-self-deadlock-after-multichunk-grant", f"{op}: debug builds never answer this request: the cursor {pm.get('cursor')} is "
                    f"two or more chunks above the current chunk {pm.get('cc')}, so alloc_pages calls log_chunk_fields (sync.lock()) while holding the sync mutex")
            elif not dead and not legit:
                add("mono:panics", f"{op}: {o} on a protocol-respecting history")
            dead = True
            continue
        if o == "bad-op":
            malformed = True
            continue
        if dead:
            continue
        try:
            if t[1] == "new":
                descs, grants, prev = [], [], None
                continue
            head, _, rest = o.partition(" ")
            if t[1] == "state":
                rest = o
            elif t[1] == "malloc" and head == "ok":
                # `ok <chunk>+<off> <pages> new_chunk=<b> <state>`
                f = rest.split(" ", 3)
                rest = f[3]
            st = parse_dpr_state(rest)
            ms = parse_mono(rest)
            if t[1] == "mnew":
                descs.append(int(t[2], 0)); grants.append([])
            elif t[1] == "malloc":
                k, pages = int(t[2], 0), int(t[3], 0)
                if head == "ok":
                    c, off = (int(x) for x in f[0].split("+"))
                    n = int(f[1])
                    if off % 4096:
                        add("mono:grant-unaligned", f"{op}: granted start {c}+{off} is not page aligned")
                    if n != pages:
                        add("mono:grant-wrong-size", f"{op}: {n} pages granted")
                    a, e = c * PGC + off // 4096, c * PGC + off // 4096 + n            # page numbers
                    chunks = range(a // PGC, (e - 1) // PGC + 1) if n else range(a // PGC, a // PGC + 1)
                    inside = all(DFIRST <= x <= DLAST and st["desc"][x - DFIRST + 1] == descs[k] for x in chunks)
                    onlist = any(r[0] * PGC <= a and e <= (r[0] + r[1]) * PGC for r in ms[k]["list"])
                    # a request for 0 pages is granted as the empty range at the cursor (cursor 0 on a resource that
                    # owns no region yet): it occupies nothing, so "inside the space" is vacuous for it
                    if n > 0 and (not inside or not onlist):
                        add("mono:grant-outside-space", f"{op}: granted pages [{c}+{off}, +{n} pages) = chunks {list(chunks)[:4]} do not lie in chunks "
                            f"carrying the resource's descriptor {descs[k]} / on its region list {ms[k]['list'][:4]} (the pool: avail={st['avail']})")
                    for k2, gl in enumerate(grants):
                        for (c2, o2, n2) in gl:
                            a2 = c2 * PGC + o2 // 4096
                            if a < a2 + n2 and a2 < e:
                                add("mono:grant-overlaps", f"{op}: granted [{c}+{off}, +{n} pages) overlaps the live grant [{c2}+{o2}, +{n2} pages) of resource {k2}")
                    for sp, l in enumerate(st["lists"]):
                        for (c2, n2, _) in l:
                            if a < (c2 + n2) * PGC and c2 * PGC < e:
                                add("mono:grant-in-foreign-region", f"{op}: granted [{c}+{off}, +{n} pages) lies in region [{c2},{c2 + n2}) of space {sp}")
                    grants[k].append((c, off, n))
                elif head == "fail" and prev is not None:
                    pst, pms = prev
                    rc = -(-pages // PGC)
                    fits = pms[k]["cursor"] + pages * 4096 <= pms[k]["sentinel"]
                    if fits or max([0] + _free_runs_of(pst["desc"])) >= rc:
                        add("mono:refused-although-available", f"{op}: refused although {'the current region has room' if fits else f'the pool has a free run of {rc} chunks'}")
                    strip = lambda m: {x: m[x] for x in ("res", "com", "head", "list", "grants")}
                    if (pst["avail"], pst["heads"], pst["lists"], pst["desc"]) != (st["avail"], st["heads"], st["lists"], st["desc"]) or \
                       [strip(m) for m in pms] != [strip(m) for m in ms] or [m for j, m in enumerate(pms) if j != k] != [m for j, m in enumerate(ms) if j != k]:
                        add("mono:failed-request-changes-accounting", f"{op}: a failed request changed the region lists / descriptors / counters: before {pst} {pms}, after {st} {ms}")
                    elif pms[k] != ms[k]:
                        add("mono:failed-growth-forgets-region", f"{op}: the failed request changed the resource's cursor/sentinel/current chunk from "
                            f"{pms[k]['cursor']}/{pms[k]['sentinel']}/{pms[k]['cc']} to {ms[k]['cursor']}/{ms[k]['sentinel']}/{ms[k]['cc']}: the "
                            f"{(pms[k]['sentinel'] - pms[k]['cursor']) // 4096} pages left in its current region can no longer be granted")
            elif t[1] == "mreset":
                k = int(t[2], 0)
                grants[k] = []
                m = ms[k]
                if m["head"] != 0 or m["list"] or descs[k] in st["desc"]:
                    add("mono:reset-keeps-chunks", f"{op}: after reset() the resource accounts for 0 pages but still owns the regions {m['list']} "
                        f"(head {m['head']}; cursor was {prev[1][k]['cursor'] if prev else '?'} before the reset; avail={st['avail']})")
                if (m["cursor"], m["sentinel"], m["cc"]) != (0, 0, "0"):
                    add("mono:reset-keeps-cursor", f"{op}: cursor/sentinel/current chunk = {m['cursor']}/{m['sentinel']}/{m['cc']} after reset()")
            common(op, st, ms)
            prev = (st, ms)
        except Exception as e:
            add("dpr:unparsable-output", f"{op}: cannot interpret {o[:120]!r} ({e!r})")
            break
    return bad


def mono_nontrivial(case, out):
    """at least one grant, one refused request and (a later grant or a reset)"""
    heads = [o.split(" ", 1)[0] for op, o in zip(case.ops, out) if op.startswith("dpr malloc")]
    return "ok" in heads and "fail" in heads


def mono_summarize(cases, outs, h):
    for c, o in zip(cases, outs):
        prev_fail = set()
        for op, x in zip(c.ops, o):
            t = op.split()
            key = f"dpr:{t[1]}" if len(t) > 1 else "dpr:?"
            head = x.split(" ", 1)[0]
            if len(t) == 4 and t[1] == "malloc":
                if head == "ok":
                    key += ":grant-new-region" if "new_chunk=1" in x else ":grant-bump"
                    if t[2] in prev_fail:
                        h["dpr:malloc:grant-after-failure"] = h.get("dpr:malloc:grant-after-failure", 0) + 1
                    prev_fail.discard(t[2])
                    if t[3].isdigit() and int(t[3]) > PGC:
                        h["dpr:malloc:grant-multi-chunk"] = h.get("dpr:malloc:grant-multi-chunk", 0) + 1
                elif head == "fail":
                    key += ":refused"
                    if t[2] in prev_fail:
                        h["dpr:malloc:refused-again"] = h.get("dpr:malloc:refused-again", 0) + 1
                    prev_fail.add(t[2])
                    if " avail=0 " in " " + x:
                        h["dpr:malloc:refused-pool-empty"] = h.get("dpr:malloc:refused-pool-empty", 0) + 1
                    else:
                        h["dpr:malloc:refused-no-run-of-required-chunks"] = h.get("dpr:malloc:refused-no-run-of-required-chunks", 0) + 1
                else:
                    key += ":" + head
            elif t[1:2] == ["mreset"] and len(t) == 3:
                key += ":after-failure" if t[2] in prev_fail else ""
                prev_fail.discard(t[2])
            elif head in ("bad-op",) or head.startswith("panic"):
                key += ":" + head
            h[key] = h.get(key, 0) + 1


# ================================================================================================
# Real collections under the compressed-pointer layout (Map32 + SFTSparseChunkMap in the live instance)
# ================================================================================================
import json, random, re, hashlib
from vlib import gcrun as G

MB = 1 << 20
CHUNK = 4 * MB
HEAP_START, HEAP_END = 0x4000_0000, 0x1_0000_0000
NPROBE = 40                       # chunks of the heap range probed after every collection
OUTSIDE = [HEAP_START - CHUNK, HEAP_START - 8, HEAP_END, HEAP_END + CHUNK + 8, (1 << 47) - 8, 1 << 47, (1 << 47) + CHUNK]


class LProgram(G.Program):
    """A gcrun program that runs under `cfg layout compressed` (process-wide, before init)."""

    def header(self):
        h = super().header()
        return ["cfg layout compressed"] + [("cfg watchdog 300" if x.startswith("cfg watchdog") else x) for x in h]

    def with_ops(self, ops):
        p = LProgram.from_json(self.to_json()); p.ops = list(ops); return p

    @staticmethod
    def from_json(d):
        q = G.Program.from_json(d)
        return LProgram(q.plan, q.ops, q.heap, q.workers, q.stress, q.fs, q.yield_seed, q.tag, q.mode, q.mutators, q.opts)


def probe_ops():
    ops = ["regions", "stats"]
    for c in range(NPROBE):
        base = HEAP_START + c * CHUNK
        for a in (base, base + CHUNK // 2, base + CHUNK - 8):
            ops += [f"sftname {a:#x}", f"desc {a:#x}", f"inspaces {a:#x}", f"ismapped {a:#x}"]
    for a in OUTSIDE:
        ops += [f"sftname {a:#x}", f"desc {a:#x}", f"inspaces {a:#x}"]
    return ops


def gc_program(plan, rnd, rounds, workers=1):
    """Large objects spanning 2..4 chunks allocated, dropped (head / middle / tail of the LOS region list) and
    collected; small garbage so that the copying / nursery spaces acquire and release regions too; after every
    collection every chunk of the range is probed."""
    ops = ["alloc 0 0 1 0 8 0 Default 63", "vmroot 255 0", "root 0 63 null"]     # anchor (keeps MarkCompact's F-H away)
    nid, live = 1, {}                       # slot -> id
    ops += probe_ops()
    # scripted prologue: three multi-chunk regions A, B, C on the LOS list (C is the head); release the HEAD while
    # A and B survive, then (with a new head D) the MIDDLE one, then the TAIL
    for s, payload in ((0, 9 * MB), (1, 5 * MB), (2, 9 * MB + 4096)):
        ops.append(f"alloc 0 {nid} 0 {payload} 8 0 Los {s}"); live[s] = nid; nid += 1
    ops += ["root 0 2 null", "gc 0 1"] + probe_ops(); del live[2]
    ops.append(f"alloc 0 {nid} 0 {13 * MB} 8 0 Los 2"); live[2] = nid; nid += 1
    ops += ["root 0 1 null", "gc 0 1"] + probe_ops(); del live[1]
    ops += ["root 0 0 null", "gc 0 1"] + probe_ops(); del live[0]
    for r in range(rounds):
        for _ in range(rnd.randrange(1, 3)):
            free = [s for s in range(0, 4) if s not in live]
            if not free:
                break
            s = rnd.choice(free)
            payload = rnd.choice([4 * MB + 4096, 5 * MB, 7 * MB, 8 * MB - 64, 8 * MB + 4096, 9 * MB, 11 * MB, 12 * MB + 8192,
                                  13 * MB, 3 * MB, 600 * 1024, rnd.randrange(4 * MB, 14 * MB) & ~7])
            ops.append(f"alloc 0 {nid} 0 {payload} 8 0 Los {s}")
            live[s] = nid
            nid += 1
        # small garbage: ~2-9 MB of 6 KB objects in one root slot (the nursery / from-space grows by whole regions)
        for _ in range(rnd.choice([300, 700, 1500])):
            ops.append(f"alloc 0 {nid} 1 6000 8 0 Default 40")
            nid += 1
        # drop: the most recent only (head of the LOS region list, older regions survive), the oldest (tail), a
        # middle one, two random ones, or none
        slots = sorted(live, key=lambda s: live[s])
        how = rnd.choice(["head", "head", "tail", "middle", "two", "none"]) if len(slots) >= 2 else rnd.choice(["head", "none"])
        drop = {"head": slots[-1:], "tail": slots[:1], "middle": slots[len(slots) // 2:len(slots) // 2 + 1],
                "two": rnd.sample(slots, min(2, len(slots))), "none": []}[how]
        for s in drop:
            ops.append(f"root 0 {s} null")
            del live[s]
        ops.append(f"gc 0 {rnd.choice([1, 1, 1, 0])}")
        ops += probe_ops()
    # drop everything, two full collections: every LOS region must be back in the map
    for s in sorted(live):
        ops.append(f"root 0 {s} null")
    ops += ["gc 0 1", "gc 0 1"] + probe_ops()
    return LProgram(plan, ops, heap=rnd.choice([160, 192]) * MB, workers=workers, tag=f"lay32/{plan}")


def gc_suite(seed, tier):
    plans = ["GenImmix", "SemiSpace", "MarkSweep", "Immix"] if tier == "quick" else \
            ["GenImmix", "SemiSpace", "MarkSweep", "Immix", "GenCopy", "StickyImmix", "MarkCompact", "PageProtect",
             "GenImmix", "SemiSpace", "GenCopy", "Immix"]
    progs = []
    for i, plan in enumerate(plans):
        rnd = random.Random(f"{seed}/lay32/{plan}/{i}")
        progs.append(gc_program(plan, rnd, rounds=4 if tier == "quick" else 12, workers=1 if i % 2 == 0 else 4))
    return progs + gc_corpus()


def gc_corpus():
    """Minimised past failures (run in both tiers)."""
    # fixed f02f99c: PageProtect gave fully freed chunks back to the shared pool still PROT_NONE; the common large object space
    # (no protection in its page resource) then got such a chunk and died with SIGSEGV zeroing its first grant
    pp = ["alloc 0 0 1 0 8 0 Default 63", "vmroot 255 0", "root 0 63 null",
          "alloc 0 1 0 7340032 8 0 Default 1", "root 0 1 null", "gc 0 1"] + probe_ops() + \
         ["alloc 0 2 0 7340032 8 0 Los 2", "gc 0 1"] + probe_ops() + ["root 0 2 null", "gc 0 1", "gc 0 1"] + probe_ops()
    return [LProgram("PageProtect", pp, heap=192 * MB, workers=1, tag="lay32/corpus/pageprotect-chunk-back-to-pool")]


def parse_regions(res):
    """`regions avail=N name:desc:head:a+n/a+n …` → (avail, {name: (desc, head, [(chunk, n)] | None for contiguous)})"""
    t = res.split()
    avail = int(t[1].split("=")[1])
    sp = {}
    for tok in t[2:]:
        f = tok.split(":")
        if f[2] == "contig":
            sp[f[0]] = (int(f[1], 16), 0, None)
        else:
            rs = [] if f[3] == "-" else [(int(e.split("+")[0], 16) // CHUNK, int(e.split("+")[1])) for e in f[3].split("/")]
            sp[f[0]] = (int(f[1], 16), int(f[2], 16) // CHUNK, rs)
    return avail, sp


def gc_oracle(trace, st=None):
    """C31 / C29 on what the live instance answered (independent of the Lean model).
    Returns [(pair index, key, what)]; fills `st` (a dict) with distribution numbers."""
    bad = []
    st = st if st is not None else {}
    def inc(k, n=1): st[k] = st.get(k, 0) + n
    cur = None              # latest (avail, spaces)
    total = None
    prev_lists = {}
    live = {}               # id -> (start, size, space, slot)
    slot = {}
    ever = {}               # chunk -> last owner name
    for i, (op, res) in enumerate(trace.pairs):
        t = op.split()
        if res.startswith(("fatal", "timeout", "crash")) or (res.startswith("panic") and t[0] not in ("cfg",)):
            bad.append((i, "gc:panic", f"`{op}` → {res}"))
            continue
        if t[0] == "alloc" and res.startswith("a="):
            m = re.search(r"a=(0x[0-9a-f]+) r=\S+ sz=(\d+) space=(\S+)", res)
            if t[7] == "Los":
                s = int(t[8])
                if s in slot:
                    live.pop(slot[s], None)
                slot[s] = int(t[2])
                live[int(t[2])] = (int(m.group(1), 16), int(m.group(2)), m.group(3))
                for x in range(int(m.group(1), 16) // CHUNK, (int(m.group(1), 16) + int(m.group(2)) - 1) // CHUNK + 1):
                    ever[x] = m.group(3)
                inc(f"los-objects:{-(-int(m.group(2)) // CHUNK)}-chunks")
        elif t[0] == "root" and t[3] == "null":
            live.pop(slot.pop(int(t[2]), None), None)
        elif t[0] == "regions" and res.startswith("regions"):
            avail, sp = parse_regions(res)
            cur = (avail, sp)
            inc("regions-observations")
            owned = sum(n for (_, _, rs) in sp.values() if rs for (_, n) in rs)
            if total is None:
                total = avail + owned
            if avail + owned != total:
                bad.append((i, "pr:regions-lost", f"available chunks {avail} + chunks on the spaces' region lists {owned} ≠ {total}: "
                            f"regions are allocated in the VM map but reachable from no page resource's head ({res})"))
            for name, (d, head, rs) in sp.items():
                if rs is None:
                    continue
                if head != (rs[0][0] if rs else 0):
                    bad.append((i, "pr:head-not-list-head", f"{name}: head {head:#x} but list {rs}"))
                old = prev_lists.get(name, [])
                now = [c for c, _ in rs]
                for k, (c, n) in enumerate(old):
                    if c not in now:
                        pos = "only" if len(old) == 1 else "head" if k == 0 else "tail" if k == len(old) - 1 else "middle"
                        inc(f"released:{pos}:{'multi' if n > 1 else 'single'}-chunk")
                        if k == 0 and any(c2 in now for c2, _ in old[1:]):
                            inc("released:head-with-survivors")
                prev_lists[name] = rs
                for c, n in rs:
                    for x in range(c, c + n):
                        ever[x] = name
            # every live large object lies in regions on its space's list
            for oid, (a, sz, spn) in live.items():
                rs = (sp.get(spn) or (0, 0, []))[2] or []
                for x in range(a // CHUNK, (a + sz - 1) // CHUNK + 1):
                    if not any(c <= x < c + n for c, n in rs):
                        bad.append((i, "pr:region-not-on-list", f"live object {oid} at {a:#x} (+{sz}) occupies chunk {x * CHUNK:#x}, which is "
                                    f"on no region list of space {spn}: {res}"))
                        break
        elif t[0] in ("sftname", "desc", "inspaces", "ismapped") and cur is not None:
            a = int(t[1], 0)
            x = a // CHUNK
            own = next(((name, d) for name, (d, _, rs) in cur[1].items() if rs and any(c <= x < c + n for c, n in rs)), None)
            inc("probes")
            if own:
                inc("probes:owned-chunk")
            elif x in ever:
                inc("probes:freed-chunk")
            if t[0] == "sftname":
                if own is None and res != "empty":
                    bad.append((i, "sft:freed-chunk-resolves", f"{a:#x}: chunk {x * CHUNK:#x} is on no space's region list "
                                f"(last owner: {ever.get(x, 'never owned')}) but the SFT map resolves it to `{res}`"))
                elif own is not None and res != own[0]:
                    bad.append((i, "sft:not-owner", f"{a:#x}: owned by {own[0]}, SFT map says `{res}`"))
            elif t[0] == "desc":
                if int(res, 16) != (own[1] if own else 0):
                    bad.append((i, "vmmap:descriptor-wrong", f"{a:#x}: VM map descriptor {res}, owner {own}"))
            elif t[0] == "inspaces":
                if (res == "true") != (own is not None):
                    bad.append((i, "sft:inspaces-wrong", f"is_in_mmtk_spaces({a:#x}) = {res}, owner {own}"))
            elif t[0] == "ismapped":
                if res != "true" and any(s <= a < s + sz for s, sz, _ in live.values()):
                    bad.append((i, "mmap:live-object-unmapped", f"is_mapped_address({a:#x}) = {res} inside a live large object"))
    return bad


def gc_model_lines(trace):
    """Feed the Lean `resolve` component: the region lists observed, then the probes. Returns (lines, index map, expected)."""
    lines, idx, got = ["cfg layout 32"], [], []
    pend = {}
    have = False
    for i, (op, res) in enumerate(trace.pairs):
        t = op.split()
        if t[0] == "regions" and res.startswith("regions"):
            lines.append("resolve lregions " + " ".join(res.split()[2:]))
            idx.append(None); got.append("ok")
            have = True
            pend = {}
        elif t[0] in ("sftname", "desc", "inspaces") and have and not res.startswith(("panic", "crash", "fatal")):
            pend.setdefault(t[1], {})[t[0]] = (i, res)
            if len(pend[t[1]]) == 3:
                p = pend.pop(t[1])
                lines.append(f"resolve lprobe {t[1]}")
                idx.append(p["sftname"][0])
                got.append(f"{p['sftname'][1]} {int(p['desc'][1], 16):#x} {p['inspaces'][1]}")
    return lines, idx, got


def fingerprint():
    h = hashlib.sha1((G.fingerprint() + str(os.stat(__file__).st_mtime_ns)).encode())
    return h.hexdigest()[:16]


def gc_traces(seed, tier):
    """Run (or load) the suite; shared by C29 and C31."""
    d = os.path.join(E.BUILD, "lay32-cache")
    os.makedirs(d, exist_ok=True)
    path = os.path.join(d, f"{tier}-{seed}-{fingerprint()}.json")
    if os.path.exists(path):
        try:
            return [G.Trace.from_json(t) for t in json.load(open(path))], "hit"
        except (ValueError, KeyError):
            pass
    progs = gc_suite(seed, tier)
    E.log(f"lay32: {len(progs)} programs under cfg layout compressed, {sum(len(p.ops) for p in progs)} ops")
    traces = G.run_many(progs, jobs=4, timeout=900)
    json.dump([t.to_json() for t in traces], open(path, "w"))
    return traces, "miss"


def gc_part(pid, keys):
    """The whole-GC part of a check: `keys` = key prefixes this property reports."""
    def extra(tier, seed, violations, stats):
        t0 = time.time()
        try:
            traces, cache = gc_traces(seed, tier)
        except RuntimeError as e:
            violations.append(Violation("harness-build-failed", str(e)[-1500:], found_input=False, broken="hx_gc build"))
            return
        dist, nprobe, ndis, reported = {}, 0, 0, set()
        for tr in traces:
            tr.program = LProgram.from_json(tr.program.to_json())
            d = {}
            bad = gc_oracle(tr, d)
            for k, v in d.items():
                dist[f"{tr.program.plan}:{k}"] = dist.get(f"{tr.program.plan}:{k}", 0) + v
            lines, idx, got = gc_model_lines(tr)
            outs, rc, err = E.run_lines(E.model_exe(), lines, timeout=600)
            if rc != 0 or len(outs) != len(lines):
                violations.append(Violation("model-lost-sync", f"mmtk_model on a lay32 trace: rc={rc} {err[-300:]}", found_input=False,
                                            broken="Lean driver resolve lregions/lprobe"))
                continue
            nprobe += len(got)
            explained = {i for i, _, _ in bad}
            for o, g, i in zip(outs[1:], got, idx):
                if o != g:
                    ndis += 1
                    if i is not None and not any(abs(i - j) <= 3 for j in explained):
                        bad.append((i, "correspondence:resolve-live", f"`{tr.pairs[i][0]}`: live instance answers `{g}`, the Lean model of the "
                                    f"sparse SFT map / Map32 descriptor lookup over the observed region lists answers `{o}`"))
            for i, key, what in bad:
                if not key.startswith(tuple(keys)) or key in reported:
                    continue
                reported.add(key)
                # concrete failing program: the prefix up to the failing probe
                n_hdr = len(tr.program.header())
                upto = [op for op, _ in tr.pairs[n_hdr:i + 1] if op != "snap"]
                # keep the last probe block only
                cut = max((k for k, op in enumerate(upto[:-1]) if op.startswith("gc ")), default=0)
                small = [op for k, op in enumerate(upto) if k >= cut or op.split()[0] in ("alloc", "root", "vmroot", "gc")]
                case = {"program": tr.program.with_ops(small).to_json(), "layout": "compressed",
                        "lines": tr.program.header() + small}
                violations.append(Violation(key, f"[{tr.program.plan}, cfg layout compressed, workers={tr.program.workers}] {what}",
                                            case, [r for _, r in tr.pairs[max(0, i - 3):i + 1]], None, key.split(":")[0] != "correspondence"))
        stats["evaluations"] = stats.get("evaluations", 0) + len(traces)
        stats["op_lines"] = stats.get("op_lines", 0) + sum(len(t.pairs) for t in traces)
        stats["disagreements"] = stats.get("disagreements", 0) + ndis
        stats.setdefault("_distinct", set()).update((t.program.plan, t.program.workers, len(t.pairs)) for t in traces)
        stats.setdefault("distribution", {})["gc_compressed_layout"] = dist
        stats["gc_part"] = {"programs": len(traces), "plans": sorted({t.program.plan for t in traces}), "cache": cache,
                            "probe_triples_compared_with_lean_model": nprobe, "wall_s": round(time.time() - t0, 1),
                            "rc": [t.rc for t in traces]}
    return extra


def replay_gc(path):
    """`./check Cxx --replay file` for a whole-GC violation of this package."""
    data = json.load(open(path))
    prog = LProgram.from_json(data["case"]["program"])
    tr = G.run(prog, timeout=900)
    bad = gc_oracle(tr)
    for i, k, w in bad[:10]:
        print(f"  {k}: {w}")
    hit = any(k == data["key"] for _, k, _ in bad)
    print("REPLAY:", "violation reproduced" if hit else "no longer reproduces")
    return 1 if hit else 0
