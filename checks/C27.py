"""C27 — a raw-memory free list can grow to its configured maximum."""
from vlib import unit
from vlib.engine import Case
from checks.flgen import install_hang_guard


def size_in_pages(units, heads):
    return ((units + heads + 1) * 8 + 4095) // 4096


def fields(line):
    return {k: int(v) for k, v in (x.split("=") for x in line.split())}


class Spec(unit.UnitSpec):
    pid = "C27"
    modules = ["MmtkModel.Props.C27"]
    theorems = ["Mmtk.FreeList.grow_to_max_false", "Mmtk.FreeList.grow_to_max_false_single",
                "Mmtk.FreeList.grow_to_max_partial", "Mmtk.FreeList.grow_to_max_fixed",
                "Mmtk.FreeList.growFixed_step", "Mmtk.FreeList.raiseFixed_ok", "Mmtk.FreeList.growInv_fresh",
                "Mmtk.FreeList.f7_accepted"]
    component = "fl"
    relation = ("Mmtk.FreeList.RM.{growFreelist,growListByBlocks,raiseHighWater,currentCapacity} ≙ "
                "util::raw_memory_freelist::RawMemoryFreeList (private window, MmapStrategy::RAW_MEMORY_FREELIST)")
    assumptions = [
        "the list is built as Map64::create_parent_freelist builds it (limit = base + size_in_pages pages, "
        "pages_per_block = min(size_in_pages, 16), heads = 1, grain = units) or with other accepted parameters",
        "dzmmap(MAP_FIXED) of a request below 2^47 bytes inside the reserved window succeeds; a wrapped ~2^64-byte request fails",
        "growth requests respect the grain assertion of grow_list_by_blocks (debug builds)",
        "the repaired functions of Props/C27 §after-the-fix are a model of a proposed patch, not of the code"]
    rule = ("raw-memory free lists over a private PROT_NONE window: unit counts at and around multiples of the block "
            "capacity (512·ppb·k − heads − 1 ± 2), Map64's own parameters and other accepted (ppb, limit) pairs; random "
            "growth step sequences summing to the maximum, fields read back after every call, then every unit allocated; "
            "non-trivial = at least two blocks mapped or a clamped last block; distinct = distinct (case, outputs)")

    def one(self, rng, units, heads, ppb, limit_pages, grain, steps):
        ops = [f"fl new rm {units} {grain} {heads} {ppb} {limit_pages}", "fl fields"]
        for n in steps:
            ops += [f"fl grow {n}", "fl fields"]
        ops += ["fl grow 1", "fl fields"]                       # beyond the maximum: must be refused
        chunk = rng.choice([1, 7, 100, 512, 1000]) if units > 64 else rng.choice([1, 2, 3])
        chunk = max(1, min(chunk, grain))
        k = min(40, units // chunk + 2)
        ops += [f"fl alloc 0 {chunk}"] * k
        ops += [f"fl size 0", f"fl info 0 {units - 1 if chunk == 1 else 0}"]
        return Case(ops, tag=f"{units}:{heads}:{ppb}:{limit_pages}")

    def steps(self, rng, units, grain):
        if grain < units:                                       # growth in whole grains (debug assertion)
            g = units // grain
            parts, left = [], g
            while left > 0:
                p = rng.randrange(1, left + 1) if rng.random() < 0.7 else left
                parts.append(p * grain)
                left -= p
            return parts
        r = rng.random()
        if r < 0.3:
            return [units]
        parts, left = [], units
        while left > 0:
            p = rng.choice([1, left, max(1, left // 2), rng.randrange(1, left + 1), min(left, 4000), min(left, 511)])
            parts.append(p)
            left -= p
            if len(parts) > 12:
                parts.append(left) if left else None
                break
        return parts

    def gen(self, rng, tier, debug):
        n = 160 if tier == "quick" else 3000
        cases = []
        for i in range(n):
            heads = rng.choice([1, 1, 1, 2, 5, 128])
            r = rng.random()
            if r < 0.55:                                        # Map64's own derivation
                ppb_units = 512 * 16
                k = rng.choice([1, 1, 2, 2, 3, 5])
                units = max(1, k * ppb_units - heads - 1 + rng.choice([-600, -2, -1, 0, 1, 2, 300, 511, 512, 513, 4000]))
                if rng.random() < 0.25:
                    units = rng.choice([1, 5, 100, 509, 510, 511, 512, 1000, 8189, 8190, 8191, 8192, 8700, 16382, 16383, 20000])
                sip = size_in_pages(units, heads)
                ppb, lim = min(sip, 16), sip
            else:                                               # other accepted parameters
                ppb = rng.choice([1, 1, 2, 3, 4, 8, 16, 32])
                k = rng.choice([1, 2, 3, 4, 7])
                units = max(1, 512 * ppb * k - heads - 1 + rng.choice([-513, -2, -1, 0, 1, 2, 100, 511, 512]))
                sip = size_in_pages(units, heads)
                lim = sip + rng.choice([0, 0, 0, 1, ppb - 1, ppb, 3 * ppb])
            grain = units if rng.random() < 0.7 else rng.choice([g for g in (1, 2, 5, 64, 100, 512) if units % g == 0] or [units])
            if r < 0.55 and rng.random() < 0.5:
                # limit and block size derived by the CODE's own size_in_pages / default_block_size (as Map64 does), the
                # oracle keeps its own arithmetic: a list sized by the code must be able to grow to its maximum
                # (added after seeded change C27b: size_in_pages forgot the bottom sentinel; shows iff (units+heads) % 512 == 0)
                if rng.random() < 0.6:
                    units = 512 * rng.choice([1, 2, 3, 16, 17, 31]) - heads
                cases.append(self.one(rng, units, heads, -1, -1, units, self.steps(rng, units, units)))
                continue
            cases.append(self.one(rng, units, heads, ppb, lim, grain, self.steps(rng, units, grain)))
        return cases

    def corpus(self, debug):
        import random
        rng = random.Random(1)
        return [
            # DESIGN §7-F7: units 8700, heads 1 → size_in_pages 17, block 16 pages
            Case(["fl new rm 8700 8700 1 16 17", "fl grow 4000", "fl fields", "fl grow 4700", "fl fields"], tag="8700:1:16:17"),
            Case(["fl new rm 8700 8700 1 16 17", "fl grow 8700", "fl fields"], tag="8700:1:16:17"),
            self.one(rng, 8190, 1, 16, 16, 8190, [8190]),
            self.one(rng, 16382, 1, 16, 32, 16382, [1, 8189, 8192]),
            Case(["fl map64 3 536870912 536870912", "fl map64 1 2048 2048", "fl map64 2 1000000 1000000"], tag="map64"),
            # adjusted unit counts with (units + heads) % 512 == 0: the bottom sentinel needs a page of its own
            Case(["fl map64 1 262656 262656", "fl map64 2 525312 525312", "fl map64 4 787968 787968"], tag="map64"),
            self.one(rng, 511, 1, -1, -1, 511, [200, 311]),
            self.one(rng, 8191, 1, -1, -1, 8191, [1, 8189, 1]),
        ]

    # ---- the property's own statement on the implementation's answers -------------------------
    def oracle(self, case, impl_out):
        bad = []
        if not case.ops or not impl_out:
            return bad
        t = case.ops[0].split()
        if len(t) >= 2 and t[1] == "map64":
            for op, o in zip(case.ops, impl_out):
                try:
                    f = fields(o)
                except Exception:
                    continue
                # what Map64 hands to the list is accepted by `new`, with the limit exactly at size_in_pages
                need = size_in_pages(f["max"], f["heads"])          # the oracle's own arithmetic, not the printed `sip`
                if f["limit"] != need * 4096 or f["sip"] != need or f["ppb"] != min(need, 16) or f["heads"] != 1:
                    bad.append(("rmfl:map64-params", f"`{op}` → {o}"))
            return bad
        if t[:3] != ["fl", "new", "rm"] or len(t) < 8:
            return bad
        units, grain, heads, ppb, lim = (int(x) for x in t[3:8])
        sip = size_in_pages(units, heads)
        if lim < 0:
            lim = sip                 # derived by the code: must equal the oracle's own size_in_pages (checked via `fl fields`)
        if ppb < 0:
            ppb = min(sip, 16)
        if not (lim >= sip and ppb >= 1 and 1 <= heads <= 128 and units >= 1 and grain >= 1):
            return bad                                           # not accepted by RawMemoryFreeList::new
        cur, allocated, last_fields = 0, [], None
        for op, o in zip(case.ops[1:], impl_out[1:]):
            a = op.split()
            if a[1] == "grow":
                n = int(a[2])
                if n < 1 or not (cur + n <= grain or (cur + n) % grain == 0):
                    return bad
                if cur + n > units:
                    if o != "false":
                        bad.append(("rmfl:grow-beyond-max", f"`{op}` at {cur}/{units} units answered {o}"))
                        return bad
                    continue
                if o != "true":
                    blocks_needed = -(-(cur + n + heads + 1) // (512 * ppb))
                    crosses = blocks_needed * ppb > lim
                    key = "rmfl:raise-high-water-swapped" if crosses and o.startswith("panic") else "rmfl:grow-failed"
                    bad.append((key, f"list of {units} units / {heads} heads, {ppb}-page blocks, limit {lim} pages "
                                     f"(size_in_pages = {sip}): `{op}` at {cur} units answered {o}; the request is within "
                                     f"the configured maximum" + ("; the last block would cross the limit and "
                                     "raise_high_water clamps with high_water - limit" if crosses else "")))
                    return bad
                cur += n
            elif a[1] == "fields":
                if o.startswith(("panic", "bad-op")):
                    return bad
                f = fields(o)
                last_fields = f
                if f["hw"] > f["limit"] or f["hw"] < 0:
                    bad.append(("rmfl:mapped-beyond-limit", f"high water {f['hw']} beyond limit {f['limit']}: {o}"))
                if f["cur"] != cur:
                    bad.append(("rmfl:current-units", f"current_units {f['cur']} after growing to {cur}: {o}"))
                if cur > 0 and (f["cap"] < cur or f["len"] * 4 != f["hw"] or (cur + heads + 1) * 2 > f["len"]):
                    bad.append(("rmfl:capacity", f"{cur} units do not fit the mapped table: {o}"))
            elif a[1] == "alloc":
                if o.startswith(("panic", "hang", "diverge")):
                    bad.append(("rmfl:alloc-after-grow", f"`{op}` on the grown list answered {o}"))
                    return bad
                r, n = int(o), int(a[3])
                if r >= 0:
                    if r + n > cur or any(r < s + l and s < r + n for s, l in allocated):
                        bad.append(("rmfl:alloc-after-grow", f"`{op}` returned {r}: outside 0..{cur} or overlapping {allocated[-3:]}"))
                        return bad
                    allocated.append((r, n))
                else:
                    used = sum(l for _, l in allocated)
                    # first-fit on runs of `grain` units: failure is legitimate only if no run has n free units
                    if grain >= cur and cur - used >= n:
                        bad.append(("rmfl:unit-not-usable", f"`{op}` failed with {cur - used} of {cur} units never handed out"))
                        return bad
            if bad:
                return bad
        return bad

    def nontrivial(self, case, out):
        for o in out:
            if o.startswith("hw="):
                f = fields(o)
                if f["hw"] > f["ppb"] * 4096 or (f["hw"] == f["limit"] and f["limit"] % (f["ppb"] * 4096)):
                    return True
        return any(o.startswith("panic") for o in out)

    def summarize(self, cases, outs):
        blocks, div, panics, steps = {}, {"ppb|sip": 0, "ppb∤sip": 0}, 0, {}
        for c, o in zip(cases, outs):
            t = c.ops[0].split()
            if t[1] != "new":
                continue
            units, heads, ppb, lim = int(t[3]), int(t[5]), int(t[6]), int(t[7])
            sip = size_in_pages(units, heads)
            div["ppb|sip" if sip % ppb == 0 else "ppb∤sip"] += 1
            b = -(-sip // ppb)
            blocks[f"{min(b, 6)}{'+' if b >= 6 else ''} blocks"] = blocks.get(f"{min(b, 6)}{'+' if b >= 6 else ''} blocks", 0) + 1
            g = sum(1 for x in c.ops if x.startswith("fl grow"))
            steps[str(min(g, 8))] = steps.get(str(min(g, 8)), 0) + 1
            panics += sum(1 for l in o if l.startswith("panic"))
        return {"blocks_at_max": blocks, "divisibility": div, "grow_calls_per_case": steps, "panic_lines": {"n": panics}}


META = {
    "text": 'Lean: the four growth functions of RawMemoryFreeList transcribed over Nat with the 64-bit wrap; grow_to_max is REFUTED for the code as written by a decide-proved witness (8700 units, 1 head, 16-page blocks, limit 17 pages — Map64\'s own parameters — grow 4000 then 4700 panics in debug and release: raise_high_water clamps with high_water - limit); grow_to_max_partial holds when whole blocks fit below the limit (pages_per_block divides size_in_pages); for the repaired functions (limit - high_water; capacity from mapped bytes) grow_to_max_fixed is proved for all accepted parameters and all request sequences. Differential on real lists over a private window, fields read back after every call, every unit allocated afterwards.',
    "note": 'Genuine defect rmfl:raise-high-water-swapped (known finding): found by the oracle on the real code whenever size_in_pages is not a multiple of pages_per_block and growth reaches the last block; current_capacity\'s flooring of a partial block cannot be observed separately on the unpatched code (the clamp panics first) and is the second half of the proposed patch. Trusted: Lean kernel; hand-written model tied by the differential; mmap modelled as succeeding below 2^47 bytes.',
    "technique": 'Lean 4 proof (refutation by decide; invariant + induction over request sequences for the repaired model) + exact differential',
}


def main(argv=None):
    install_hang_guard()
    return unit.main(Spec(), argv)
